//! C03 — a type description is accepted exactly when it is realisable.
//!
//! Events: (description, pointer width, Ok/Err of the real build, resolved
//! size/alignment). Oracle: the reference predicate `refmodel::layout_type`.

use crate::drive::{self, Opts, Stage};
use crate::refmodel::{self, Reject};
use crate::render;
use crate::rng::{fnv, Rng};
use crate::verdict::Ctx;
use pyxis::grammar::{self, Attribute, Attributes, ItemPath, Type, TypeDefinition};
use rayon::prelude::*;
use serde_json::{json, Value};
use std::collections::BTreeMap;

#[derive(Clone, Debug)]
pub struct Case {
    pub fields: Vec<(Option<usize>, Type)>,
    pub size: Option<usize>,
    pub align: Option<usize>,
    pub packed: bool,
    pub vftable: bool,
    pub ptrw: usize,
    /// order in which size/align/packed are written (0..6), and whether they share one bracket
    pub attr_order: u8,
}

fn ty_alphabet_full() -> Vec<Type> {
    vec![
        Type::ident("u8"),
        Type::ident("u16"),
        Type::ident("u32"),
        Type::ident("u64"),
        Type::ident("u128"),
        Type::ident("bool"),
        Type::ident("u8").const_pointer(),
        Type::ident("u16").array(3),
        Type::Unknown(1),
        Type::Unknown(3),
        Type::Unknown(4),
        // zero-sized: no member of the struct, but an address on it still moves the cursor
        // (and may overlap what precedes it)
        Type::ident("u32").array(0),
    ]
}
fn ty_alphabet_small() -> Vec<Type> {
    vec![
        Type::ident("u8"),
        Type::ident("u16"),
        Type::ident("u32"),
        Type::ident("u64"),
        Type::ident("i32").mut_pointer(),
        Type::Unknown(2),
    ]
}
const ADDR_FULL: &[Option<usize>] = &[None, Some(0), Some(1), Some(2), Some(3), Some(4), Some(6), Some(8), Some(12), Some(16)];
const ADDR_SMALL: &[Option<usize>] = &[None, Some(0), Some(2), Some(4), Some(8), Some(12)];
const SIZES: &[Option<usize>] = &[None, Some(0), Some(2), Some(4), Some(8), Some(12), Some(16), Some(24)];
const ALIGNS: &[Option<usize>] = &[None, Some(1), Some(2), Some(3), Some(4), Some(8), Some(16)];

pub struct Space {
    pub types: Vec<Type>,
    pub addrs: Vec<Option<usize>>,
    pub nfields: usize,
    pub vftable: bool,
}
impl Space {
    pub fn len(&self) -> u64 {
        let per_field = (self.types.len() * self.addrs.len()) as u64;
        per_field.pow(self.nfields as u32) * (SIZES.len() * ALIGNS.len() * 2 * 2) as u64
    }
    pub fn decode(&self, mut i: u64) -> Case {
        let mut take = |n: usize| -> usize {
            let r = (i % n as u64) as usize;
            i /= n as u64;
            r
        };
        let ptrw = [4, 8][take(2)];
        let packed = take(2) == 1;
        let align = ALIGNS[take(ALIGNS.len())];
        let size = SIZES[take(SIZES.len())];
        let mut fields = vec![];
        for _ in 0..self.nfields {
            let a = self.addrs[take(self.addrs.len())];
            let t = self.types[take(self.types.len())].clone();
            fields.push((a, t));
        }
        // the order of the attributes is not an independent dimension of the space; it is
        // derived from the index so that every order occurs for every attribute combination
        // somewhere in the sweep
        let attr_order = ((i ^ (i >> 7) ^ (i >> 13)) % 6) as u8;
        Case {
            fields,
            size,
            align,
            packed,
            vftable: self.vftable,
            ptrw,
            attr_order,
        }
    }
}

pub fn case_to_td(c: &Case) -> TypeDefinition {
    let mut statements = vec![];
    if c.vftable {
        statements.push(grammar::TypeStatement::vftable([grammar::Function::new(
            (grammar::Visibility::Public, "vf"),
            [grammar::Argument::ConstSelf],
        )]));
    }
    for (i, (a, t)) in c.fields.iter().enumerate() {
        let name = if matches!(t, Type::Unknown(_)) { "_".to_string() } else { format!("f{i}") };
        statements.push(refmodel::field(&name, t.clone(), *a, true));
    }
    let mut parts: Vec<Option<Attribute>> = vec![c.size.map(Attribute::size), c.align.map(Attribute::align), c.packed.then(Attribute::packed)];
    const ORDERS: [[usize; 3]; 6] = [[0, 1, 2], [0, 2, 1], [1, 0, 2], [1, 2, 0], [2, 0, 1], [2, 1, 0]];
    let order = ORDERS[(c.attr_order % 6) as usize];
    let attrs: Vec<Attribute> = order.iter().filter_map(|i| parts[*i].take()).collect();
    TypeDefinition {
        statements,
        attributes: Attributes(attrs),
    }
}

pub fn case_json(c: &Case) -> Value {
    let m = refmodel::single_type_module("T", case_to_td(c), true);
    json!({"ptrw": c.ptrw, "modules": {"m": render::render_plain(&m)}})
}

#[derive(Debug)]
pub enum Judged {
    Agree { accepted: bool, class: &'static str },
    Disagree { sig: String, detail: String },
}

/// Run the real build on one description and compare with the reference predicate.
pub fn judge(c: &Case, emit: bool) -> Judged {
    let td = case_to_td(c);
    let reference = refmodel::layout_type(&td, c.ptrw, c.vftable, &|_| None);
    let m = refmodel::single_type_module("T", td, true);
    let path = ItemPath::from("m");
    let out = drive::build_modules(
        &[(path, m)],
        c.ptrw,
        Opts {
            no_emit: !emit,
            ..Default::default()
        },
    );
    match (&out.result, &reference) {
        (Err(e), _) if e.stage == Stage::Panic => Judged::Disagree {
            sig: "C03/panic".into(),
            detail: e.msg.clone(),
        },
        (Ok(ok), Ok(l)) => {
            let state_guard = ok.state.lock().unwrap();
            let item = state_guard.type_registry().get(&ItemPath::from("m::T"));
            let (sz, al) = item.map(|i| (i.size(), i.alignment())).unwrap_or((None, None));
            if sz != Some(l.size) || al != Some(l.align) {
                Judged::Disagree {
                    sig: "C03/accepted/size-or-alignment-differs".into(),
                    detail: format!(
                        "accepted with size {sz:?} align {al:?}; the description implies size {} align {}",
                        l.size, l.align
                    ),
                }
            } else {
                Judged::Agree {
                    accepted: true,
                    class: "accept",
                }
            }
        }
        (Err(_), Err(r)) => Judged::Agree {
            accepted: false,
            class: r.class(),
        },
        (Ok(_), Err(r)) => Judged::Disagree {
            sig: format!("C03/accept-unrealisable/{}", r.class()),
            detail: format!("accepted although not realisable: {r:?}"),
        },
        (Err(e), Ok(l)) => Judged::Disagree {
            sig: format!("C03/reject-realisable/{}", error_class(&e.msg)),
            detail: format!(
                "rejected at {:?} although realisable with size {} align {}: {}",
                e.stage, l.size, l.align, e.msg
            ),
        },
    }
}

pub fn error_class(msg: &str) -> &'static str {
    if msg.contains("overlapped with existing region") {
        "overlap"
    } else if msg.contains("does not match target size") {
        "target-size"
    } else if msg.contains("both `packed` and `align`") {
        "packed-and-align"
    } else if msg.contains("less than minimum required alignment") {
        "align-too-small"
    } else if msg.contains("which is not divisible by") {
        "misaligned-field"
    } else if msg.contains("not a multiple of its alignment") {
        "size-not-multiple-of-align"
    } else if msg.contains("will not terminate") {
        "non-termination"
    } else if msg.contains("power of two") {
        "align-not-pow2"
    } else {
        "other"
    }
}

fn structural_hash(c: &Case) -> u64 {
    fnv(format!("{:?}", c).as_bytes())
}

fn nontrivial(c: &Case) -> bool {
    !c.fields.is_empty()
        && (c.size.is_some() || c.align.is_some() || c.packed || c.fields.iter().any(|f| f.0.is_some()))
}

struct Acc {
    evals: u64,
    accepted: u64,
    rejected: u64,
    classes: BTreeMap<&'static str, u64>,
    hashes: Vec<u64>,
    bad: Vec<(String, String, Value)>,
    emitted: u64,
}
impl Acc {
    fn new() -> Acc {
        Acc {
            evals: 0,
            accepted: 0,
            rejected: 0,
            classes: BTreeMap::new(),
            hashes: vec![],
            bad: vec![],
            emitted: 0,
        }
    }
    fn merge(mut self, o: Acc) -> Acc {
        self.evals += o.evals;
        self.accepted += o.accepted;
        self.rejected += o.rejected;
        self.emitted += o.emitted;
        for (k, v) in o.classes {
            *self.classes.entry(k).or_insert(0) += v;
        }
        self.hashes.extend(o.hashes);
        if self.bad.len() < 200 {
            self.bad.extend(o.bad);
        }
        self
    }
    fn add(&mut self, c: &Case, emit: bool) {
        self.evals += 1;
        if emit {
            self.emitted += 1;
        }
        match judge(c, emit) {
            Judged::Agree { accepted, class } => {
                if accepted {
                    self.accepted += 1;
                } else {
                    self.rejected += 1;
                }
                *self.classes.entry(class).or_insert(0) += 1;
            }
            Judged::Disagree { sig, detail } => {
                if self.bad.len() < 200 {
                    self.bad.push((sig, detail, case_json(c)));
                }
            }
        }
        if nontrivial(c) {
            self.hashes.push(structural_hash(c));
        }
    }
}

fn sweep(space: &Space, stride: u64, offset: u64, emit_every: u64) -> Acc {
    let n = space.len();
    let count = (n - offset + stride - 1) / stride;
    (0..count)
        .into_par_iter()
        .fold(Acc::new, |mut acc, k| {
            let i = offset + k * stride;
            let c = space.decode(i);
            acc.add(&c, emit_every > 0 && k % emit_every == 0);
            acc
        })
        .reduce(Acc::new, Acc::merge)
}

pub fn random_case(rng: &mut Rng) -> Case {
    let ptrw = *rng.pick(&[4usize, 8]);
    let n = rng.range(0, 10);
    let scalars = ["u8", "u16", "u32", "u64", "u128", "i8", "i16", "i32", "i64", "f32", "f64", "bool"];
    let mut fields = vec![];
    let mut cur = 0usize;
    for _ in 0..n {
        let base = match rng.below(10) {
            0..=5 => Type::ident(*rng.pick(&scalars)),
            6 => Type::ident(*rng.pick(&scalars)).const_pointer(),
            7 => Type::ident("void").mut_pointer().const_pointer(),
            8 => Type::Unknown(rng.range(0, 40)),
            _ => Type::ident(*rng.pick(&scalars)),
        };
        let t = if rng.chance(1, 4) {
            let inner = if rng.chance(1, 5) { base.array(rng.range(1, 3)) } else { base };
            inner.array(rng.range(0, 9))
        } else {
            base
        };
        let sz = refmodel::type_sz(&t, ptrw, &|_| None).unwrap();
        // mostly plausible addresses (aligned, at or after the running end), sometimes hostile
        let addr = match rng.below(10) {
            0..=3 => None,
            4..=6 => {
                let a = (cur + rng.below(3) * sz.align + sz.align - 1) / sz.align * sz.align;
                Some(a)
            }
            7 => Some(cur),
            8 => Some(cur + rng.below(20)),
            _ => Some(cur.saturating_sub(rng.range(1, 4))),
        };
        cur = addr.unwrap_or(cur).max(cur) + sz.size;
        fields.push((addr, t));
    }
    let align = match rng.below(8) {
        0..=2 => None,
        3 => Some(*rng.pick(&[3usize, 5, 6, 12, 24, 0])),
        _ => Some(1usize << rng.below(6)),
    };
    let size = match rng.below(6) {
        0..=1 => None,
        2 => Some(cur),
        3 => Some((cur + 15) / 16 * 16),
        4 => Some((cur + 7) / 8 * 8),
        _ => Some(cur.saturating_sub(rng.below(4)) + rng.below(8)),
    };
    Case {
        fields,
        size,
        align,
        packed: rng.chance(1, 8),
        vftable: rng.chance(1, 5),
        ptrw,
        attr_order: rng.below(6) as u8,
    }
}

/// The same judgement through the concrete-syntax path (parser + add_module).
fn judge_text(c: &Case, rng: &mut Rng) -> Option<(String, String, Value)> {
    let td = case_to_td(c);
    let reference = refmodel::layout_type(&td, c.ptrw, c.vftable, &|_| None);
    let m = refmodel::single_type_module("T", td, true);
    let text = render::render_random(&m, rng);
    let out = drive::build_texts(&[("m.pyxis".into(), text.clone())], c.ptrw, Opts::default());
    let case = json!({"ptrw": c.ptrw, "modules": {"m": text}});
    match (&out.result, &reference) {
        (Err(e), _) if e.stage == Stage::Panic || e.stage == Stage::Parse => {
            Some((format!("C03/text/{:?}", e.stage).to_lowercase(), e.msg.clone(), case))
        }
        (Ok(_), Err(r)) => Some((
            format!("C03/accept-unrealisable/{}", r.class()),
            format!("text path accepted although not realisable: {r:?}"),
            case,
        )),
        (Err(e), Ok(_)) => Some((
            format!("C03/reject-realisable/{}", error_class(&e.msg)),
            format!("text path rejected a realisable description: {}", e.msg),
            case,
        )),
        _ => None,
    }
}

pub fn run(ctx: &mut Ctx) {
    ctx.rule = "single-type descriptions over {u8,u16,u32,u64,bool,*const u8,[u16;3],unknown<1|3|4>} x address {-,0,1,2,3,4,6,8,12,16} x size {-,0,2,4,8,12,16,24} x align {-,1,2,3,4,8,16} x packed x ptr width {4,8}: all with <=2 fields (exhaustive), 3 fields over a reduced alphabet and the vftable-block variants (exhaustive in thorough, strided in quick); plus random descriptions with up to 10 fields, nested arrays, all scalar types, larger numbers, a sample through the text path. Each is built by the real SemanticState and compared with the reference realisability predicate (and, when accepted, its resolved size/alignment with the reference). non-trivial = >=1 field and >=1 of address/size/align/packed; distinct by structural hash".into();
    ctx.assumptions.push("reference predicate refmodel::layout_type restates the property text; 'effective alignment' without #[align] is the sole member's alignment or the pointer width, as the source documents".into());
    ctx.assumptions.push("zero-length arrays are outside the enumerated alphabet".into());

    let quick = ctx.tier == crate::verdict::Tier::Quick;
    let mut total = Acc::new();
    let mut exhaustive_spaces = vec![];

    // 0, 1, 2 fields over the full alphabet: complete in both tiers
    for nf in 0..=2 {
        let sp = Space {
            types: ty_alphabet_full(),
            addrs: ADDR_FULL.to_vec(),
            nfields: nf,
            vftable: false,
        };
        let a = sweep(&sp, 1, 0, 97);
        exhaustive_spaces.push(json!({"fields": nf, "vftable": false, "alphabet": "full", "cases": sp.len(), "complete": true}));
        total = total.merge(a);
    }
    // vftable variants (<=2 fields, reduced alphabet) and 3 fields reduced alphabet
    let stride_v: u64 = 1;
    for nf in 0..=2 {
        let sp = Space {
            types: ty_alphabet_small(),
            addrs: ADDR_FULL.to_vec(),
            nfields: nf,
            vftable: true,
        };
        let off = ctx.seed % stride_v;
        let a = sweep(&sp, stride_v, off, 97);
        exhaustive_spaces.push(json!({"fields": nf, "vftable": true, "alphabet": "reduced", "cases": sp.len(), "complete": stride_v == 1, "stride": stride_v}));
        total = total.merge(a);
    }
    let stride3: u64 = if quick { 5 } else { 1 };
    {
        let sp = Space {
            types: ty_alphabet_small(),
            addrs: ADDR_SMALL.to_vec(),
            nfields: 3,
            vftable: false,
        };
        let off = ctx.seed % stride3;
        let a = sweep(&sp, stride3, off, 97);
        exhaustive_spaces.push(json!({"fields": 3, "vftable": false, "alphabet": "reduced", "cases": sp.len(), "complete": stride3 == 1, "stride": stride3}));
        total = total.merge(a);
    }
    ctx.count("enumerated_cases", total.evals);

    // random descriptions
    let nrand: u64 = ctx.tier.pick(200_000, 4_000_000);
    let seed = ctx.seed;
    let r = (0..nrand)
        .into_par_iter()
        .fold(Acc::new, |mut acc, i| {
            let mut rng = Rng::derive(seed, 0x0300_0000 + i);
            let c = random_case(&mut rng);
            acc.add(&c, i % 50 == 0);
            acc
        })
        .reduce(Acc::new, Acc::merge);
    ctx.count("random_cases", r.evals);
    total = total.merge(r);

    // text path sample
    let ntext: u64 = ctx.tier.pick(3_000, 60_000);
    let bads: Vec<(String, String, Value)> = (0..ntext)
        .into_par_iter()
        .filter_map(|i| {
            let mut rng = Rng::derive(seed, 0x0310_0000 + i);
            let c = random_case(&mut rng);
            judge_text(&c, &mut rng)
        })
        .collect();
    ctx.count("text_path_cases", ntext);
    ctx.evals(ntext);

    ctx.evals(total.evals);
    ctx.count("accepted", total.accepted);
    ctx.count("rejected", total.rejected);
    ctx.count("emitted_through_backend", total.emitted);
    for (k, v) in &total.classes {
        ctx.count(&format!("agree/{k}"), *v);
    }
    for h in &total.hashes {
        ctx.nontrivial(*h);
    }
    ctx.extra.insert("enumerated_spaces".into(), Value::Array(exhaustive_spaces));
    ctx.exhaustive = Some(true);
    ctx.extra.insert(
        "exhaustive_scope".into(),
        json!("exhaustive: true refers to the sub-spaces marked complete in enumerated_spaces; random phases are samples"),
    );
    for (sig, detail, case) in total.bad.into_iter().chain(bads) {
        ctx.violation(&sig, &detail, case);
    }
    // samples: one accepted and one rejected enumerated case, one random
    let sp = Space { types: ty_alphabet_full(), addrs: ADDR_FULL.to_vec(), nfields: 2, vftable: false };
    let mut rng = Rng::derive(seed, 77);
    for _ in 0..3 {
        let c = sp.decode(rng.next_u64() % sp.len());
        let j = judge(&c, false);
        ctx.sample(json!({"case": case_json(&c), "judged": format!("{j:?}")}));
    }
    let c = random_case(&mut rng);
    ctx.sample(json!({"case": case_json(&c), "judged": format!("{:?}", judge(&c, false))}));

    let evals = total.evals.max(1);
    if (total.accepted as f64) < 0.02 * evals as f64 || (total.rejected as f64) < 0.10 * evals as f64 {
        ctx.inconclusive(format!(
            "verdict classes unbalanced: accepted {} rejected {} of {}",
            total.accepted, total.rejected, evals
        ));
    }
    if ctx.distinct_count() < 10_000 {
        ctx.inconclusive(format!("only {} distinct non-trivial descriptions", ctx.distinct_count()));
    }
}

/// Replay: `{"ptrw":N,"modules":{"m": "<text>"}}` — parse, rebuild the Case-free judgement.
pub fn replay(ctx: &mut Ctx, case: &Value) {
    let ptrw = case["ptrw"].as_u64().unwrap_or(8) as usize;
    let text = case["modules"]["m"].as_str().unwrap_or("");
    ctx.eval();
    let parsed = match pyxis::parser::parse_str(text) {
        Ok(m) => m,
        Err(e) => {
            ctx.violation("C03/text/parse", &e.to_string(), case.clone());
            return;
        }
    };
    let Some(def) = parsed.definitions.first() else { return };
    let grammar::ItemDefinitionInner::Type(td) = &def.inner else { return };
    let vft = refmodel::has_vftable_block(td);
    let reference = refmodel::layout_type(td, ptrw, vft, &|_| None);
    let out = drive::build_texts(&[("m.pyxis".into(), text.to_string())], ptrw, Opts::default());
    match (&out.result, &reference) {
        (Ok(_), Err(r)) => ctx.violation(
            &format!("C03/accept-unrealisable/{}", r.class()),
            &format!("{r:?}"),
            case.clone(),
        ),
        (Err(e), Ok(_)) => ctx.violation(
            &format!("C03/reject-realisable/{}", error_class(&e.msg)),
            &e.msg,
            case.clone(),
        ),
        (Ok(ok), Ok(l)) => {
            let p = ItemPath::from(format!("m::{}", def.name).as_str());
            let state_guard = ok.state.lock().unwrap();
            let item = state_guard.type_registry().get(&p);
            let got = item.map(|i| (i.size(), i.alignment()));
            if got != Some((Some(l.size), Some(l.align))) {
                ctx.violation("C03/accepted/size-or-alignment-differs", &format!("{got:?} vs {l:?}"), case.clone());
            }
        }
        _ => {}
    }
}

#[allow(dead_code)]
pub fn reject_class_of(r: &Reject) -> &'static str {
    r.class()
}
