//! C08 — enum discriminants, representation and default variant.
//!
//! Observed: `E::V as i128` for every variant, size_of/align_of and
//! `Default::default()` as *executed* on the host (native, and a batch under
//! Miri); Ok/Err of the build for the acceptance clauses.

use crate::drive::{self, Opts, Stage};
use crate::l2::{self, BuildOutcome, Built, StepKind};
use crate::layout_props::{case_json, mods_from_case};
use crate::probe::{self, ProbeCrate};
use crate::refmodel::{attr_flag, builtin};
use crate::rng::{fnv, Rng};
use crate::verdict::Ctx;
use pyxis::grammar::*;
use rayon::prelude::*;
use serde_json::{json, Value};
use std::collections::BTreeSet;

pub const INT_BASES: &[&str] = &["u8", "u16", "u32", "u64", "i8", "i16", "i32", "i64"];

pub fn int_range(base: &str) -> Option<(i128, i128)> {
    Some(match base {
        "u8" => (0, u8::MAX as i128),
        "u16" => (0, u16::MAX as i128),
        "u32" => (0, u32::MAX as i128),
        "u64" => (0, u64::MAX as i128),
        "u128" => (0, i128::MAX),
        "i8" => (i8::MIN as i128, i8::MAX as i128),
        "i16" => (i16::MIN as i128, i16::MAX as i128),
        "i32" => (i32::MIN as i128, i32::MAX as i128),
        "i64" => (i64::MIN as i128, i64::MAX as i128),
        "i128" => (i128::MIN, i128::MAX),
        _ => return None,
    })
}

#[derive(Debug, Clone, PartialEq)]
pub enum RefEnum {
    /// values per variant, index of default variant
    Accept { values: Vec<i128>, default: Option<usize> },
    Reject(&'static str),
    /// the property does not say (duplicate discriminants, non-integer base)
    Unspecified(&'static str),
}

pub fn reference(ed: &EnumDefinition) -> RefEnum {
    let Type::Ident(base) = &ed.type_ else { return RefEnum::Unspecified("non-name base") };
    let Some((lo, hi)) = int_range(base.as_str()) else { return RefEnum::Unspecified("non-integer base") };
    let mut values = vec![];
    let mut next: Option<i128> = Some(0);
    let mut defaults = vec![];
    for (i, st) in ed.statements.iter().enumerate() {
        let v = match &st.expr {
            Some(Expr::IntLiteral(v)) => *v as i128,
            Some(_) => return RefEnum::Reject("non-integer value"),
            None => match next {
                Some(n) => n,
                None => return RefEnum::Reject("implicit value overflows"),
            },
        };
        if v < lo || v > hi {
            return RefEnum::Reject("discriminant out of range");
        }
        values.push(v);
        next = if v >= isize::MAX as i128 { None } else { Some(v + 1) };
        if attr_flag(&st.attributes, "default") {
            defaults.push(i);
        }
    }
    let defaultable = attr_flag(&ed.attributes, "defaultable");
    if defaults.len() > 1 {
        return RefEnum::Reject("several default variants");
    }
    if defaultable != (defaults.len() == 1) {
        return RefEnum::Reject("default marker and defaultable disagree");
    }
    let set: BTreeSet<i128> = values.iter().copied().collect();
    if set.len() != values.len() {
        return RefEnum::Unspecified("duplicate discriminants");
    }
    RefEnum::Accept {
        values,
        default: defaults.first().copied(),
    }
}

fn enum_module(name: &str, ed: EnumDefinition) -> Module {
    Module::new().with_definitions([ItemDefinition::new((Visibility::Public, name), ed)])
}

pub fn random_enum(rng: &mut Rng) -> EnumDefinition {
    let base = if rng.chance(1, 12) {
        *rng.pick(&["u128", "i128"])
    } else {
        *rng.pick(INT_BASES)
    };
    let (lo, hi) = int_range(base).unwrap();
    let hi_lit = hi.min(isize::MAX as i128);
    let lo_lit = lo.max(isize::MIN as i128);
    let n = if rng.chance(1, 5) { rng.range(8, 32) } else { rng.range(1, 7) };
    let hostile = rng.chance(1, 5);
    let mut statements = vec![];
    let mut used: BTreeSet<i128> = BTreeSet::new();
    let mut next: i128 = 0;
    for k in 0..n {
        let explicit = rng.chance(2, 5);
        let mut v = next;
        if explicit {
            v = match rng.below(10) {
                0 => lo_lit,
                1 => hi_lit,
                2 if hostile => hi.saturating_add(1),
                3 if hostile => lo.saturating_sub(1),
                4 if hostile => -1,
                5 => hi_lit - rng.below(40) as i128,
                6 => lo_lit + rng.below(40) as i128,
                7 => (rng.next_u64() as i128) % (hi_lit.max(1)),
                _ => next + rng.below(30) as i128,
            };
            v = v.clamp(isize::MIN as i128, isize::MAX as i128);
        }
        // keep discriminants distinct (duplicates are rustc's E0081, not this property's matter)
        let mut tries = 0;
        while used.contains(&v) && tries < 100 {
            v = if v < hi_lit { v + 1 } else { lo_lit + tries };
            tries += 1;
        }
        let explicit = explicit || v != next;
        used.insert(v);
        statements.push(EnumStatement {
            name: Ident(format!("V{k}")),
            expr: explicit.then_some(Expr::IntLiteral(v as isize)),
            attributes: Attributes(vec![]),
        });
        next = if v >= isize::MAX as i128 { v } else { v + 1 };
    }
    let mut attrs = vec![];
    match rng.below(3) {
        0 => attrs.push(Attribute::copyable()),
        1 => attrs.push(Attribute::cloneable()),
        _ => {}
    }
    let dflt = rng.below(10);
    if dflt < 5 {
        attrs.push(Attribute::defaultable());
        let k = rng.below(n);
        statements[k].attributes.0.push(Attribute::default());
    } else if dflt == 5 {
        attrs.push(Attribute::defaultable()); // without marker: must be rejected
    } else if dflt == 6 {
        let k = rng.below(n);
        statements[k].attributes.0.push(Attribute::default()); // marker without defaultable
    } else if dflt == 7 && n >= 2 {
        attrs.push(Attribute::defaultable());
        statements[0].attributes.0.push(Attribute::default());
        statements[n - 1].attributes.0.push(Attribute::default());
    }
    EnumDefinition {
        type_: Type::ident(base),
        statements,
        attributes: Attributes(attrs),
    }
}

/// <=3 variants x boundary alphabet x all bases x default position
pub fn exhaustive() -> Vec<EnumDefinition> {
    let mut out = vec![];
    for base in INT_BASES {
        let (lo, hi) = int_range(base).unwrap();
        let clamp = |v: i128| v.clamp(isize::MIN as i128, isize::MAX as i128) as isize;
        let alphabet: Vec<Option<isize>> = vec![None, Some(0), Some(1), Some(clamp(hi)), Some(clamp(hi + 1)), Some(clamp(lo)), Some(clamp(lo - 1)), Some(-1), Some(clamp(hi - 1))];
        for n in 1..=3usize {
            let total = alphabet.len().pow(n as u32);
            for code in 0..total {
                let mut c = code;
                let mut vals = vec![];
                for _ in 0..n {
                    vals.push(alphabet[c % alphabet.len()]);
                    c /= alphabet.len();
                }
                for default_pos in 0..=n {
                    for defaultable in [false, true] {
                        let statements = vals
                            .iter()
                            .enumerate()
                            .map(|(k, v)| EnumStatement {
                                name: Ident(format!("V{k}")),
                                expr: v.map(Expr::IntLiteral),
                                attributes: Attributes(if default_pos == k + 1 { vec![Attribute::default()] } else { vec![] }),
                            })
                            .collect();
                        out.push(EnumDefinition {
                            type_: Type::ident(base),
                            statements,
                            attributes: Attributes(if defaultable { vec![Attribute::defaultable(), Attribute::copyable()] } else { vec![Attribute::copyable()] }),
                        });
                    }
                }
            }
        }
    }
    out
}

fn judge_acceptance(ed: &EnumDefinition, ptrw: usize) -> Option<(String, String)> {
    let r = reference(ed);
    let mods = vec![(ItemPath::from("ke_m"), enum_module("E", ed.clone()))];
    // accepted = every stage succeeds, including the backend
    let out = drive::build_modules(&mods, ptrw, Opts::default());
    match (&out.result, &r) {
        (Err(e), _) if e.stage == Stage::Panic => Some(("C08/panic".into(), e.msg.clone())),
        (_, RefEnum::Unspecified(_)) => None,
        (Ok(_), RefEnum::Reject(why)) => Some((format!("C08/accepted/{}", why.replace(' ', "-")), format!("accepted although: {why}"))),
        (Err(e), RefEnum::Accept { .. }) => Some(("C08/rejected-valid-enum".into(), e.msg.clone())),
        _ => None,
    }
}

fn judge_observed(b: &Built, obs: &l2::ItemObs, ed: &EnumDefinition, name: &str, bad: &mut Vec<(String, String)>, runtime: &str) {
    let RefEnum::Accept { values, default } = reference(ed) else { return };
    if !obs.complete {
        bad.push(("C08/probe-incomplete".into(), format!("[{runtime}] probe for `{name}` did not complete: {:?}", obs.panicked)));
        return;
    }
    let Type::Ident(base) = &ed.type_ else { return };
    let bsz = builtin(base.as_str()).map(|s| s.size as u64);
    if obs.size != bsz || obs.align != bsz {
        bad.push(("C08/representation".into(), format!("[{runtime}] `{name}`: base `{base}` but size {:?} align {:?}", obs.size, obs.align)));
    }
    for (k, st) in ed.statements.iter().enumerate() {
        let got = obs.variants.iter().find(|v| v.0 == st.name.as_str()).map(|v| v.1);
        if got != Some(values[k]) {
            bad.push(("C08/discriminant".into(), format!("[{runtime}] `{name}::{}` must be {} but is {got:?}", st.name, values[k])));
        }
    }
    if obs.variants.len() != ed.statements.len() {
        bad.push(("C08/variant-count".into(), format!("[{runtime}] `{name}` has {} variants, declared {}", obs.variants.len(), ed.statements.len())));
    }
    match default {
        Some(k) => {
            if obs.default != Some(values[k]) {
                bad.push(("C08/default".into(), format!("[{runtime}] `{name}`: Default::default() is {:?}, the #[default] variant `{}` is {}", obs.default, ed.statements[k].name, values[k])));
            }
        }
        None => {
            if obs.default.is_some() {
                bad.push(("C08/default".into(), format!("[{runtime}] `{name}` is not defaultable but implements Default")));
            }
        }
    }
    let _ = b;
}

pub fn run(ctx: &mut Ctx) {
    ctx.rule = "enum descriptions over every integer base (u8..u64, i8..i64; u128/i128 occasionally), 1-32 variants, explicit/implicit mixes with boundary values (0, min, max, max+1, min-1, -1 on unsigned), default marker at every position with/without defaultable, distinct discriminants; exhaustive: <=3 variants x 9 boundary constants x 8 bases x default position x defaultable (acceptance compared with the reference rule; duplicates unspecified); accepted enums are emitted, compiled and their variants' values, size/align and Default::default() read from the executed probe (native; one batch under Miri). A sample goes through the text path. non-trivial = accepted enum with >=3 variants mixing explicit and implicit values, executed; distinct by structural hash".into();
    let seed = ctx.seed;
    // exhaustive acceptance sweep
    let ex = exhaustive();
    let stride = ctx.tier.pick(5usize, 1);
    let off = (seed as usize) % stride;
    let bads: Vec<(EnumDefinition, (String, String))> = ex
        .par_iter()
        .enumerate()
        .filter(|(i, _)| i % stride == off)
        .filter_map(|(i, ed)| judge_acceptance(ed, if i % 2 == 0 { 8 } else { 4 }).map(|b| (ed.clone(), b)))
        .collect();
    let n_ex = ex.len() / stride;
    ctx.evals(n_ex as u64);
    ctx.count("exhaustive_acceptance_cases", n_ex as u64);
    ctx.exhaustive = Some(stride == 1);
    ctx.extra.insert("exhaustive_space".into(), json!({"cases": ex.len(), "stride": stride, "complete": stride == 1}));
    for (ed, (sig, detail)) in bads {
        ctx.violation(&sig, &detail, case_json(&[(ItemPath::from("ke_m"), enum_module("E", ed))], 8));
    }

    // discriminants written as literals beyond the language's integer range never fit
    for base in INT_BASES.iter().chain(["u128", "i128"].iter()) {
        for lit in ["9223372036854775808", "0x8000_0000_0000_0000", "0xFFFF_FFFF_FFFF_FFFF", "18446744073709551615", "18446744073709551616"] {
            for shape in 0..2 {
                ctx.eval();
                ctx.count("oversized_literal_cases", 1);
                let text = if shape == 0 { format!("pub enum E: {base} {{ A = {lit} }}") } else { format!("pub enum E: {base} {{ Z, A = {lit}, B }}") };
                let out = drive::build_texts(&[("ke_m.pyxis".into(), text.clone())], 8, Opts::default());
                match out.result {
                    Ok(_) => ctx.violation("C08/accepted/literal-beyond-integer-range", &format!("`{text}` was accepted"), json!({"ptrw": 8, "modules": {"ke_m": text}})),
                    Err(e) if e.stage == Stage::Panic => ctx.violation("C08/panic", &e.msg, json!({"ptrw": 8, "modules": {"ke_m": text}})),
                    Err(_) => {}
                }
            }
        }
    }

    // random enums: acceptance + execution
    let n = ctx.tier.pick(1200usize, 20_000);
    let per_case = 3usize;
    let cases: Vec<(String, Vec<(ItemPath, Module)>, Vec<EnumDefinition>)> = (0..n / per_case)
        .into_par_iter()
        .map(|i| {
            let mut rng = Rng::derive(seed, 0x0800_0000 + i as u64);
            let id = format!("k{i}_");
            let mut m = Module::new();
            let mut eds = vec![];
            for k in 0..per_case {
                let ed = random_enum(&mut rng);
                // a third goes through the concrete syntax
                let ed = if k == 0 {
                    let txt = crate::render::render_random(&enum_module("X", ed.clone()), &mut rng);
                    match pyxis::parser::parse_str(&txt) {
                        Ok(pm) => match &pm.definitions[0].inner {
                            ItemDefinitionInner::Enum(e) => e.clone(),
                            _ => ed,
                        },
                        Err(_) => ed,
                    }
                } else {
                    ed
                };
                eds.push(ed);
            }
            // only those the reference accepts go into the executed module; the rest are judged for rejection
            for (k, ed) in eds.iter().enumerate() {
                if matches!(reference(ed), RefEnum::Accept { .. }) {
                    m.definitions.push(ItemDefinition::new((Visibility::Public, format!("E{k}").as_str()), ed.clone()));
                }
            }
            (id.clone(), vec![(ItemPath::from(format!("{id}e").as_str()), m)], eds)
        })
        .collect();
    let mut rejected_ok = 0u64;
    for (_, _, eds) in &cases {
        for ed in eds {
            ctx.eval();
            if !matches!(reference(ed), RefEnum::Accept { .. }) {
                match judge_acceptance(ed, 8) {
                    Some((sig, detail)) => ctx.violation(&sig, &detail, case_json(&[(ItemPath::from("ke_m"), enum_module("E", ed.clone()))], 8)),
                    None => rejected_ok += 1,
                }
            }
        }
    }
    ctx.count("invalid_enums_rejected_or_unspecified", rejected_ok);
    let built: Vec<Option<Built>> = cases
        .par_iter()
        .map(|(id, mods, _)| match l2::build_mods(id, mods, 8) {
            BuildOutcome::Built(b) => Some(b),
            _ => None,
        })
        .collect();
    let mut accepted: Vec<(&(String, Vec<(ItemPath, Module)>, Vec<EnumDefinition>), Built)> = vec![];
    for (c, b) in cases.iter().zip(built) {
        match b {
            Some(b) => accepted.push((c, b)),
            None => {
                // a module of reference-valid enums was rejected: find which
                for ed in &c.2 {
                    if matches!(reference(ed), RefEnum::Accept { .. }) {
                        if let Some((sig, detail)) = judge_acceptance(ed, 8) {
                            ctx.violation(&sig, &detail, case_json(&[(ItemPath::from("ke_m"), enum_module("E", ed.clone()))], 8));
                        }
                    }
                }
            }
        }
    }
    ctx.count("modules_accepted", accepted.len() as u64);
    let chunks: Vec<&[(&(String, Vec<(ItemPath, Module)>, Vec<EnumDefinition>), Built)]> = accepted.chunks(40).collect();
    let miri_batches = ctx.tier.pick(1usize, 8);
    let results: Vec<Vec<(usize, String, String)>> = chunks
        .par_iter()
        .enumerate()
        .map(|(bi, chunk)| {
            let mut bad = vec![];
            let mut pc = ProbeCrate::new();
            let mut metas = vec![];
            for (i, (_, b)) in chunk.iter().enumerate() {
                l2::add_case_files(&mut pc, b, false);
                metas.extend(l2::add_layout_steps(&mut pc, b, i));
            }
            let scratch = probe::scratch("enum");
            let root = pc.write(&scratch.path);
            let bin = scratch.path.join("probe_bin");
            let r = probe::build_native(&root, &bin);
            if !r.ok {
                // attribute to cases
                for line in r.stderr.lines().filter(|l| l.contains("error")) {
                    let file = line.split(':').next().unwrap_or("").rsplit('/').next().unwrap_or("");
                    if let Some(i) = chunk.iter().position(|(_, b)| file.starts_with(&b.id)) {
                        bad.push((i, "C08/emitted-enum-does-not-compile".to_string(), crate::verdict::one_line(line, 300)));
                    }
                }
                if bad.is_empty() {
                    bad.push((0, "C08/__inconclusive".into(), crate::verdict::one_line(&r.stderr, 300)));
                }
                return bad;
            }
            let mut logs = vec![("native", probe::run_native(&bin, pc.next_step))];
            if bi < miri_batches {
                // Miri on a smaller crate of its own would be cheaper; the enum probes are tiny
                logs.push(("miri", probe::run_miri(&scratch.path, pc.next_step, &scratch.path.join("miri-target"))));
            }
            for (rt, log) in &logs {
                if let Some(r) = &log.inconclusive {
                    if *rt == "native" {
                        bad.push((0, "C08/__inconclusive".into(), format!("{rt}: {r}")));
                    } else {
                        eprintln!("{rt} run without result: {}", crate::verdict::one_line(r, 200));
                    }
                    continue;
                }
                for (_, text) in &log.reports {
                    bad.push((0, format!("C08/{rt}-report"), text.clone()));
                }
                let obs = l2::collect_layouts(log, &metas);
                for m in metas.iter().filter(|m| matches!(m.kind, StepKind::EnumValues)) {
                    let (c, b) = &chunk[m.case];
                    let k: usize = m.item.trim_start_matches('E').parse().unwrap_or(0);
                    let Some(ed) = c.2.get(k) else { continue };
                    if let Some(o) = obs.get(&(m.case, format!("{}::{}", m.module, m.item))) {
                        let mut bb = vec![];
                        judge_observed(b, o, ed, &format!("{}::{}", m.module, m.item), &mut bb, rt);
                        for (s, d) in bb {
                            bad.push((m.case, s, d));
                        }
                    }
                }
            }
            bad
        })
        .collect();
    let mut executed = 0u64;
    for (chunk, bad) in chunks.iter().zip(results) {
        for (c, _) in chunk.iter() {
            for ed in &c.2 {
                if let RefEnum::Accept { .. } = reference(ed) {
                    executed += 1;
                    let explicit = ed.statements.iter().filter(|s| s.expr.is_some()).count();
                    if ed.statements.len() >= 3 && explicit > 0 && explicit < ed.statements.len() {
                        ctx.nontrivial(fnv(format!("{ed:?}").as_bytes()));
                    }
                }
            }
        }
        let mut seen = BTreeSet::new();
        for (ci, sig, detail) in bad {
            if sig == "C08/__inconclusive" {
                ctx.inconclusive(detail);
                continue;
            }
            if seen.insert((ci, sig.clone())) {
                let (c, b) = &chunk[ci];
                let _ = c;
                ctx.violation(&sig, &detail, case_json(&b.mods, b.ptrw));
            }
        }
    }
    ctx.count("enums_executed", executed);

    // the same enums for a 32-bit target: the definitions are compiled by the nightly compiler
    // for i686-pc-windows-msvc; every variant's compiled value must be the value it was written
    // with, and the enum must have the size and alignment of its base type there as well
    // (in the registry and as compiled)
    let w4_cases: Vec<&(String, Vec<(ItemPath, Module)>, Vec<EnumDefinition>)> = accepted.iter().map(|(c, _)| *c).take(ctx.tier.pick(240, 4000)).collect();
    let w4_chunks: Vec<&[&(String, Vec<(ItemPath, Module)>, Vec<EnumDefinition>)]> = w4_cases.chunks(40).collect();
    let w4: Vec<(Vec<(usize, String, String)>, u64, u64, Option<String>)> = w4_chunks
        .par_iter()
        .map(|chunk| {
            let mut bad = vec![];
            let mut files = vec![];
            let mut built4 = vec![];
            for (i, c) in chunk.iter().enumerate() {
                match l2::build_mods(&c.0, &c.1, 4) {
                    BuildOutcome::Built(b) => {
                        for (mp, t) in &b.texts {
                            files.push((mp.clone(), t.clone()));
                        }
                        built4.push((i, b));
                    }
                    BuildOutcome::Rejected(e) => bad.push((i, "C08/rejected-for-4-byte-pointers".to_string(), format!("accepted for 8-byte pointers, rejected for 4-byte pointers: {}", crate::verdict::one_line(&e.msg, 200)))),
                    BuildOutcome::Unparsable { error, .. } => bad.push((i, "C08/emitted-enum-does-not-parse".to_string(), error)),
                }
            }
            let sc = probe::scratch("e686");
            let res = crate::layoutdump::dump(&files, &[], 4, &sc.path);
            if let Some(f) = &res.tool_failure {
                return (bad, 0, 0, Some(f.clone()));
            }
            let mut variants = 0u64;
            let mut enums = 0u64;
            for m in &res.discriminant_mismatches {
                let case = chunk.iter().position(|c| m.starts_with(&format!("{}e::", c.0))).unwrap_or(0);
                bad.push((case, "C08/discriminant-on-32-bit-target".to_string(), format!("compiled for i686-pc-windows-msvc the variant does not have the value it is written with: {m}")));
            }
            for e in &res.errors {
                let case = chunk.iter().position(|c| e.contains(&format!("{}e", c.0))).unwrap_or(0);
                bad.push((case, "C08/emitted-enum-does-not-compile-for-32-bit-target".to_string(), crate::verdict::one_line(e, 300)));
            }
            for (i, b) in &built4 {
                let state_guard = b.ok.state.lock().unwrap();
                let reg = state_guard.type_registry();
                for (mp, ef) in &b.efiles {
                    for en in &ef.enums {
                        enums += 1;
                        variants += en.variants.len() as u64;
                        let path = format!("{mp}::{}", en.name);
                        let k: usize = en.name.trim_start_matches('E').parse().unwrap_or(0);
                        let Some(ed) = chunk[*i].2.get(k) else { continue };
                        let base = match &ed.type_ {
                            Type::Ident(i) => i.to_string(),
                            _ => continue,
                        };
                        let want_size: u64 = match base.trim_start_matches(['u', 'i']) {
                            "8" => 1,
                            "16" => 2,
                            "32" => 4,
                            "64" => 8,
                            "128" => 16,
                            _ => continue,
                        };
                        // i686-pc-windows-msvc: 64-bit integers are 8-aligned, 128-bit ones 16-aligned
                        let want_align = want_size;
                        if let Some(o) = res.layouts.get(&path) {
                            if o.size != want_size || o.align != want_align {
                                bad.push((*i, "C08/size-or-alignment-on-32-bit-target".to_string(), format!("`{path}` over {base}: compiled size {} align {}, the base type has {want_size}/{want_align}", o.size, o.align)));
                            }
                        } else {
                            bad.push((*i, "C08/enum-not-observed-on-32-bit-target".to_string(), format!("no layout for `{path}`")));
                        }
                        if let Some(item) = reg.get(&ItemPath::from(path.as_str())) {
                            let (rs, ra) = (item.size().map(|x| x as u64), item.alignment().map(|x| x as u64));
                            if rs != Some(want_size) || ra != Some(want_align) {
                                bad.push((*i, "C08/resolved-size-or-alignment-for-4-byte-pointers".to_string(), format!("`{path}` over {base}: resolved size {rs:?} align {ra:?}, the base type has {want_size}/{want_align}")));
                            }
                        }
                    }
                }
            }
            (bad, enums, variants, None)
        })
        .collect();
    for (chunk, (bad, enums, variants, failure)) in w4_chunks.iter().zip(w4) {
        ctx.count("i686/enums_compiled", enums);
        ctx.count("i686/variant_values_compared", variants);
        if let Some(f) = failure {
            ctx.count("i686/runs_without_result", 1);
            eprintln!("i686 enum dump without result: {}", crate::verdict::one_line(&f, 200));
        }
        let mut seen = BTreeSet::new();
        for (ci, sig, detail) in bad {
            if seen.insert((ci, sig.clone())) {
                ctx.violation(&sig, &detail, case_json(&chunk[ci].1, 4));
            }
        }
    }
    if let Some((c, b)) = accepted.first() {
        let _ = c;
        ctx.sample(json!({"case": case_json(&b.mods, 8)}));
    }
    if ctx.distinct_count() < ctx.tier.pick(150, 1500) {
        ctx.inconclusive(format!("only {} distinct non-trivial enums executed", ctx.distinct_count()));
    }
}

pub fn replay(ctx: &mut Ctx, case: &Value) {
    let Ok((mods, ptrw)) = mods_from_case(case) else {
        ctx.inconclusive("replay case does not parse");
        return;
    };
    ctx.eval();
    for (_, m) in &mods {
        for d in &m.definitions {
            if let ItemDefinitionInner::Enum(ed) = &d.inner {
                if let Some((sig, detail)) = judge_acceptance(ed, ptrw) {
                    ctx.violation(&sig, &detail, case.clone());
                }
            }
        }
    }
    if let BuildOutcome::Built(b) = l2::build_mods("k0_", &mods, ptrw) {
        let mut pc = ProbeCrate::new();
        l2::add_case_files(&mut pc, &b, false);
        let metas = l2::add_layout_steps(&mut pc, &b, 0);
        if let Ok(run) = l2::compile_and_run_native(&pc, "enumr") {
            let obs = l2::collect_layouts(&run.log, &metas);
            for (mp, m) in &mods {
                for d in &m.definitions {
                    if let ItemDefinitionInner::Enum(ed) = &d.inner {
                        if let Some(o) = obs.get(&(0, format!("{mp}::{}", d.name))) {
                            let mut bad = vec![];
                            judge_observed(&b, o, ed, d.name.as_str(), &mut bad, "native");
                            for (s, dd) in bad {
                                ctx.violation(&s, &dd, case.clone());
                            }
                        }
                    }
                }
            }
        } else {
            ctx.violation("C08/emitted-enum-does-not-compile", "probe crate did not compile", case.clone());
        }
    }
}
