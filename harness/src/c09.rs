//! C09 — the output is a deterministic function of the input set.
//!
//! Schedules are *driven*, not hoped for: the hook in `TypeRegistry::unresolved`
//! returns the work list in a caller-chosen priority order (every permutation
//! for small inputs), modules are added and written in every order, builds are
//! repeated in one process (fresh RandomState keys per map) and in fresh child
//! processes on a real directory. Oracle: every run of one input set yields the
//! same Ok/Err and byte-identical files.

use crate::drive::{self, Opts, Stage};
use crate::gen_prog::{self, Cfg};
use crate::layout_props::{case_json, mods_from_case, structural_hash};
use crate::rng::{fnv, Rng};
use crate::verdict::Ctx;
use pyxis::grammar::*;
use pyxis::verif::{Event, Replaced};
use rayon::prelude::*;
use serde_json::{json, Value};
use std::cell::RefCell;
use std::collections::{BTreeMap, BTreeSet};
use std::rc::Rc;

type Mods = Vec<(ItemPath, Module)>;

#[derive(Clone, PartialEq, Eq, Debug)]
pub enum Outcome {
    Ok(BTreeMap<String, String>),
    Err,
    Panic(String),
}

fn outcome_of(r: &Result<drive::BuildOk, drive::BuildErr>) -> Outcome {
    match r {
        Ok(ok) => Outcome::Ok(ok.files.clone()),
        Err(e) if e.stage == Stage::Panic => Outcome::Panic(e.msg.clone()),
        Err(_) => Outcome::Err,
    }
}

fn describe(o: &Outcome) -> String {
    match o {
        Outcome::Ok(f) => format!("Ok({} files, hash {:x})", f.len(), fnv(format!("{f:?}").as_bytes())),
        Outcome::Err => "Err".into(),
        Outcome::Panic(p) => format!("Panic({})", crate::verdict::one_line(p, 120)),
    }
}

struct SchedState {
    /// path -> priority
    rank: BTreeMap<String, u64>,
    rng: Rng,
    redraw_on_new_key: bool,
    new_key: bool,
    orders: Vec<Vec<String>>,
    fixed: Option<Vec<String>>,
}

/// One scheduled build. `priority`: explicit priority list (earlier = first) for
/// known paths; unknown paths get random ranks. Returns outcome + observed work lists.
pub fn scheduled_build(mods: &Mods, ptrw: usize, priority: Option<Vec<String>>, seed: u64, redraw: bool, add_order: Option<&[usize]>, write_order: Option<Vec<usize>>) -> (Outcome, Vec<Vec<String>>, String) {
    let st = Rc::new(RefCell::new(SchedState {
        rank: BTreeMap::new(),
        rng: Rng::new(seed),
        redraw_on_new_key: redraw,
        new_key: false,
        orders: vec![],
        fixed: priority.clone(),
    }));
    if let Some(p) = &priority {
        let mut s = st.borrow_mut();
        for (i, path) in p.iter().enumerate() {
            s.rank.insert(path.clone(), i as u64 * 1000);
        }
    }
    let st2 = st.clone();
    let sched: drive::Scheduler = Box::new(move |paths: Vec<ItemPath>| {
        let mut s = st2.borrow_mut();
        if drive::take_new_key_flag() {
            s.new_key = true;
        }
        if s.redraw_on_new_key && s.new_key {
            // a real map may rehash when a new key arrives: re-draw every priority
            s.new_key = false;
            let keys: Vec<String> = s.rank.keys().cloned().collect();
            for k in keys {
                let r = s.rng.next_u64();
                s.rank.insert(k, r);
            }
        }
        let mut v: Vec<(u64, ItemPath)> = paths
            .into_iter()
            .map(|p| {
                let key = p.to_string();
                let r = match s.rank.get(&key) {
                    Some(r) => *r,
                    None => {
                        let r = s.rng.next_u64();
                        s.rank.insert(key, r);
                        r
                    }
                };
                (r, p)
            })
            .collect();
        v.sort_by(|a, b| a.0.cmp(&b.0).then_with(|| a.1.cmp(&b.1)));
        v.into_iter().map(|x| x.1).collect()
    });
    let ordered_mods: Mods = match add_order {
        Some(o) => o.iter().map(|i| mods[*i].clone()).collect(),
        None => mods.clone(),
    };
    // the sink marks new keys for the re-drawing scheduler; it is installed by the
    // driver together with the trace collection, so post-process the trace instead
    let out = drive::build_modules(
        &ordered_mods,
        ptrw,
        Opts {
            trace: true,
            scheduler: Some(sched),
            write_order,
            no_emit: false,
        },
    );
    let mut orders = vec![];
    for e in &out.trace {
        match e {
            Event::IterationStart { worklist, .. } => orders.push(worklist.iter().map(|p| p.to_string()).collect::<Vec<_>>()),
            Event::RegistryAdd { replaced: Replaced::None, .. } => {}
            _ => {}
        }
    }
    let _ = st.borrow().fixed.is_some();
    st.borrow_mut().orders = orders.clone();
    let msg = match &out.result {
        Err(e) => e.msg.clone(),
        Ok(_) => String::new(),
    };
    (outcome_of(&out.result), orders, msg)
}

fn user_items(mods: &Mods) -> Vec<String> {
    let mut v = vec![];
    for (p, m) in mods {
        for d in &m.definitions {
            v.push(format!("{p}::{}", d.name));
        }
    }
    v
}

fn permutations(n: usize, limit: usize, rng: &mut Rng) -> (Vec<Vec<usize>>, bool) {
    // all permutations when n! <= limit, else `limit` random ones
    let mut fact = 1usize;
    for i in 2..=n {
        fact = fact.saturating_mul(i);
    }
    if fact <= limit {
        let mut out = vec![];
        let mut cur: Vec<usize> = (0..n).collect();
        // Heap's algorithm (iterative)
        let mut c = vec![0usize; n];
        out.push(cur.clone());
        let mut i = 0;
        while i < n {
            if c[i] < i {
                if i % 2 == 0 {
                    cur.swap(0, i);
                } else {
                    cur.swap(c[i], i);
                }
                out.push(cur.clone());
                c[i] += 1;
                i = 0;
            } else {
                c[i] = 0;
                i += 1;
            }
        }
        (out, true)
    } else {
        ((0..limit).map(|_| rng.permutation(n)).collect(), false)
    }
}

/// Inputs built to be order-sensitive.
pub fn dedicated_inputs() -> Vec<(&'static str, Mods, usize)> {
    let w = || Type::ident("u8").const_pointer();
    let vt = |name: &str| TypeStatement::vftable([Function::new((Visibility::Public, name), [Argument::ConstSelf])]);
    let mut out: Vec<(&'static str, Mods, usize)> = vec![];
    // derived before/after base, explicit address on the base field
    out.push((
        "base-with-explicit-address",
        vec![(
            ItemPath::from("kd_a"),
            Module::new().with_definitions([
                ItemDefinition::new((Visibility::Public, "B"), TypeDefinition::new([vt("v")])),
                ItemDefinition::new(
                    (Visibility::Public, "D"),
                    TypeDefinition::new([TypeStatement::field((Visibility::Public, "base"), Type::ident("B")).with_attributes([Attribute::base(), Attribute::address(0)])]),
                ),
                ItemDefinition::new(
                    (Visibility::Public, "DD"),
                    TypeDefinition::new([
                        vt("v"),
                        TypeStatement::field((Visibility::Public, "base"), Type::ident("D")).with_attributes([Attribute::base()]),
                        TypeStatement::field((Visibility::Public, "x"), w()),
                    ]),
                ),
            ]),
        )],
        8,
    ));
    // defaultable / copyable chains
    out.push((
        "marker-chain",
        vec![(
            ItemPath::from("kd_b"),
            Module::new().with_definitions([
                ItemDefinition::new((Visibility::Public, "A"), TypeDefinition::new([TypeStatement::field((Visibility::Public, "x"), Type::ident("u64"))]).with_attributes([Attribute::copyable(), Attribute::defaultable()])),
                ItemDefinition::new((Visibility::Public, "B"), TypeDefinition::new([TypeStatement::field((Visibility::Public, "a"), Type::ident("A"))]).with_attributes([Attribute::copyable(), Attribute::defaultable()])),
                ItemDefinition::new((Visibility::Public, "C"), TypeDefinition::new([TypeStatement::field((Visibility::Public, "b"), Type::ident("B").array(2))]).with_attributes([Attribute::copyable(), Attribute::defaultable()])),
                ItemDefinition::new((Visibility::Public, "E"), EnumDefinition::new(Type::ident("u64"), [EnumStatement::field("X").with_attributes([Attribute::default()])], [Attribute::copyable(), Attribute::defaultable()])),
                ItemDefinition::new((Visibility::Public, "F"), TypeDefinition::new([TypeStatement::field((Visibility::Public, "e"), Type::ident("E")), TypeStatement::field((Visibility::Public, "c"), Type::ident("C"))]).with_attributes([Attribute::copyable(), Attribute::defaultable()])),
            ]),
        )],
        8,
    ));
    // marker chain that must fail: the verdict must not depend on who is resolved first
    out.push((
        "marker-chain-invalid",
        vec![(
            ItemPath::from("kd_c"),
            Module::new().with_definitions([
                ItemDefinition::new((Visibility::Public, "A"), TypeDefinition::new([TypeStatement::field((Visibility::Public, "x"), Type::ident("u64"))])),
                ItemDefinition::new((Visibility::Public, "B"), TypeDefinition::new([TypeStatement::field((Visibility::Public, "a"), Type::ident("A"))]).with_attributes([Attribute::copyable()])),
                ItemDefinition::new((Visibility::Public, "C"), TypeDefinition::new([TypeStatement::field((Visibility::Public, "a"), Type::ident("A"))]).with_attributes([Attribute::defaultable()])),
            ]),
        )],
        8,
    ));
    // a signature that mentions another type's generated vftable struct
    out.push((
        "reference-to-generated-vftable",
        vec![(
            ItemPath::from("kd_d"),
            Module::new()
                .with_definitions([
                    ItemDefinition::new((Visibility::Public, "A"), TypeDefinition::new([TypeStatement::field((Visibility::Public, "x"), w())])),
                    ItemDefinition::new((Visibility::Public, "B"), TypeDefinition::new([vt("v")])),
                ])
                .with_impls([FunctionBlock::new(
                    "A",
                    [Function::new((Visibility::Public, "f"), [Argument::ConstSelf, Argument::named("p", Type::ident("BVftable").const_pointer())]).with_attributes([Attribute::address(0x1000_0000)])],
                )]),
        )],
        8,
    ));
    // a field that mentions a generated vftable struct
    out.push((
        "field-of-generated-vftable-pointer",
        vec![(
            ItemPath::from("kd_e"),
            Module::new().with_definitions([
                ItemDefinition::new((Visibility::Public, "A"), TypeDefinition::new([TypeStatement::field((Visibility::Public, "t"), Type::ident("BVftable").const_pointer())])),
                ItemDefinition::new((Visibility::Public, "B"), TypeDefinition::new([vt("v")])),
            ]),
        )],
        8,
    ));
    // a generated vftable struct imported by name, shadowing a user type of the same name
    // reachable through a module import (found by a seeding sub-agent on the unchanged tree)
    out.push((
        "use-of-generated-vftable-by-name",
        vec![
            (ItemPath::from("kd_i"), Module::new().with_definitions([ItemDefinition::new((Visibility::Public, "Foo"), TypeDefinition::new([vt("f")]))])),
            (ItemPath::from("kd_j"), Module::new().with_definitions([ItemDefinition::new((Visibility::Public, "FooVftable"), TypeDefinition::new([TypeStatement::field((Visibility::Public, "x"), Type::ident("u32"))]))])),
            (
                ItemPath::from("kd_k"),
                Module::new()
                    .with_uses([ItemPath::from("kd_i::FooVftable"), ItemPath::from("kd_j")])
                    .with_definitions([ItemDefinition::new((Visibility::Public, "X"), TypeDefinition::new([TypeStatement::field((Visibility::Public, "p"), Type::ident("FooVftable").const_pointer())]))]),
            ),
        ],
        4,
    ));
    // the same through module imports only: kd_l (generated) is searched before kd_j (user type)
    out.push((
        "generated-vftable-in-earlier-module-import",
        vec![
            (ItemPath::from("kd_l"), Module::new().with_definitions([ItemDefinition::new((Visibility::Public, "Foo"), TypeDefinition::new([vt("f")]))])),
            (ItemPath::from("kd_j2"), Module::new().with_definitions([ItemDefinition::new((Visibility::Public, "FooVftable"), TypeDefinition::new([TypeStatement::field((Visibility::Public, "x"), Type::ident("u32"))]))])),
            (
                ItemPath::from("kd_n"),
                Module::new()
                    .with_uses([ItemPath::from("kd_l"), ItemPath::from("kd_j2")])
                    .with_definitions([ItemDefinition::new((Visibility::Public, "X"), TypeDefinition::new([TypeStatement::field((Visibility::Public, "p"), Type::ident("FooVftable").const_pointer())]))]),
            ),
        ],
        8,
    ));
    // the same short name reachable through two scope entries, used by an extern value,
    // a field, a signature: the binding must not depend on which module was added first
    out.push((
        "same-name-in-two-modules",
        vec![
            (ItemPath::from("kd_eng"), Module::new().with_definitions([ItemDefinition::new((Visibility::Public, "Handle"), TypeDefinition::new([TypeStatement::field((Visibility::Public, "a"), Type::ident("u64"))]))])),
            (
                ItemPath::from("kd_game"),
                Module::new()
                    .with_uses([ItemPath::from("kd_eng")])
                    .with_definitions([
                        ItemDefinition::new((Visibility::Public, "Handle"), TypeDefinition::new([TypeStatement::field((Visibility::Public, "b"), Type::ident("u32"))])),
                        ItemDefinition::new((Visibility::Public, "User"), TypeDefinition::new([TypeStatement::field((Visibility::Public, "h"), Type::ident("Handle").const_pointer())])),
                    ])
                    .with_impls([FunctionBlock::new("User", [Function::new((Visibility::Public, "f"), [Argument::ConstSelf, Argument::named("h", Type::ident("Handle").mut_pointer())]).with_attributes([Attribute::address(0x1000_0000)])])])
                    .with_extern_values([ExternValue::new(Visibility::Public, "g_player", Type::ident("Handle").mut_pointer(), [Attribute::address(0x6000_0000)])]),
            ),
            (ItemPath::from("kd_zzz"), Module::new().with_uses([ItemPath::from("kd_game"), ItemPath::from("kd_eng")]).with_extern_values([ExternValue::new(Visibility::Public, "g_other", Type::ident("Handle").const_pointer(), [Attribute::address(0x6000_0040)])])),
        ],
        8,
    ));
    // two functions in one impl block, the first names a generated vftable struct
    out.push((
        "reference-to-generated-vftable-then-more",
        vec![(
            ItemPath::from("kd_q"),
            Module::new()
                .with_definitions([
                    ItemDefinition::new((Visibility::Public, "A"), TypeDefinition::new([TypeStatement::field((Visibility::Public, "x"), w())])),
                    ItemDefinition::new((Visibility::Public, "B"), TypeDefinition::new([vt("v")])),
                ])
                .with_impls([FunctionBlock::new(
                    "A",
                    [
                        Function::new((Visibility::Public, "f"), [Argument::ConstSelf, Argument::named("p", Type::ident("BVftable").const_pointer())]).with_attributes([Attribute::address(0x1000_0000)]),
                        Function::new((Visibility::Public, "g"), [Argument::ConstSelf]).with_attributes([Attribute::address(0x1000_0040)]).with_return_type(Type::ident("BVftable").const_pointer()),
                        Function::new((Visibility::Public, "h"), [Argument::ConstSelf]).with_attributes([Attribute::address(0x1000_0080)]),
                    ],
                )]),
        )],
        8,
    ));
    // only a RETURN type names a generated vftable struct (impl function and virtual function)
    out.push((
        "return-type-of-generated-vftable",
        vec![(
            ItemPath::from("kd_r"),
            Module::new()
                .with_definitions([
                    ItemDefinition::new(
                        (Visibility::Public, "A"),
                        TypeDefinition::new([
                            TypeStatement::vftable([Function::new((Visibility::Public, "table_of"), [Argument::ConstSelf]).with_return_type(Type::ident("ZVftable").const_pointer())]),
                            TypeStatement::field((Visibility::Public, "x"), w()),
                        ]),
                    ),
                    ItemDefinition::new((Visibility::Public, "B"), TypeDefinition::new([vt("v")])),
                    ItemDefinition::new((Visibility::Public, "Z"), TypeDefinition::new([vt("z")])),
                ])
                .with_impls([FunctionBlock::new(
                    "A",
                    [
                        Function::new((Visibility::Public, "g"), [Argument::ConstSelf]).with_attributes([Attribute::address(0x1000_0040)]).with_return_type(Type::ident("BVftable").const_pointer()),
                        Function::new((Visibility::Public, "s"), []).with_attributes([Attribute::address(0x1000_0080)]).with_return_type(Type::ident("ZVftable").mut_pointer()),
                    ],
                )]),
        )],
        8,
    ));
    // names that differ only in case, across items, fields of generated tables and modules
    out.push((
        "names-differing-only-in-case",
        vec![
            (
                ItemPath::from("kd_case"),
                Module::new().with_definitions([
                    ItemDefinition::new((Visibility::Public, "Hwnd"), TypeDefinition::new([TypeStatement::field((Visibility::Public, "a"), Type::ident("u32"))])),
                    ItemDefinition::new((Visibility::Public, "HWND"), TypeDefinition::new([TypeStatement::field((Visibility::Public, "b"), Type::ident("u64"))])),
                    ItemDefinition::new((Visibility::Public, "hwnd"), TypeDefinition::new([TypeStatement::field((Visibility::Public, "c"), Type::ident("u16"))])),
                    ItemDefinition::new((Visibility::Public, "HwnD"), EnumDefinition::new(Type::ident("u8"), [EnumStatement::field("A")], [])),
                    ItemDefinition::new((Visibility::Public, "hWND"), TypeDefinition::new([vt("v"), TypeStatement::field((Visibility::Public, "h"), Type::ident("HWND"))])),
                    ItemDefinition::new((Visibility::Public, "HWnd"), TypeDefinition::new([vt("w")])),
                ]),
            ),
            (ItemPath::from("kd_CASE"), Module::new().with_definitions([ItemDefinition::new((Visibility::Public, "Hwnd"), TypeDefinition::new([TypeStatement::field((Visibility::Public, "a"), Type::ident("u8"))]))])),
        ],
        8,
    ));
    // a type with its own vftable block is deferred AFTER the block was processed (a field and a
    // signature of it name the generated table of a later type)
    out.push((
        "owner-deferred-after-its-table",
        vec![(
            ItemPath::from("kd_s"),
            Module::new()
                .with_definitions([
                    ItemDefinition::new(
                        (Visibility::Public, "A"),
                        TypeDefinition::new([vt("a"), TypeStatement::field((Visibility::Public, "other"), Type::ident("BVftable").const_pointer())]),
                    ),
                    ItemDefinition::new((Visibility::Public, "B"), TypeDefinition::new([vt("b"), TypeStatement::field((Visibility::Public, "other"), Type::ident("CVftable").const_pointer())])),
                    ItemDefinition::new((Visibility::Public, "C"), TypeDefinition::new([vt("c")])),
                ])
                .with_impls([
                    FunctionBlock::new("A", [Function::new((Visibility::Public, "f"), [Argument::ConstSelf, Argument::named("p", Type::ident("CVftable").const_pointer())]).with_attributes([Attribute::address(0x1000_0000)])]),
                    FunctionBlock::new("B", [Function::new((Visibility::Public, "f"), [Argument::ConstSelf]).with_return_type(Type::ident("AVftable").const_pointer()).with_attributes([Attribute::address(0x1000_0040)])]),
                ]),
        )],
        4,
    ));
    // generated vftable structs of blocks WITHOUT functions, and of types that also have a base,
    // imported by name next to lower-precedence candidates of the same name
    for (label, provider) in [
        ("empty-block", ItemDefinition::new((Visibility::Public, "Foo"), TypeDefinition::new([TypeStatement::vftable([])]))),
        ("sized-empty-block", ItemDefinition::new((Visibility::Public, "Foo"), TypeDefinition::new([TypeStatement::vftable([]).with_attributes([Attribute::size(2)])]))),
        (
            "block-and-base",
            ItemDefinition::new(
                (Visibility::Public, "Foo"),
                TypeDefinition::new([vt("v"), TypeStatement::field((Visibility::Public, "base"), Type::ident("FooBase")).with_attributes([Attribute::base()])]),
            ),
        ),
    ] {
        let name: &'static str = match label {
            "empty-block" => "use-of-generated-vftable-by-name/empty-block",
            "sized-empty-block" => "use-of-generated-vftable-by-name/sized-empty-block",
            _ => "use-of-generated-vftable-by-name/block-and-base",
        };
        out.push((
            name,
            vec![
                (
                    ItemPath::from("kd_pi"),
                    Module::new().with_definitions([ItemDefinition::new((Visibility::Public, "FooBase"), TypeDefinition::new([TypeStatement::field((Visibility::Public, "x"), w())])), provider.clone()]),
                ),
                (ItemPath::from("kd_pj"), Module::new().with_definitions([ItemDefinition::new((Visibility::Public, "FooVftable"), TypeDefinition::new([TypeStatement::field((Visibility::Public, "x"), Type::ident("u32"))]))])),
                (
                    ItemPath::from("kd_pk"),
                    Module::new()
                        .with_uses([ItemPath::from("kd_pi::FooVftable"), ItemPath::from("kd_pj")])
                        .with_definitions([
                            ItemDefinition::new((Visibility::Public, "X"), TypeDefinition::new([TypeStatement::field((Visibility::Public, "p"), Type::ident("FooVftable").const_pointer())])),
                        ])
                        .with_impls([FunctionBlock::new("X", [Function::new((Visibility::Public, "g"), [Argument::ConstSelf, Argument::named("t", Type::ident("FooVftable").mut_pointer())]).with_attributes([Attribute::address(0x1000_0000)])])]),
                ),
                // own generated struct against the same name in an imported module
                (
                    ItemPath::from("kd_pl"),
                    Module::new()
                        .with_uses([ItemPath::from("kd_pj")])
                        .with_definitions([
                            ItemDefinition::new((Visibility::Public, "FooBase"), TypeDefinition::new([TypeStatement::field((Visibility::Public, "x"), w())])),
                            provider,
                            ItemDefinition::new((Visibility::Public, "Y"), TypeDefinition::new([TypeStatement::field((Visibility::Public, "p"), Type::ident("FooVftable").const_pointer())])),
                        ]),
                ),
            ],
            4,
        ));
    }
    // repeated imports and an ambiguous name: the binding is decided by the written order of the
    // `use` lines, however often one of them is repeated
    out.push((
        "repeated-imports",
        vec![
            (ItemPath::from("kd_rb"), Module::new().with_definitions([ItemDefinition::new((Visibility::Public, "Item"), TypeDefinition::new([TypeStatement::field((Visibility::Public, "a"), Type::ident("u64"))]))])),
            (ItemPath::from("kd_rc"), Module::new().with_definitions([ItemDefinition::new((Visibility::Public, "Item"), TypeDefinition::new([TypeStatement::field((Visibility::Public, "b"), Type::ident("u32"))]))])),
            (ItemPath::from("kd_rn"), Module::new().with_definitions([ItemDefinition::new((Visibility::Public, "Item"), TypeDefinition::new([TypeStatement::field((Visibility::Public, "c"), Type::ident("u16"))]))])),
            (
                ItemPath::from("kd_ru"),
                Module::new()
                    .with_uses([ItemPath::from("kd_rb::Item"), ItemPath::from("kd_rc::Item"), ItemPath::from("kd_rb::Item")])
                    .with_definitions([ItemDefinition::new((Visibility::Public, "U"), TypeDefinition::new([TypeStatement::field((Visibility::Public, "i"), Type::ident("Item").const_pointer())]))])
                    .with_extern_values([ExternValue::new(Visibility::Public, "g_item", Type::ident("Item").mut_pointer(), [Attribute::address(0x6000_0000)])]),
            ),
            (
                ItemPath::from("kd_rv"),
                Module::new()
                    .with_uses([ItemPath::from("kd_rn"), ItemPath::from("kd_rb"), ItemPath::from("kd_rn"), ItemPath::from("kd_rb")])
                    .with_definitions([ItemDefinition::new((Visibility::Public, "V"), TypeDefinition::new([TypeStatement::field((Visibility::Public, "i"), Type::ident("Item").const_pointer())]))]),
            ),
        ],
        8,
    ));
    // items named like predefined types: how a predefined type is spelt depends on the module
    // it is written in, whatever was written before it
    for (k, (_, mods, ptrw)) in crate::gen_special::shadow_programs(9000).into_iter().enumerate() {
        let name: &'static str = ["shadowed-predefined-names/0", "shadowed-predefined-names/1", "shadowed-predefined-names/2", "shadowed-predefined-names/3", "shadowed-predefined-names/4", "shadowed-predefined-names/5"][k % 6];
        out.push((name, mods, ptrw));
    }
    // a diamond: the AsRef conflict notes are numbered per file, whatever was built before
    out.push((
        "diamond-with-conflict-notes",
        vec![(
            ItemPath::from("kd_dia"),
            pyxis::parser::parse_str("pub type A { pub x: u64, }\npub type B { #[base] pub a: A, }\npub type C { #[base] pub a: A, }\npub type D { #[base] pub b: B, #[base] pub c: C, }\npub type Da { #[base] pub b: B, #[base] pub c: C, }").expect("parses"),
        )],
        8,
    ));
    // a user type that is WORD FOR WORD what pyxis generates for an empty vftable block
    out.push((
        "user-type-identical-to-generated-vftable",
        vec![(
            ItemPath::from("kd_same"),
            pyxis::parser::parse_str("type Foo { vftable {} }\ntype FooVftable;\ntype Other { p: *const FooVftable }").expect("parses"),
        )],
        8,
    ));
    // user type named like a generated vftable struct, duplicates: consistently rejected
    out.push((
        "user-type-named-like-vftable",
        vec![(
            ItemPath::from("kd_f"),
            Module::new().with_definitions([
                ItemDefinition::new((Visibility::Public, "T"), TypeDefinition::new([vt("v")])),
                ItemDefinition::new((Visibility::Public, "TVftable"), TypeDefinition::new([TypeStatement::field((Visibility::Public, "x"), w())])),
                ItemDefinition::new((Visibility::Public, "U"), TypeDefinition::new([TypeStatement::field((Visibility::Public, "t"), Type::ident("TVftable").const_pointer())])),
            ]),
        )],
        8,
    ));
    // vfunc signature mentioning a later type by pointer; extern values; enums as fields
    out.push((
        "cross-references",
        vec![
            (
                ItemPath::from("kd_g"),
                Module::new()
                    .with_uses([ItemPath::from("kd_h")])
                    .with_definitions([
                        ItemDefinition::new(
                            (Visibility::Public, "P"),
                            TypeDefinition::new([
                                TypeStatement::vftable([Function::new((Visibility::Public, "v"), [Argument::ConstSelf, Argument::named("q", Type::ident("Q").const_pointer())]).with_return_type(Type::ident("R").mut_pointer())]),
                                TypeStatement::field((Visibility::Public, "k"), Type::ident("K")),
                                TypeStatement::field((Visibility::Private, "_"), Type::Unknown(4)),
                            ])
                            .with_attributes([Attribute::align(8)]),
                        ),
                        ItemDefinition::new((Visibility::Public, "K"), EnumDefinition::new(Type::ident("u32"), [EnumStatement::field("A"), EnumStatement::field("B")], [])),
                    ])
                    .with_extern_values([ExternValue::new(Visibility::Public, "z", Type::ident("Q").const_pointer(), [Attribute::address(0x6000_0000)]), ExternValue::new(Visibility::Public, "a", Type::ident("P"), [Attribute::address(0x6000_0100)])]),
            ),
            (
                ItemPath::from("kd_h"),
                Module::new().with_uses([ItemPath::from("kd_g")]).with_definitions([
                    ItemDefinition::new((Visibility::Public, "Q"), TypeDefinition::new([TypeStatement::field((Visibility::Public, "p"), Type::ident("P")), TypeStatement::field((Visibility::Public, "r"), Type::ident("R").array(2))]).with_attributes([Attribute::align(8)])),
                    ItemDefinition::new((Visibility::Public, "R"), TypeDefinition::new([TypeStatement::field((Visibility::Public, "p"), Type::ident("P").const_pointer()), TypeStatement::field((Visibility::Public, "x"), Type::ident("u64"))]).with_attributes([Attribute::align(8)])),
                ]),
            ),
        ],
        8,
    ));
    // references to generated vftable structs by value and by pointer, owners and embedders
    // waiting for each other: rounds in which only a generated struct appears
    for (i, (name, text)) in crate::resolve_props::generated_table_programs().into_iter().enumerate() {
        let m = pyxis::parser::parse_str(text).unwrap_or_else(|e| panic!("C09 program {name} does not parse: {e:?}"));
        out.push((name, vec![(ItemPath::from("kd_gt"), m)], if i % 2 == 0 { 8 } else { 4 }));
    }
    out
}

pub struct SetResult {
    pub evals: u64,
    pub orders: BTreeSet<u64>,
    pub n_types: usize,
    pub bad: Vec<(String, String)>,
    pub exhaustive_perms: bool,
    pub runs: BTreeMap<&'static str, u64>,
}

/// All schedule sources for one input set.
pub fn explore(mods: &Mods, ptrw: usize, seed: u64, perm_limit: usize, repeats: usize, children: usize) -> SetResult {
    let mut rng = Rng::new(seed);
    let items = user_items(mods);
    let mut res = SetResult {
        evals: 0,
        orders: BTreeSet::new(),
        n_types: items.len(),
        bad: vec![],
        exhaustive_perms: false,
        runs: BTreeMap::new(),
    };
    let (reference, orders0, msg0) = scheduled_build(mods, ptrw, Some(items.clone()), seed, false, None, None);
    res.evals += 1;
    for o in orders0 {
        res.orders.insert(fnv(format!("{o:?}").as_bytes()));
    }
    let mut compare = |res: &mut SetResult, source: &'static str, detail: String, got: &Outcome, msg: &str| {
        *res.runs.entry(source).or_insert(0) += 1;
        res.evals += 1;
        if got != &reference {
            let kind = match (&reference, got) {
                (_, Outcome::Panic(_)) | (Outcome::Panic(_), _) => "panic",
                (Outcome::Ok(_), Outcome::Ok(_)) => "bytes-differ",
                _ => "verdict-differs",
            };
            res.bad.push((
                format!("C09/{kind}/{source}"),
                format!("reference run (declaration order): {} {}; {source} [{detail}]: {} {}", describe(&reference), crate::verdict::one_line(&msg0, 160), describe(got), crate::verdict::one_line(msg, 160)),
            ));
        }
    };
    // 1. priority permutations of the user items
    let (perms, complete) = permutations(items.len(), perm_limit, &mut rng);
    res.exhaustive_perms = complete;
    for p in &perms {
        let prio: Vec<String> = p.iter().map(|i| items[*i].clone()).collect();
        let (o, orders, msg) = scheduled_build(mods, ptrw, Some(prio.clone()), seed, false, None, None);
        for w in orders {
            res.orders.insert(fnv(format!("{w:?}").as_bytes()));
        }
        compare(&mut res, "worklist-permutation", format!("priority {prio:?}"), &o, &msg);
        if res.bad.len() > 3 {
            break;
        }
    }
    // 1b. priorities re-drawn whenever a new key was registered
    for k in 0..(perm_limit / 8).max(8) {
        let s = seed ^ (k as u64 + 1).wrapping_mul(0x9E37);
        let (o, orders, msg) = scheduled_build(mods, ptrw, None, s, true, None, None);
        for w in orders {
            res.orders.insert(fnv(format!("{w:?}").as_bytes()));
        }
        compare(&mut res, "redrawn-priorities", format!("scheduler seed {s}"), &o, &msg);
    }
    // 2. module addition and write order
    if mods.len() >= 2 {
        let (mp, _) = permutations(mods.len(), 24, &mut rng);
        for p in mp {
            let (o, _, msg) = scheduled_build(mods, ptrw, Some(items.clone()), seed, false, Some(&p), None);
            compare(&mut res, "module-add-order", format!("{p:?}"), &o, &msg);
            let (o, _, msg) = scheduled_build(mods, ptrw, Some(items.clone()), seed, false, None, Some(p.clone()));
            compare(&mut res, "module-write-order", format!("{p:?}"), &o, &msg);
        }
    }
    // 3. natural RandomState variation, repeated in this process
    for _ in 0..repeats {
        let out = drive::build_modules(mods, ptrw, Opts { trace: true, ..Default::default() });
        for e in &out.trace {
            if let Event::IterationStart { worklist, .. } = e {
                res.orders.insert(fnv(format!("{:?}", worklist.iter().map(|p| p.to_string()).collect::<Vec<_>>()).as_bytes()));
            }
        }
        let msg = out.result.as_ref().err().map(|e| e.msg.clone()).unwrap_or_default();
        compare(&mut res, "repeated-in-process", "hash order".into(), &outcome_of(&out.result), &msg);
    }
    // 3b. the same build right after a build of the same items that fails while it is being
    // WRITTEN (an enum value that does not fit its base type is only found by the backend):
    // nothing of the failed build may be left behind on the thread
    if let Outcome::Ok(_) = &reference {
        let mut poisoned = mods.clone();
        if let Some((_, last)) = poisoned.last_mut() {
            last.definitions.push(ItemDefinition::new(
                (Visibility::Public, "ZzzDoesNotFit"),
                EnumDefinition::new(Type::ident("u8"), [EnumStatement::field_with_expr("V", Expr::IntLiteral(300))], []),
            ));
        }
        for _ in 0..3 {
            let failed = drive::build_modules(&poisoned, ptrw, Opts::default());
            *res.runs.entry("poison-builds").or_insert(0) += 1;
            if failed.result.is_ok() {
                break;
            }
            let out = drive::build_modules(mods, ptrw, Opts::default());
            let msg = out.result.as_ref().err().map(|e| e.msg.clone()).unwrap_or_default();
            compare(&mut res, "after-a-failed-build", "same thread".into(), &outcome_of(&out.result), &msg);
        }
    }
    // 4. fresh processes on a real directory
    if children > 0 {
        let files: Vec<(String, String)> = mods.iter().map(|(p, m)| (format!("{}.pyxis", p.to_string().replace("::", "/")), crate::render::render_plain(m))).collect();
        let scratch = crate::drive::Scratch::new("c09");
        let in_dir = scratch.path.join("in");
        std::fs::create_dir_all(&in_dir).unwrap();
        drive::write_tree(&in_dir, &files);
        let exe = std::env::current_exe().unwrap();
        for k in 0..children {
            let out_dir = scratch.path.join(format!("out{k}"));
            std::fs::create_dir_all(&out_dir).unwrap();
            let mut cmd = std::process::Command::new(&exe);
            cmd.arg("child-build").arg(&in_dir).arg(&out_dir).arg(ptrw.to_string());
            let r = crate::probe::run_tool(&mut cmd, std::time::Duration::from_secs(60));
            let got = if r.stdout.contains("RESULT ok") {
                Outcome::Ok(drive::read_tree(&out_dir))
            } else if r.stdout.contains("RESULT err") {
                Outcome::Err
            } else {
                Outcome::Panic(format!("child died: code {:?} signal {:?} {}", r.code, r.signal, crate::verdict::one_line(&r.stderr, 200)))
            };
            compare(&mut res, "fresh-process", format!("child {k}"), &got, &r.stdout);
        }
    }
    res
}

pub fn run(ctx: &mut Ctx) {
    ctx.rule = "input sets built to be order-sensitive (multi-module programs from the rich generator with by-value chains, base/derived pairs, marker chains, enums as fields; dependency graphs of the C10 generator incl. unresolvable ones; dedicated sets: explicit address on a vftable-carrying base, references to generated <T>Vftable structs from fields and signatures, user type named like a generated struct, mutual cross-module references, extern values). For each set: every priority permutation of the user items through the work-list hook (complete up to 6 items, sampled beyond), priorities re-drawn whenever a new key is registered, every module addition order and write order (<=4 modules), repeated in-process builds (fresh hash keys) and fresh child processes running pyxis::build on a real directory; all runs of a set must agree on Ok/Err and on every output byte. non-trivial = set with >=3 user items and >=2 distinct observed work-list orders; distinct by structural hash".into();
    let seed = ctx.seed;
    let perm_limit = ctx.tier.pick(720usize, 5040);
    // (thorough sizes chosen so that the check takes about a quarter of an hour on 16 idle cores)
    let repeats = ctx.tier.pick(20usize, 120);
    let children = ctx.tier.pick(3usize, 8);
    let n_random = ctx.tier.pick(50usize, 300);
    let n_graphs = ctx.tier.pick(50usize, 300);

    let mut inputs: Vec<(String, Mods, usize)> = vec![];
    for (name, mods, ptrw) in dedicated_inputs() {
        inputs.push((format!("dedicated/{name}"), mods, ptrw));
    }
    for i in 0..n_random {
        let mut rng = Rng::derive(seed, 0x0900_0000 + i as u64);
        let ptrw = if i % 2 == 0 { 8 } else { 4 };
        let mut cfg = Cfg::rich(ptrw, &format!("k{i}_"));
        cfg.max_types = if i % 3 == 0 { 2 } else { 4 };
        cfg.max_modules = 3;
        cfg.extern_types = i % 2 == 0;
        let g = gen_prog::generate(&mut rng, &cfg);
        inputs.push((format!("random/{i}"), g.mods, ptrw));
    }
    for i in 0..n_graphs {
        let mut rng = Rng::derive(seed, 0x0910_0000 + i as u64);
        let mut g = crate::resolve_props::random_graph(&mut rng, &format!("kg{i}_"));
        if i % 2 == 0 && g.ntypes > 6 {
            // keep the exhaustive range populated
            g.ntypes = 6;
            g.module_of.truncate(6);
            g.edges.truncate(6);
            for es in g.edges.iter_mut() {
                es.retain(|e| match e {
                    crate::resolve_props::Edge::ByValue(x) | crate::resolve_props::Edge::Array(x, _) | crate::resolve_props::Edge::Base(x) | crate::resolve_props::Edge::Ptr(x, _) | crate::resolve_props::Edge::PtrArray(x, _) => *x < 6,
                    _ => true,
                });
            }
            g.fn_undef.retain(|(t, _)| *t < 6);
            g.fn_ok.retain(|(t, _, x)| *t < 6 && *x < 6);
            g.externs.retain(|(_, t)| t.map(|x| x < 6).unwrap_or(true));
            g.enums.clear();
            for es in g.edges.iter_mut() {
                es.retain(|e| !matches!(e, crate::resolve_props::Edge::Enum(_)));
            }
        }
        let ptrw = if i % 2 == 0 { 8 } else { 4 };
        inputs.push((format!("graph/{i}"), crate::resolve_props::graph_to_mods(&g, ptrw), ptrw));
    }

    let results: Vec<SetResult> = inputs
        .par_iter()
        .enumerate()
        .map(|(i, (name, mods, ptrw))| {
            let kids = if name.starts_with("dedicated") || i % 8 == 0 { children } else { 0 };
            explore(mods, *ptrw, seed ^ (i as u64) << 8, perm_limit, repeats, kids)
        })
        .collect();
    let mut total_orders: BTreeSet<u64> = BTreeSet::new();
    let mut exhaustive_sets = 0u64;
    for ((name, mods, ptrw), r) in inputs.iter().zip(results) {
        ctx.evals(r.evals);
        ctx.count("input_sets", 1);
        for (k, v) in &r.runs {
            ctx.count(&format!("runs/{k}"), *v);
        }
        if r.exhaustive_perms {
            exhaustive_sets += 1;
        }
        let distinct_orders = r.orders.len();
        for o in &r.orders {
            total_orders.insert(*o ^ fnv(name.as_bytes()));
        }
        if r.n_types >= 3 && distinct_orders >= 2 {
            ctx.nontrivial(structural_hash(mods, "k"));
        }
        if ctx.counter("sampled") < 2 && r.bad.is_empty() && r.n_types >= 3 {
            ctx.count("sampled", 1);
            ctx.sample(json!({"set": name, "user_items": r.n_types, "distinct_worklist_orders_observed": distinct_orders, "all_permutations": r.exhaustive_perms, "case": case_json(mods, *ptrw)}));
        }
        let mut seen = BTreeSet::new();
        for (sig, detail) in r.bad {
            let sig = match name.strip_prefix("dedicated/") {
                Some(d) if d.contains("generated-vftable") => format!("{sig}/{d}"),
                _ => sig,
            };
            if seen.insert(sig.clone()) {
                ctx.violation(&sig, &detail, json!({"set": name, "ptrw": ptrw, "modules": case_json(mods, *ptrw)["modules"]}));
            }
        }
    }
    ctx.count("sets_with_all_permutations", exhaustive_sets);
    ctx.count("distinct_worklist_orders_observed", total_orders.len() as u64);
    ctx.exhaustive = Some(true);
    ctx.extra.insert("exhaustive_scope".into(), json!(format!("work-list priority permutations are complete for the {exhaustive_sets} input sets with <= {} user items; everything else is sampled", if perm_limit >= 5040 { 7 } else { 6 })));
    if ctx.distinct_count() < ctx.tier.pick(40, 400) {
        ctx.inconclusive(format!("only {} input sets with >=3 items and >=2 observed orders", ctx.distinct_count()));
    }
    if total_orders.len() < 200 {
        ctx.inconclusive(format!("only {} distinct work-list orders observed", total_orders.len()));
    }
}

pub fn replay(ctx: &mut Ctx, case: &Value) {
    let Ok((mods, ptrw)) = mods_from_case(case) else {
        ctx.inconclusive("replay case does not parse");
        return;
    };
    let r = explore(&mods, ptrw, ctx.seed, 720, 30, 2);
    ctx.evals(r.evals);
    for (sig, detail) in r.bad {
        ctx.violation(&sig, &detail, case.clone());
    }
}

/// `pvh child-build <in> <out> <ptrw>`: one pyxis::build in a fresh process.
pub fn child_build(args: &[String]) -> i32 {
    let in_dir = std::path::Path::new(&args[0]);
    let out_dir = std::path::Path::new(&args[1]);
    let ptrw: usize = args[2].parse().unwrap_or(8);
    match drive::guarded(|| pyxis::build(in_dir, out_dir, ptrw)) {
        Ok(Ok(())) => println!("RESULT ok"),
        Ok(Err(e)) => println!("RESULT err {}", crate::verdict::one_line(&drive::chain_msg(&e), 300)),
        Err(p) => println!("RESULT panic {p}"),
    }
    0
}
