//! C12 — every input yields a result: builds never panic or hang.
//!
//! Inputs run in worker child processes (this binary, `c12-worker`) so that an
//! abort, a stack overflow or runaway allocation kills only the worker: it
//! prints `START k` before and `DONE k {..}` after each input, the parent
//! resumes at k+1. Inside the worker every API call is under catch_unwind, a
//! counting global allocator measures the bytes the call allocated, a hard cap
//! aborts runaway growth, and the hook trace bounds the resolution iterations.

use crate::drive::{self, Stage};
use crate::gen_prog::{self, Cfg};
use crate::render;
use crate::rng::{fnv, Rng};
use crate::verdict::Ctx;
use pyxis::grammar::*;
use serde_json::{json, Value};
use std::alloc::{GlobalAlloc, Layout, System};
use std::cell::Cell;
use std::collections::BTreeMap;
use std::io::{BufRead, Write};

// ---------------------------------------------------------------------------
// counting allocator (whole harness; cheap)

pub struct Counting;

thread_local! {
    static ALLOCATED: Cell<u64> = const { Cell::new(0) };
    static IN_FLIGHT: Cell<i64> = const { Cell::new(0) };
    static CAP: Cell<i64> = const { Cell::new(i64::MAX) };
}

unsafe impl GlobalAlloc for Counting {
    unsafe fn alloc(&self, layout: Layout) -> *mut u8 {
        let sz = layout.size() as u64;
        let over = ALLOCATED
            .try_with(|a| {
                a.set(a.get().wrapping_add(sz));
                IN_FLIGHT.with(|f| {
                    f.set(f.get() + sz as i64);
                    CAP.with(|c| f.get() > c.get())
                })
            })
            .unwrap_or(false);
        if over {
            // runaway growth: say so and die; the parent attributes it to the open input
            let _ = std::io::stderr().write_all(b"ALLOC-CAP-EXCEEDED\n");
            std::process::abort();
        }
        System.alloc(layout)
    }
    unsafe fn dealloc(&self, ptr: *mut u8, layout: Layout) {
        let _ = IN_FLIGHT.try_with(|f| f.set(f.get() - layout.size() as i64));
        System.dealloc(ptr, layout)
    }
    unsafe fn realloc(&self, ptr: *mut u8, layout: Layout, new_size: usize) -> *mut u8 {
        let grow = new_size as i64 - layout.size() as i64;
        let over = ALLOCATED
            .try_with(|a| {
                if grow > 0 {
                    a.set(a.get().wrapping_add(grow as u64));
                }
                IN_FLIGHT.with(|f| {
                    f.set(f.get() + grow);
                    CAP.with(|c| f.get() > c.get())
                })
            })
            .unwrap_or(false);
        if over {
            let _ = std::io::stderr().write_all(b"ALLOC-CAP-EXCEEDED\n");
            std::process::abort();
        }
        System.realloc(ptr, layout, new_size)
    }
}

fn measure<T>(cap_bytes: i64, f: impl FnOnce() -> T) -> (T, u64) {
    let before = ALLOCATED.with(|a| a.get());
    let base = IN_FLIGHT.with(|f| f.get());
    CAP.with(|c| c.set(base + cap_bytes));
    let r = f();
    CAP.with(|c| c.set(i64::MAX));
    let after = ALLOCATED.with(|a| a.get());
    (r, after.wrapping_sub(before))
}

// ---------------------------------------------------------------------------
// inputs

pub fn budget(input_bytes: usize) -> u64 {
    64 * 1024 * 1024 + 64 * 1024 * input_bytes as u64
}
const HARD_CAP: i64 = 1 << 30;

#[derive(Clone, Debug)]
pub enum Input {
    /// parse only
    Parse { text: String },
    /// real directory tree through pyxis::build; `stray` = (file, line, col) of an inserted `%`
    Dir { ptrw: usize, files: Vec<(String, Vec<u8>)>, stray: Option<(String, usize, usize)> },
    /// API sequence
    Api { ptrw: usize, ops: Vec<ApiOp> },
}

#[derive(Clone, Debug)]
pub enum ApiOp {
    AddModule { path: String, text: String },
    /// add_file(base, path) — both relative to the scratch dir unless absolute
    AddFile { base: String, path: String, content: String },
    BuildAndWrite { out: String, out_is_file: bool },
}

fn enc(i: &Input) -> Value {
    match i {
        Input::Parse { text } => json!({"k": "parse", "text": text}),
        Input::Dir { ptrw, files, stray } => json!({
            "k": "dir", "ptrw": ptrw,
            "files": files.iter().map(|(p, b)| json!([p, b])).collect::<Vec<_>>(),
            "stray": stray.as_ref().map(|(f, l, c)| json!([f, l, c])),
        }),
        Input::Api { ptrw, ops } => json!({
            "k": "api", "ptrw": ptrw,
            "ops": ops.iter().map(|o| match o {
                ApiOp::AddModule { path, text } => json!({"op": "add_module", "path": path, "text": text}),
                ApiOp::AddFile { base, path, content } => json!({"op": "add_file", "base": base, "path": path, "content": content}),
                ApiOp::BuildAndWrite { out, out_is_file } => json!({"op": "build", "out": out, "out_is_file": out_is_file}),
            }).collect::<Vec<_>>(),
        }),
    }
}

fn dec(v: &Value) -> Option<Input> {
    match v["k"].as_str()? {
        "parse" => Some(Input::Parse { text: v["text"].as_str()?.to_string() }),
        "dir" => Some(Input::Dir {
            ptrw: v["ptrw"].as_u64()? as usize,
            files: v["files"]
                .as_array()?
                .iter()
                .filter_map(|p| Some((p[0].as_str()?.to_string(), p[1].as_array()?.iter().map(|b| b.as_u64().unwrap_or(0) as u8).collect())))
                .collect(),
            stray: v["stray"].as_array().and_then(|a| Some((a[0].as_str()?.to_string(), a[1].as_u64()? as usize, a[2].as_u64()? as usize))),
        }),
        "api" => Some(Input::Api {
            ptrw: v["ptrw"].as_u64()? as usize,
            ops: v["ops"]
                .as_array()?
                .iter()
                .filter_map(|o| {
                    Some(match o["op"].as_str()? {
                        "add_module" => ApiOp::AddModule { path: o["path"].as_str()?.to_string(), text: o["text"].as_str()?.to_string() },
                        "add_file" => ApiOp::AddFile { base: o["base"].as_str()?.to_string(), path: o["path"].as_str()?.to_string(), content: o["content"].as_str()?.to_string() },
                        _ => ApiOp::BuildAndWrite { out: o["out"].as_str()?.to_string(), out_is_file: o["out_is_file"].as_bool()? },
                    })
                })
                .collect(),
        }),
        _ => None,
    }
}

fn input_bytes(i: &Input) -> usize {
    match i {
        Input::Parse { text } => text.len(),
        Input::Dir { files, .. } => files.iter().map(|f| f.1.len() + f.0.len()).sum(),
        Input::Api { ops, .. } => ops
            .iter()
            .map(|o| match o {
                ApiOp::AddModule { path, text } => path.len() + text.len(),
                ApiOp::AddFile { path, content, .. } => path.len() + content.len(),
                _ => 8,
            })
            .sum(),
    }
}

// ---------------------------------------------------------------------------
// worker

fn iteration_bound_sink(_limit_slack: usize) {
    // panics (caught by the guard) when the resolution loop runs more iterations than
    // unresolved items + generated vftable structs + 1
    let mut bound = drive::IterationBound::default();
    pyxis::verif::set_sink(Some(Box::new(move |e| bound.observe(&e))));
}

fn run_one(input: &Input) -> Value {
    let bytes = input_bytes(input);
    let (res, allocated) = measure(HARD_CAP, || -> Value {
        match input {
            Input::Parse { text } => match drive::guarded(|| pyxis::parser::parse_str(text)) {
                Err(p) => json!({"outcome": "panic", "msg": p}),
                Ok(Ok(_)) => json!({"outcome": "ok"}),
                Ok(Err(e)) => {
                    let lc = e.span().start();
                    json!({"outcome": "err", "line": lc.line, "col": lc.column + 1, "msg": e.to_string()})
                }
            },
            Input::Dir { ptrw, files, stray: _ } => {
                let scratch = drive::Scratch::new("c12");
                let in_dir = scratch.path.join("in");
                let out_dir = scratch.path.join("out");
                std::fs::create_dir_all(&in_dir).unwrap();
                std::fs::create_dir_all(&out_dir).unwrap();
                for (rel, bytes) in files {
                    let p = in_dir.join(rel);
                    if let Some(parent) = p.parent() {
                        let _ = std::fs::create_dir_all(parent);
                    }
                    if rel.ends_with('/') {
                        let _ = std::fs::create_dir_all(&p);
                    } else {
                        let _ = std::fs::write(&p, bytes);
                    }
                }
                iteration_bound_sink(0);
                let r = drive::guarded(|| pyxis::build(&in_dir, &out_dir, *ptrw));
                pyxis::verif::set_sink(None);
                // own parse of each file for the position clause
                let mut first_bad: Option<(String, usize, usize)> = None;
                let mut names: Vec<&(String, Vec<u8>)> = files.iter().filter(|f| f.0.ends_with(".pyxis")).collect();
                names.sort_by(|a, b| a.0.cmp(&b.0));
                let mut any_non_utf8 = false;
                for (rel, bytes) in names {
                    match std::str::from_utf8(bytes) {
                        Err(_) => any_non_utf8 = true,
                        Ok(t) => {
                            if let Ok(Err(e)) = drive::guarded(|| pyxis::parser::parse_str(t)) {
                                let lc = e.span().start();
                                if first_bad.is_none() {
                                    first_bad = Some((rel.clone(), lc.line, lc.column + 1));
                                }
                            }
                        }
                    }
                }
                let in_prefix = in_dir.display().to_string();
                // what the build wrote: the materialised "structures and tables it asks for"
                fn dir_bytes(d: &std::path::Path) -> u64 {
                    let mut n = 0;
                    if let Ok(rd) = std::fs::read_dir(d) {
                        for e in rd.flatten() {
                            let p = e.path();
                            if p.is_dir() {
                                n += dir_bytes(&p);
                            } else {
                                n += e.metadata().map(|m| m.len()).unwrap_or(0);
                            }
                        }
                    }
                    n
                }
                let written = dir_bytes(&out_dir);
                match r {
                    Err(p) => json!({"outcome": "panic", "msg": p}),
                    Ok(Ok(())) => json!({"outcome": "ok", "unparsable_file": first_bad.map(|b| b.0), "non_utf8": any_non_utf8, "output_bytes": written}),
                    Ok(Err(e)) => json!({"outcome": "err", "msg": drive::chain_msg(&e).replace(&in_prefix, "<in>"), "own_parse": first_bad.map(|(f, l, c)| json!([f, l, c])), "non_utf8": any_non_utf8}),
                }
            }
            Input::Api { ptrw, ops } => {
                let scratch = drive::Scratch::new("c12a");
                iteration_bound_sink(0);
                let r = drive::guarded(|| -> Result<&'static str, String> {
                    let mut st = Some(pyxis::semantic::SemanticState::new(*ptrw));
                    let mut paths: Vec<ItemPath> = vec![];
                    for op in ops {
                        match op {
                            ApiOp::AddModule { path, text } => {
                                let m = pyxis::parser::parse_str(text).map_err(|e| format!("parse: {e}"))?;
                                let ip = if path.is_empty() { ItemPath::empty() } else { ItemPath::from(path.as_str()) };
                                paths.push(ip.clone());
                                st.as_mut().ok_or("state consumed")?.add_module(&m, &ip).map_err(|e| drive::chain_msg(&e))?;
                            }
                            ApiOp::AddFile { base, path, content } => {
                                let resolve = |s: &str| if s.starts_with('/') { std::path::PathBuf::from(s) } else { scratch.path.join(s) };
                                let b = resolve(base);
                                let p = resolve(path);
                                if let Some(parent) = p.parent() {
                                    let _ = std::fs::create_dir_all(parent);
                                }
                                let _ = std::fs::create_dir_all(&b);
                                let _ = std::fs::write(&p, content);
                                st.as_mut().ok_or("state consumed")?.add_file(&b, &p).map_err(|e| drive::chain_msg(&e))?;
                            }
                            ApiOp::BuildAndWrite { out, out_is_file } => {
                                let resolved = st.take().ok_or("state consumed")?.build().map_err(|e| drive::chain_msg(&e))?;
                                let o = scratch.path.join(out);
                                if *out_is_file {
                                    let _ = std::fs::write(&o, b"not a directory");
                                } else {
                                    let _ = std::fs::create_dir_all(&o);
                                }
                                for (key, module) in resolved.modules() {
                                    pyxis::backends::rust::write_module(&o, key, &resolved, module).map_err(|e| drive::chain_msg(&e))?;
                                }
                            }
                        }
                    }
                    Ok("ok")
                });
                pyxis::verif::set_sink(None);
                match r {
                    Err(p) => json!({"outcome": "panic", "msg": p}),
                    Ok(Ok(_)) => json!({"outcome": "ok"}),
                    Ok(Err(e)) => json!({"outcome": "err", "msg": e}),
                }
            }
        }
    });
    let mut res = res;
    res["allocated"] = json!(allocated);
    // token streams and pretty-printing cost a few hundred bytes of (cumulative) allocation per
    // byte of output: the budget grows with what was written, the hard cap on live memory does not
    crate::drive::release_spans();
    let output = res["output_bytes"].as_u64().unwrap_or(0);
    res["budget"] = json!(budget(bytes) + 1024 * output);
    res
}

/// `pvh c12-worker <shard> <start>`
/// CPU seconds one input may consume in the worker before it is given up as not terminating
/// in time proportional to its size (typical inputs need milliseconds).
pub const CPU_LIMIT_SECS: f64 = 30.0;

fn process_cpu_secs() -> f64 {
    let mut ts = libc::timespec { tv_sec: 0, tv_nsec: 0 };
    // SAFETY: plain syscall writing into a local
    unsafe { libc::clock_gettime(libc::CLOCK_PROCESS_CPUTIME_ID, &mut ts) };
    ts.tv_sec as f64 + ts.tv_nsec as f64 / 1e9
}

pub fn worker(args: &[String]) -> i32 {
    let Ok(f) = std::fs::File::open(&args[0]) else { return 3 };
    let start: usize = args.get(1).and_then(|s| s.parse().ok()).unwrap_or(0);
    let so = std::io::stdout();
    for (k, line) in std::io::BufReader::new(f).lines().enumerate() {
        if k < start {
            continue;
        }
        let Ok(line) = line else { break };
        let Some(input) = serde_json::from_str::<Value>(&line).ok().and_then(|v| dec(&v)) else { continue };
        {
            let mut l = so.lock();
            let _ = writeln!(l, "START {k}");
            let _ = l.flush();
        }
        // the real tool runs on a main thread with the default 8 MiB stack
        let inp = input.clone();
        let h = std::thread::Builder::new().stack_size(8 << 20).spawn(move || run_one(&inp)).unwrap();
        // CPU time, not wall-clock time: it does not depend on how busy the machine is. Inputs
        // of a few kilobytes take milliseconds; one that burns CPU_LIMIT_SECS is not coming back.
        let cpu0 = process_cpu_secs();
        while !h.is_finished() {
            std::thread::sleep(std::time::Duration::from_millis(20));
            let used = process_cpu_secs() - cpu0;
            if used > CPU_LIMIT_SECS {
                let mut l = so.lock();
                let _ = writeln!(l, "STUCK {k} {used:.1}");
                let _ = l.flush();
                std::process::exit(97);
            }
        }
        let v = h.join().unwrap_or_else(|_| json!({"outcome": "panic", "msg": "worker thread panicked outside the guard"}));
        let mut l = so.lock();
        let _ = writeln!(l, "DONE {k} {}", v);
        let _ = l.flush();
    }
    println!("END");
    0
}

// ---------------------------------------------------------------------------
// generators

const SOUP: &[&str] = &[
    "type", "enum", "impl", "use", "extern", "backend", "prologue", "epilogue", "vftable", "fn", "pub", "unknown", "const", "mut", "self", "super", "meta", "functions", "{", "}", "(", ")", "[", "]", "<", ">", ",", ";", ":", "::", "->", "=", "#", "!", "*", "&", "-", "_", "%", "@", "'a", "\"str\"", "r#\"raw\"#", "0", "1", "0x10", "4294967296", "18446744073709551615", "99999999999999999999999", "1u8", "1.5", "T", "u32", "void", "r#type", "a_b", "ünï", "/// doc\n", "//! mod doc\n", "/* c */", "// c\n", "#[size(4)]", "#[address(0x10)]", "#[base]", "#[index(1)]", "'",
];

fn token_soup(rng: &mut Rng) -> String {
    let n = rng.range(1, 120);
    let mut s = String::new();
    for _ in 0..n {
        s.push_str(*rng.pick(SOUP));
        s.push_str(if rng.chance(1, 6) { "" } else { " " });
    }
    s
}

fn byte_soup(rng: &mut Rng) -> Vec<u8> {
    let n = rng.range(0, 400);
    (0..n)
        .map(|_| match rng.below(6) {
            0 => rng.below(256) as u8,
            1 => b"{}()[]<>,;:#!*&-_\"'\\/\n"[rng.below(22)],
            _ => b"abctypeenumfnusepub0123456789 \n"[rng.below(31)],
        })
        .collect()
}

fn valid_program(rng: &mut Rng, prefix: &str) -> Vec<(ItemPath, Module)> {
    let ptrw = 8;
    let mut cfg = Cfg::rich(ptrw, prefix);
    cfg.max_modules = 2;
    cfg.max_types = 3;
    cfg.backends = true;
    gen_prog::generate(rng, &cfg).mods
}

fn to_files(mods: &[(ItemPath, Module)], rng: &mut Rng) -> Vec<(String, Vec<u8>)> {
    mods.iter().map(|(p, m)| (format!("{}.pyxis", p.to_string().replace("::", "/")), render::render_random(m, rng).into_bytes())).collect()
}

/// token-level mutation of a valid module
fn mutate_tokens(m: &Module, rng: &mut Rng) -> String {
    let mut toks = render::module_toks(m, &mut render::Style::random(rng));
    let n = rng.range(1, 4);
    for _ in 0..n {
        if toks.is_empty() {
            break;
        }
        let i = rng.below(toks.len());
        match rng.below(5) {
            0 => {
                toks.remove(i);
            }
            1 => {
                let t = toks[i].clone();
                toks.insert(i, t);
            }
            2 => {
                let j = rng.below(toks.len());
                toks.swap(i, j);
            }
            3 => {
                toks[i] = render::Tok::Word(rng.pick(SOUP).trim().to_string());
            }
            _ => {
                let j = rng.below(toks.len());
                let t = toks[j].clone();
                toks.insert(i, t);
            }
        }
    }
    render::join(&toks, &mut render::Style::random(rng))
}

const BOUNDARY: &[isize] = &[0, 1, 2, 255, 4096, 0x7FFF_FFFF, 0x8000_0000, 0xFFFF_FFFF, 0x1_0000_0000, 1 << 40, 1 << 62, isize::MAX, -1, -2, isize::MIN];
const BOUNDARY_USIZE: &[usize] = &[0, 1, 2, 255, 4096, 0x7FFF_FFFF, 0x8000_0000, 0xFFFF_FFFF, 0x1_0000_0000, 1 << 40, 1 << 61, 1 << 62, (1 << 63) - 1];

/// put a boundary value into one numeric position of a valid program
fn boundary_mutation(mods: &mut [(ItemPath, Module)], rng: &mut Rng) -> &'static str {
    let mi = rng.below(mods.len());
    let m = &mut mods[mi].1;
    let b = *rng.pick(BOUNDARY);
    let bu = *rng.pick(BOUNDARY_USIZE);
    let set_attr = |attrs: &mut Attributes, name: &str, v: isize| {
        attrs.0.retain(|a| !matches!(a, Attribute::Function(i, _) if i.as_str() == name));
        attrs.0.push(Attribute::integer_fn(name, v));
    };
    fn set_type_num(t: &mut Type, v: usize, rng: &mut Rng) -> bool {
        match t {
            Type::Array(_, n) => {
                *n = v;
                true
            }
            Type::Unknown(n) => {
                *n = v;
                true
            }
            Type::ConstPointer(i) | Type::MutPointer(i) => set_type_num(i, v, rng),
            Type::Ident(_) => false,
        }
    }
    match rng.below(12) {
        0 if !m.extern_types.is_empty() => {
            let i = rng.below(m.extern_types.len());
            set_attr(&mut m.extern_types[i].1, if rng.coin() { "size" } else { "align" }, b);
            "extern-size-align"
        }
        1 if !m.extern_values.is_empty() => {
            let i = rng.below(m.extern_values.len());
            set_attr(&mut m.extern_values[i].attributes, "address", b);
            "extern-value-address"
        }
        k if !m.definitions.is_empty() => {
            let i = rng.below(m.definitions.len());
            match &mut m.definitions[i].inner {
                ItemDefinitionInner::Enum(ed) => {
                    if k % 2 == 0 && !ed.statements.is_empty() {
                        let j = rng.below(ed.statements.len());
                        ed.statements[j].expr = Some(Expr::IntLiteral(b));
                        "enum-value"
                    } else {
                        set_attr(&mut ed.attributes, "singleton", b);
                        "enum-singleton"
                    }
                }
                ItemDefinitionInner::Type(td) => match k % 6 {
                    0 => {
                        set_attr(&mut td.attributes, "size", b);
                        "type-size"
                    }
                    1 => {
                        set_attr(&mut td.attributes, "align", b);
                        "type-align"
                    }
                    2 => {
                        set_attr(&mut td.attributes, "singleton", b);
                        "type-singleton"
                    }
                    3 if !td.statements.is_empty() => {
                        let j = rng.below(td.statements.len());
                        match &mut td.statements[j].field {
                            TypeField::Field(_, _, t) => {
                                if rng.coin() && set_type_num(t, bu, rng) {
                                    "array-length-or-gap"
                                } else {
                                    set_attr(&mut td.statements[j].attributes, "address", b);
                                    "field-address"
                                }
                            }
                            TypeField::Vftable(fs) => {
                                if rng.coin() || fs.is_empty() {
                                    set_attr(&mut td.statements[j].attributes, "size", b);
                                    "vftable-size"
                                } else {
                                    let f = rng.below(fs.len());
                                    set_attr(&mut fs[f].attributes, "index", b);
                                    "vftable-index"
                                }
                            }
                        }
                    }
                    4 => {
                        // add a vftable with absurd index/size to a type without one
                        if !td.statements.iter().any(|s| s.field.is_vftable()) {
                            let mut f = Function::new((Visibility::Public, "vx"), [Argument::ConstSelf]);
                            f.attributes = Attributes(vec![Attribute::integer_fn("index", b)]);
                            td.statements.insert(0, TypeStatement::vftable([f]));
                            "new-vftable-index"
                        } else {
                            set_attr(&mut td.attributes, "size", b);
                            "type-size"
                        }
                    }
                    _ => {
                        td.statements.push(TypeStatement::field((Visibility::Public, "big"), Type::ident("u64").array(bu)));
                        "huge-array-field"
                    }
                },
            }
        }
        _ => {
            if let Some(blk) = m.impls.first_mut() {
                if let Some(f) = blk.functions.first_mut() {
                    set_attr(&mut f.attributes, "address", b);
                    return "function-address";
                }
            }
            "none"
        }
    }
}

/// give one attribute of a valid program an argument list of the wrong shape
fn attribute_shape_mutation(mods: &mut [(ItemPath, Module)], rng: &mut Rng) {
    const NAMES: &[&str] = &["size", "align", "address", "index", "singleton", "calling_convention", "base", "packed", "copyable", "cloneable", "defaultable", "default", "doc"];
    let name = *rng.pick(NAMES);
    let arg = |rng: &mut Rng| match rng.below(4) {
        0 => Expr::IntLiteral(*rng.pick(BOUNDARY)),
        1 => Expr::StringLiteral(rng.pick(&["", "cdecl", "thiscall", "x"]).to_string()),
        _ => Expr::Ident(Ident(rng.pick(&["x", "cdecl", "u32"]).to_string())),
    };
    let shaped = match rng.below(6) {
        0 => Attribute::Function(Ident(name.into()), vec![]),
        1 => Attribute::Function(Ident(name.into()), vec![arg(rng), arg(rng)]),
        2 => Attribute::Function(Ident(name.into()), vec![arg(rng)]),
        3 => Attribute::Assign(Ident(name.into()), arg(rng)),
        4 => Attribute::Ident(Ident(name.into())),
        _ => Attribute::Function(Ident(name.into()), vec![arg(rng), arg(rng), arg(rng)]),
    };
    // collect every attribute list of the program and pick one
    let mi = rng.below(mods.len());
    let m = &mut mods[mi].1;
    let mut lists: Vec<&mut Attributes> = vec![&mut m.attributes];
    for (_, a) in m.extern_types.iter_mut() {
        lists.push(a);
    }
    for ev in m.extern_values.iter_mut() {
        lists.push(&mut ev.attributes);
    }
    for b in m.impls.iter_mut() {
        lists.push(&mut b.attributes);
        for f in b.functions.iter_mut() {
            lists.push(&mut f.attributes);
        }
    }
    for d in m.definitions.iter_mut() {
        match &mut d.inner {
            ItemDefinitionInner::Type(td) => {
                lists.push(&mut td.attributes);
                for st in td.statements.iter_mut() {
                    lists.push(&mut st.attributes);
                    if let TypeField::Vftable(fs) = &mut st.field {
                        for f in fs.iter_mut() {
                            lists.push(&mut f.attributes);
                        }
                    }
                }
            }
            ItemDefinitionInner::Enum(ed) => {
                lists.push(&mut ed.attributes);
                for st in ed.statements.iter_mut() {
                    lists.push(&mut st.attributes);
                }
            }
        }
    }
    let k = rng.below(lists.len());
    let list = &mut lists[k];
    if rng.coin() {
        list.0.retain(|a| match a {
            Attribute::Function(i, _) | Attribute::Assign(i, _) | Attribute::Ident(i) => i.as_str() != name,
        });
    }
    let pos = rng.below(list.0.len() + 1);
    list.0.insert(pos, shaped);
}

/// A by-value containment cycle of 1-4 types (plain, array and base edges) together with
/// types that are not on the cycle but embed a member of it, directly or through each other.
fn cycle_with_holders(rng: &mut Rng) -> String {
    let n = rng.range(1, 4);
    let mut s = String::new();
    let edge = |rng: &mut Rng, field: &str, target: &str| -> String {
        match rng.below(4) {
            0 => format!("{field}: [{target}; {}]", rng.range(1, 3)),
            1 => format!("#[base] {field}: {target}"),
            _ => format!("{field}: {target}"),
        }
    };
    for k in 0..n {
        let next = format!("Cyc{}", (k + 1) % n);
        let e = edge(rng, "next", &next);
        s.push_str(&format!("type Cyc{k} {{ id: u32, {e} }}\n"));
    }
    let holders = rng.range(1, 4);
    for h in 0..holders {
        // embeds a cycle member or an earlier holder; the cycle member may come second
        let target = if h > 0 && rng.coin() { format!("Holder{}", rng.below(h)) } else { format!("Cyc{}", rng.below(n)) };
        let e = edge(rng, "first", &target);
        if rng.coin() {
            s.push_str(&format!("type Holder{h} {{ id: u32, {e} }}\n"));
        } else {
            s.push_str(&format!("type Holder{h} {{ p: *const Cyc0, {e}, q: *mut Holder{h} }}\n"));
        }
    }
    if rng.chance(1, 3) {
        s.push_str("type Free { x: u64 }\ntype Waiting { m: Missing }\n");
    }
    s
}

fn recursion_case(rng: &mut Rng) -> String {
    if rng.chance(1, 3) {
        return cycle_with_holders(rng);
    }
    match rng.below(8) {
        0 => "type A { a: A }".into(),
        1 => "type A { b: B } type B { a: A }".into(),
        2 => "type A { #[base] b: B } type B { #[base] a: A }".into(),
        3 => "type A { a: [A; 4] }".into(),
        4 => "type A { vftable { fn f(&self, a: A) -> A; }, a: *const A }".into(),
        5 => {
            let d = *rng.pick(&[10usize, 30, 48, 63, 100, 500, 1000]);
            format!("type A {{ a: {}u8{} }}", "[".repeat(d), "; 1]".repeat(d))
        }
        6 => {
            let d = *rng.pick(&[10usize, 30, 48, 63, 100, 500, 1000]);
            format!("type A {{ a: {}u8 }}", "*const ".repeat(d))
        }
        _ => {
            let d = *rng.pick(&[10usize, 200, 2000]);
            format!("#[a({})] type A;", (0..d).map(|i| i.to_string()).collect::<Vec<_>>().join(","))
        }
    }
}

fn identifier_case(rng: &mut Rng) -> String {
    let weird = ["r#type", "r#fn", "r#struct", "r#self", "Self", "r#Self", "crate", "r#crate", "dyn", "union", "_x", "__", "ünï", "名前", "Foo<Bar>", "Foo<Bar<Baz>>", "a1"];
    let w = *rng.pick(&weird);
    let w2 = *rng.pick(&weird);
    match rng.below(8) {
        0 => format!("type {w} {{ pub {w2}: u32 }}"),
        1 => format!("enum {w}: u32 {{ {w2} = 1 }}"),
        2 => format!("#[size(4), align(4)] extern type {w};\ntype T {{ pub x: {w}, }}"),
        3 => format!("type T {{ pub x: u32 }}\nimpl T {{ #[address(0x10)] pub fn {w}(&self, {w2}: u32); }}"),
        4 => format!("type T {{ vftable {{ pub fn {w}(&self); }} }}"),
        5 => format!("#[address(0x10)] pub extern {w}: u32;"),
        6 => format!("type T {{ #[base] {w}: B }} type B {{ x: u32 }}"),
        _ => format!("type T {{ #[base] _: B, y: u32 }} type B {{ x: u32 }}"),
    }
}

pub fn generate(seed: u64, n: usize) -> Vec<(String, Input)> {
    let mut out = vec![];
    for i in 0..n {
        let mut rng = Rng::derive(seed, 0x1200_0000 + i as u64);
        let ptrw = *rng.pick(&[4usize, 8]);
        let cat = i % 16;
        let (kind, input): (&str, Input) = match cat {
            0 => ("token-soup", Input::Parse { text: token_soup(&mut rng) }),
            1 => ("token-soup-dir", Input::Dir { ptrw, files: vec![("a.pyxis".into(), token_soup(&mut rng).into_bytes())], stray: None }),
            2 => ("byte-soup", Input::Dir { ptrw, files: vec![("a.pyxis".into(), byte_soup(&mut rng)), ("b/c.pyxis".into(), byte_soup(&mut rng))], stray: None }),
            3 | 4 => {
                let mods = valid_program(&mut rng, &format!("k{i}_"));
                let victim = rng.below(mods.len());
                let files = mods
                    .iter()
                    .enumerate()
                    .map(|(k, (p, m))| {
                        let t = if k == victim { mutate_tokens(m, &mut rng) } else { render::render_random(m, &mut rng) };
                        (format!("{}.pyxis", p.to_string().replace("::", "/")), t.into_bytes())
                    })
                    .collect();
                ("token-mutation", Input::Dir { ptrw: 8, files, stray: None })
            }
            5 | 6 | 7 => {
                let mut mods = valid_program(&mut rng, &format!("k{i}_"));
                let site = boundary_mutation(&mut mods, &mut rng);
                let _ = site;
                ("boundary-integer", Input::Dir { ptrw: 8, files: to_files(&mods, &mut rng), stray: None })
            }
            8 => ("recursion-nesting", Input::Dir { ptrw, files: vec![("r.pyxis".into(), recursion_case(&mut rng).into_bytes())], stray: None }),
            9 => ("identifiers", Input::Dir { ptrw, files: vec![("ident.pyxis".into(), identifier_case(&mut rng).into_bytes())], stray: None }),
            10 => {
                // stray `%` at a token boundary of a valid file: the error must point at it
                let mods = valid_program(&mut rng, &format!("k{i}_"));
                let (p, m) = &mods[0];
                let toks = render::module_toks(m, &mut render::Style::plain());
                let rel = format!("{}.pyxis", p.to_string().replace("::", "/"));
                if toks.is_empty() {
                    ("stray-token", Input::Parse { text: "%".into() })
                } else {
                    let pos = rng.below(toks.len() + 1);
                    let before = render::join(&toks[..pos], &mut render::Style::plain());
                    let after = render::join(&toks[pos..], &mut render::Style::plain());
                    let before = if pos == 0 { String::new() } else { before };
                    let text = format!("{before} % {after}");
                    let line = before.matches('\n').count() + 1;
                    let col = before.rsplit('\n').next().map(|l| l.chars().count()).unwrap_or(0) + 2;
                    let mut files: Vec<(String, Vec<u8>)> = vec![(rel.clone(), text.into_bytes())];
                    for (p2, m2) in mods.iter().skip(1) {
                        files.push((format!("{}.pyxis", p2.to_string().replace("::", "/")), render::render_plain(m2).into_bytes()));
                    }
                    ("stray-token", Input::Dir { ptrw: 8, files, stray: Some((rel, line, col)) })
                }
            }
            11 => {
                // fs faults
                let mods = valid_program(&mut rng, &format!("k{i}_"));
                let mut files = to_files(&mods, &mut rng);
                match rng.below(4) {
                    0 => files.push(("bad_utf8.pyxis".into(), vec![0xff, 0xfe, b't', b'y', 0x80])),
                    1 => files.push(("dir_named_like_a_file.pyxis/".into(), vec![])),
                    2 => files.push(("empty.pyxis".into(), vec![])),
                    _ => files.push(("deep/er/and/deeper/x.pyxis".into(), b"type X { a: u8 }".to_vec())),
                }
                ("fs-fault", Input::Dir { ptrw: 8, files, stray: None })
            }
            12 | 13 => {
                // API sequences
                let mods = valid_program(&mut rng, &format!("k{i}_"));
                let mut ops = vec![];
                for (p, m) in &mods {
                    let path = match rng.below(8) {
                        0 => String::new(),
                        1 => format!("{p}::"),
                        2 => "::".into(),
                        3 => "a::b::c::d::e::f".into(),
                        4 => "u32".into(),
                        _ => p.to_string(),
                    };
                    ops.push(ApiOp::AddModule { path, text: render::render_plain(m) });
                    if rng.chance(1, 4) {
                        ops.push(ApiOp::AddModule { path: p.to_string(), text: render::render_plain(m) });
                    }
                }
                if rng.chance(1, 3) {
                    let (base, path) = match rng.below(5) {
                        0 => ("in".to_string(), "/dev/shm/pvh-c12-absolute-outside.pyxis".to_string()),
                        1 => ("in".to_string(), "other/x.pyxis".to_string()),
                        2 => ("in/sub".to_string(), "in/x.pyxis".to_string()),
                        3 => ("in".to_string(), "in/no_extension".to_string()),
                        _ => ("in".to_string(), "in/a/b/c.pyxis".to_string()),
                    };
                    ops.push(ApiOp::AddFile { base, path, content: "type FromFile { a: u8 }".into() });
                }
                ops.push(ApiOp::BuildAndWrite { out: "out".into(), out_is_file: rng.chance(1, 5) });
                if rng.chance(1, 6) {
                    ops.push(ApiOp::BuildAndWrite { out: "out2".into(), out_is_file: false });
                }
                ("api-sequence", Input::Api { ptrw, ops })
            }
            14 => {
                // two mutated files spliced
                let a = valid_program(&mut rng, &format!("k{i}a_"));
                let b = valid_program(&mut rng, &format!("k{i}b_"));
                let ta = render::render_random(&a[0].1, &mut rng);
                let tb = render::render_random(&b[0].1, &mut rng);
                let ca = rng.below(ta.len().max(1));
                let cb = rng.below(tb.len().max(1));
                let mut s: Vec<u8> = ta.as_bytes()[..ca].to_vec();
                s.extend_from_slice(&tb.as_bytes()[cb..]);
                ("splice", Input::Dir { ptrw, files: vec![("s.pyxis".into(), s)], stray: None })
            }
            15 if i % 32 == 15 => {
                let mods = valid_program(&mut rng, &format!("k{i}_"));
                ("valid", Input::Dir { ptrw: 8, files: to_files(&mods, &mut rng), stray: None })
            }
            _ => {
                let mut mods = valid_program(&mut rng, &format!("k{i}_"));
                for _ in 0..rng.range(1, 2) {
                    attribute_shape_mutation(&mut mods, &mut rng);
                }
                ("attribute-shape", Input::Dir { ptrw: 8, files: to_files(&mods, &mut rng), stray: None })
            }
        };
        out.push((kind.to_string(), input));
    }
    out
}

/// hand-written edge cases (regression corpus incl. witnesses of fixed findings)
/// Extern types with sizes and alignments at every power of two (and around the 32-bit
/// boundary) used as the only field, one of two fields, an array element and a base.
pub fn extern_boundary_inputs() -> Vec<(String, Input)> {
    let mut out = vec![];
    let mut aligns: Vec<u128> = (0..63).map(|k| 1u128 << k).collect();
    aligns.extend([3, 0xFFFF_FFFF, 0x1_0000_0001, (1u128 << 63) - 1]);
    for (ai, a) in aligns.iter().enumerate() {
        for size in [0u128, *a, a.saturating_mul(2).min((1u128 << 63) - 1)] {
            for shape in 0..4 {
                let body = match shape {
                    0 => "type T { x: X }",
                    1 => "type T { x: X, y: u8 }",
                    2 => "type T { a: [X; 2] }",
                    _ => "type T { #[base] b: X, p: *const u8 }",
                };
                let text = format!("#[size({size}), align({a})] extern type X; {body}");
                let ptrw = if (ai + shape) % 2 == 0 { 8 } else { 4 };
                out.push((format!("extern-boundary/a{a}-s{size}-{shape}"), Input::Dir { ptrw, files: vec![("c.pyxis".into(), text.into_bytes())], stray: None }));
            }
        }
    }
    out
}

pub fn corpus() -> Vec<(String, Input)> {
    let t = |s: &str| Input::Dir { ptrw: 8, files: vec![("c.pyxis".into(), s.as_bytes().to_vec())], stray: None };
    vec![
        ("corpus/extern-align-0".into(), t("#[size(4), align(0)] extern type X; type T { x: X }")),
        ("corpus/array-size-overflow".into(), t("type T { x: [u64; 4611686018427387904] }")),
        ("corpus/array-of-array-overflow".into(), t("type T { x: [[u8; 4294967296]; 4294967296] }")),
        ("corpus/index-negative".into(), t("type T { vftable { #[index(-1)] fn f(&self); } }")),
        ("corpus/index-huge".into(), t("type T { vftable { #[index(1099511627776)] fn f(&self); } }")),
        ("corpus/vftable-size-negative".into(), t("type T { #[size(-1)] vftable { fn f(&self); } }")),
        ("corpus/vftable-size-huge".into(), t("type T { #[size(1099511627776)] vftable { fn f(&self); } }")),
        ("corpus/enum-max".into(), t("enum E: i64 { A = 9223372036854775807, B }")),
        ("corpus/enum-singleton-negative".into(), t("#[singleton(-1)] enum E: u32 { A }")),
        ("corpus/base-unnamed".into(), t("type B { x: u32 } type T { #[base] _: B, y: u32 }")),
        ("corpus/base-pointer".into(), t("type B { x: u32 } type T { #[base] b: *const B }")),
        ("corpus/base-enum".into(), t("enum B: u32 { A } type T { #[base] b: B }")),
        ("corpus/size-negative".into(), t("#[size(-8)] type T { x: u32 }")),
        ("corpus/align-huge".into(), t("#[align(4611686018427387904)] type T { x: u32 }")),
        ("corpus/address-huge".into(), t("type T { #[address(9223372036854775807)] x: u64 }")),
        ("corpus/unknown-huge".into(), t("type T { _: unknown<9223372036854775807>, x: u64 }")),
        ("corpus/doc-non-string".into(), t("#[doc = 5] type T { x: u32 }")),
        ("corpus/generic-extern-field".into(), t("#[size(8), align(8)] extern type SharedPtr<Foo>; type T { p: SharedPtr<Foo> }")),
        ("corpus/raw-ident-type".into(), t("type r#type { r#fn: u32 }")),
        ("corpus/empty-vftable".into(), t("type T { vftable { } }")),
        ("corpus/vftable-not-first".into(), t("type T { x: u32, vftable { fn f(&self); } }")),
        ("corpus/impl-for-unknown-type".into(), t("impl Nope { #[address(1)] fn f(&self); }")),
        ("corpus/impl-for-enum".into(), t("enum E: u32 { A } impl E { #[address(1)] fn f(&self); }")),
        ("corpus/lcm-overflow".into(), t("#[size(8), align(4611686018427387904)] extern type X; #[size(3), align(3)] extern type Y; type T { x: X, y: Y }")),
        ("corpus/backend-unknown".into(), t("backend nothing { prologue \"x\"; } type T { x: u32 }")),
        ("corpus/prologue-not-rust".into(), t("backend rust prologue \"this is not rust {{{\"; type T { x: u32 }")),
        ("corpus/use-self".into(), t("use c; use c::T; type T { x: u32 }")),
        ("corpus/calling-convention-no-args".into(), t("type T { x: u32 } impl T { #[address(1), calling_convention()] fn f(&self); }")),
        ("corpus/index-no-args".into(), t("type T { vftable { #[index()] fn f(&self); } }")),
        ("corpus/size-string".into(), t("#[size(\"4\")] type T { x: u32 }")),
        ("corpus/raw-ident-clash-rename".into(), t("type A { x: u32 } impl A { #[address(0x10)] pub fn r#fn(&self); } type B { y: u32 } impl B { #[address(0x20)] pub fn r#fn(&self); } type D { #[base] a: A, #[base] b: B }")),
        ("corpus/diamond-tower-10".into(), t(&{
            let mut s = String::from("type A0 { }\n");
            for i in 1..=10 {
                s.push_str(&format!("type A{i} {{ #[base] a: A{}, #[base] b: A{} }}\n", i - 1, i - 1));
            }
            s
        })),
        // nesting far beyond anything meaningful: an error or a result, not an exhausted stack
        ("corpus/pointer-nesting-100000".into(), t(&format!("type A {{ a: {}u8 }}", "*const ".repeat(100_000)))),
        ("corpus/array-nesting-100000".into(), t(&format!("type A {{ a: {}u8{} }}", "[".repeat(100_000), "; 1]".repeat(100_000)))),
        ("corpus/pointer-nesting-in-signature-100000".into(), t(&format!("type A {{ x: u32 }} impl A {{ #[address(0x10)] pub fn f(&self, p: {}u8) -> {}u8; }}", "*mut ".repeat(100_000), "*const ".repeat(50_000)))),
        ("corpus/pointer-nesting-in-extern-value-100000".into(), t(&format!("#[address(0x10)] pub extern g: {}u8;", "*mut ".repeat(100_000)))),
        ("corpus/brace-nesting-100000".into(), t(&format!("type A {}{}", "{".repeat(100_000), "}".repeat(100_000)))),
        ("corpus/paren-nesting-in-attribute-100000".into(), t(&format!("#[size{}4{}] type A {{ x: u32 }}", "(".repeat(100_000), ")".repeat(100_000)))),
        ("corpus/unclosed-bracket-nesting-100000".into(), t(&format!("type A {{ a: {}u8", "[".repeat(100_000)))),
        // nesting at and just below the limit: still answered in time proportional to the text
        ("corpus/array-nesting-64".into(), t(&format!("type A {{ a: {}u8{} }}", "[".repeat(63), "; 1]".repeat(63)))),
        ("corpus/array-nesting-40".into(), t(&format!("type A {{ a: {}u8{} }}", "[".repeat(40), "; 1]".repeat(40)))),
        ("corpus/array-of-pointer-nesting-60".into(), t(&format!("type A {{ a: {}u8{} }}", "[*const ".repeat(30), "; 1]".repeat(30)))),
        ("corpus/array-nesting-64-malformed-innermost".into(), t(&format!("type A {{ a: {}u8{} }}", "[".repeat(63), "]".repeat(63)))),
        ("corpus/type-nesting-64".into(), t(&format!("type A {{ a: {}u8 }}", "*const ".repeat(63)))),
        ("corpus/type-nesting-65".into(), t(&format!("type A {{ a: {}u8 }}", "*const ".repeat(65)))),
        ("corpus/array-nesting-5000".into(), t(&format!("type A {{ a: {}u8{} }}", "[".repeat(5_000), "; 1]".repeat(5_000)))),
        ("corpus/pointer-nesting-5000".into(), t(&format!("type A {{ a: {}u8 }}", "*const ".repeat(5_000)))),
        ("corpus/two-impl-blocks".into(), t("type T { x: u32 } impl T { #[address(0x10)] pub fn a(&self); } impl T { #[address(0x20)] pub fn b(&self); }")),
        ("corpus/api-absolute-path".into(), Input::Api { ptrw: 8, ops: vec![ApiOp::AddFile { base: "in".into(), path: "/dev/shm/pvh-c12-corpus-abs.pyxis".into(), content: "type A { a: u8 }".into() }, ApiOp::BuildAndWrite { out: "out".into(), out_is_file: false }] }),
        ("corpus/api-empty-path".into(), Input::Api { ptrw: 8, ops: vec![ApiOp::AddModule { path: "".into(), text: "type A { a: u8 }".into() }, ApiOp::BuildAndWrite { out: "out".into(), out_is_file: false }] }),
        ("corpus/api-out-is-file".into(), Input::Api { ptrw: 8, ops: vec![ApiOp::AddModule { path: "m".into(), text: "type A { a: u8 }".into() }, ApiOp::BuildAndWrite { out: "out".into(), out_is_file: true }] }),
        ("corpus/ptr-width-0".into(), Input::Api { ptrw: 0, ops: vec![ApiOp::AddModule { path: "m".into(), text: "type A { a: *const u8, b: u8 }".into() }, ApiOp::BuildAndWrite { out: "out".into(), out_is_file: false }] }),
        ("corpus/ptr-width-3".into(), Input::Api { ptrw: 3, ops: vec![ApiOp::AddModule { path: "m".into(), text: "type A { a: *const u8 }".into() }, ApiOp::BuildAndWrite { out: "out".into(), out_is_file: false }] }),
    ]
}

// ---------------------------------------------------------------------------
// parent

pub struct WorkerResult {
    pub index: usize,
    pub done: Option<Value>,
    pub died: Option<String>,
}

fn run_shard(shard: &std::path::Path, n: usize, per_input_timeout: std::time::Duration) -> Vec<WorkerResult> {
    let exe = std::env::current_exe().unwrap();
    let mut results: Vec<WorkerResult> = vec![];
    let mut start = 0usize;
    let mut stuck_inputs = 0usize;
    while start < n {
        let mut cmd = std::process::Command::new(&exe);
        cmd.arg("c12-worker").arg(shard).arg(start.to_string());
        cmd.env("RUST_BACKTRACE", "0");
        // generous wall clock for the whole remainder; progress is per input
        let budget = per_input_timeout * ((n - start) as u32).min(200) + std::time::Duration::from_secs(30);
        let r = crate::probe::run_tool(&mut cmd, budget);
        let mut open: Option<usize> = None;
        let mut stuck: Option<String> = None;
        let mut last_done: Option<usize> = None;
        for line in r.stdout.lines() {
            if let Some(k) = line.strip_prefix("START ") {
                open = k.trim().parse().ok();
            } else if let Some(rest) = line.strip_prefix("STUCK ") {
                stuck = rest.split(' ').nth(1).map(|c| c.to_string());
            } else if let Some(rest) = line.strip_prefix("DONE ") {
                let mut it = rest.splitn(2, ' ');
                let k: usize = it.next().and_then(|x| x.parse().ok()).unwrap_or(usize::MAX);
                let v = it.next().and_then(|j| serde_json::from_str::<Value>(j).ok());
                results.push(WorkerResult { index: k, done: v, died: None });
                last_done = Some(k);
                open = None;
            }
        }
        if r.stdout.lines().last() == Some("END") && open.is_none() {
            break;
        }
        match open {
            Some(k) => {
                let why = if let Some(cpu) = &stuck {
                    format!("TIME-BUDGET {cpu}")
                } else if r.timed_out {
                    "WATCHDOG".to_string()
                } else if r.stderr.contains("ALLOC-CAP-EXCEEDED") {
                    "ALLOC-CAP-EXCEEDED".to_string()
                } else if r.stderr.contains("stack overflow") {
                    format!("stack overflow (signal {:?})", r.signal)
                } else {
                    format!("worker died: code {:?} signal {:?} {}", r.code, r.signal, crate::verdict::one_line(&r.stderr, 200))
                };
                let was_stuck = why.starts_with("TIME-BUDGET");
                results.push(WorkerResult { index: k, done: None, died: Some(why) });
                start = k + 1;
                if was_stuck {
                    stuck_inputs += 1;
                    // each of these costs CPU_LIMIT_SECS; two witnesses per shard are enough for
                    // a verdict, the rest of the shard is not run
                    if stuck_inputs >= 2 {
                        break;
                    }
                }
            }
            None => {
                // died between inputs or could not start: skip one to guarantee progress
                start = last_done.map(|d| d + 1).unwrap_or(start + 1);
                if r.timed_out {
                    break;
                }
            }
        }
    }
    results
}

fn judge(kind: &str, input: &Input, r: &WorkerResult) -> Vec<(String, String)> {
    let mut bad = vec![];
    if let Some(why) = &r.died {
        if why == "WATCHDOG" {
            bad.push(("C12/__inconclusive".into(), format!("watchdog fired on a {kind} input")));
        } else if let Some(cpu) = why.strip_prefix("TIME-BUDGET ") {
            bad.push((format!("C12/time-budget/{kind}"), format!("the build consumed {cpu} s of CPU time on this input without returning (limit {CPU_LIMIT_SECS} s; inputs of this size take milliseconds)")));
        } else if why.starts_with("ALLOC-CAP") {
            bad.push((format!("C12/unbounded-memory/{kind}"), "allocation grew past the 1 GiB hard cap (worker aborted)".into()));
        } else if why.starts_with("stack overflow") {
            bad.push((format!("C12/stack-overflow/{kind}"), why.clone()));
        } else {
            bad.push((format!("C12/abort/{kind}"), why.clone()));
        }
        return bad;
    }
    let Some(v) = &r.done else { return bad };
    let outcome = v["outcome"].as_str().unwrap_or("");
    let msg = v["msg"].as_str().unwrap_or("");
    if outcome == "panic" {
        let class = if msg.contains("ITERATION-BOUND-EXCEEDED") {
            "iteration-bound".to_string()
        } else {
            // file:line of the panic site is the discriminating parameter
            let site = msg.rsplit(" @ ").next().unwrap_or("").rsplit('/').next().unwrap_or("").split(':').take(2).collect::<Vec<_>>().join(":");
            format!("panic/{site}")
        };
        bad.push((format!("C12/{class}"), crate::verdict::one_line(msg, 300)));
    }
    let allocated = v["allocated"].as_u64().unwrap_or(0);
    let budget = v["budget"].as_u64().unwrap_or(u64::MAX);
    if allocated > budget {
        bad.push((format!("C12/allocation-budget/{kind}"), format!("allocated {allocated} bytes, budget {budget}")));
    }
    // parse errors identify file, line and column
    if let Input::Dir { files, stray, .. } = input {
        if outcome == "err" {
            if let Some(own) = v["own_parse"].as_array() {
                let (f, l, c) = (own[0].as_str().unwrap_or(""), own[1].as_u64().unwrap_or(0), own[2].as_u64().unwrap_or(0));
                // the reported file may be any unparsable one (glob order); require the format and a file of the set
                if let Some(rest) = msg.strip_prefix("failed to parse ") {
                    let head = rest.lines().next().unwrap_or("");
                    let mut parts = head.rsplitn(3, ':');
                    let col: Option<u64> = parts.next().and_then(|x| x.trim().parse().ok());
                    let line: Option<u64> = parts.next().and_then(|x| x.trim().parse().ok());
                    let path = parts.next().unwrap_or("");
                    let rel = path.trim_start_matches("<in>/");
                    match (line, col, files.iter().find(|x| x.0 == rel)) {
                        (Some(line), Some(col), Some((_, bytes))) => {
                            let text = String::from_utf8_lossy(bytes);
                            let nlines = text.lines().count().max(1) as u64;
                            let len = text.lines().nth(line.saturating_sub(1) as usize).map(|s| s.chars().count()).unwrap_or(0) as u64;
                            if line < 1 || line > nlines + 1 || col < 1 || col > len + 1 {
                                bad.push(("C12/parse-position-out-of-range".into(), format!("{head} (file has {nlines} lines, that line {len} columns)")));
                            }
                            if rel == f && (line, col) != (l, c) {
                                bad.push(("C12/parse-position-differs".into(), format!("reported {line}:{col}, the parser's error span starts at {l}:{c}")));
                            }
                            if let Some((sf, sl, sc)) = stray {
                                if sf == rel && (line as usize, col as usize) != (*sl, *sc) {
                                    bad.push(("C12/stray-token-position".into(), format!("stray `%` at {sl}:{sc} but the error points to {line}:{col}")));
                                }
                            }
                        }
                        _ => bad.push(("C12/parse-error-without-position".into(), format!("`{head}` does not identify file:line:col of an input file"))),
                    }
                } else if !v["non_utf8"].as_bool().unwrap_or(false) {
                    bad.push(("C12/parse-error-without-position".into(), format!("a file does not parse ({f}:{l}:{c}) but the error is: {}", crate::verdict::one_line(msg, 200))));
                }
            }
        }
        if outcome == "ok" && v["unparsable_file"].is_string() {
            bad.push(("C12/unparsable-file-accepted".into(), format!("build succeeded although {} does not parse", v["unparsable_file"])));
        }
    }
    bad
}

pub fn run(ctx: &mut Ctx) {
    ctx.rule = "inputs in 16 categories — token soup (parser only and through pyxis::build), byte soup incl. invalid UTF-8, token-level mutations (delete/duplicate/swap/replace/insert) and splices of valid generated files, boundary integers (0, 1, 255, 4096, 2^31, 2^32, 2^40, 2^62, isize::MAX, -1, -2, isize::MIN) in every numeric position (address, size, align, index, vftable size, array length, unknown<N>, enum value, singleton, extern size/align, function address), self-referential/mutually recursive/deeply nested types, raw/keyword-like/generic-looking identifiers, stray tokens at known positions, file-system faults, API sequences (odd module paths, same path twice, add_file with absolute/outside paths, output path that is a regular file, building twice), plus a hand-written corpus — run in worker processes under catch_unwind with a counting allocator (budget 64 MiB + 64 KiB/input byte, hard cap 1 GiB), an iteration bound from the hook trace (<= items+1) and a wall-clock watchdog (inconclusive when it fires). Parse errors must name file:line:col inside the file, equal to the parser's span and to the position of an inserted stray token. non-trivial = input that parses, or is a structured mutant of one that does; distinct by hash of the input".into();
    let seed = ctx.seed;
    let n = ctx.tier.pick(16_000usize, 400_000);
    let mut inputs = corpus();
    inputs.extend(extern_boundary_inputs());
    inputs.extend(generate(seed, n));
    let nshards = 16usize;
    let scratch = drive::Scratch::new("c12p");
    let mut shards: Vec<Vec<usize>> = vec![vec![]; nshards];
    for i in 0..inputs.len() {
        shards[i % nshards].push(i);
    }
    let mut shard_files = vec![];
    for (s, idxs) in shards.iter().enumerate() {
        let p = scratch.path.join(format!("shard{s}.jsonl"));
        let mut f = std::io::BufWriter::new(std::fs::File::create(&p).unwrap());
        for i in idxs {
            writeln!(f, "{}", enc(&inputs[*i].1)).unwrap();
        }
        f.flush().unwrap();
        shard_files.push(p);
    }
    let results: Vec<Vec<WorkerResult>> = std::thread::scope(|sc| {
        let hs: Vec<_> = shard_files
            .iter()
            .zip(shards.iter())
            .map(|(p, idxs)| {
                let n = idxs.len();
                sc.spawn(move || run_shard(p, n, std::time::Duration::from_secs(20)))
            })
            .collect();
        hs.into_iter().map(|h| h.join().unwrap_or_default()).collect()
    });
    let mut by_kind: BTreeMap<String, (u64, u64, u64)> = BTreeMap::new();
    let mut seen_results = 0usize;
    for (idxs, rs) in shards.iter().zip(results) {
        for r in rs {
            let Some(&gi) = idxs.get(r.index) else { continue };
            let (kind, input) = &inputs[gi];
            seen_results += 1;
            ctx.eval();
            let e = by_kind.entry(kind.split('/').next().unwrap_or(kind).to_string()).or_insert((0, 0, 0));
            let outcome = r.done.as_ref().and_then(|v| v["outcome"].as_str()).unwrap_or("died").to_string();
            match outcome.as_str() {
                "ok" => e.0 += 1,
                "err" => e.1 += 1,
                _ => e.2 += 1,
            }
            let structured = !matches!(kind.as_str(), "token-soup" | "token-soup-dir" | "byte-soup");
            if structured || outcome == "ok" {
                ctx.nontrivial(fnv(format!("{:?}", enc(input)).as_bytes()));
            }
            if let Some(v) = &r.done {
                let a = v["allocated"].as_u64().unwrap_or(0);
                if a > ctx.counter("max_bytes_allocated_by_one_input") {
                    ctx.counters.insert("max_bytes_allocated_by_one_input".into(), a);
                }
            }
            for (sig, detail) in judge(kind, input, &r) {
                if sig == "C12/__inconclusive" {
                    ctx.inconclusive(detail);
                    continue;
                }
                ctx.violation(&sig, &detail, json!({"kind": kind, "input": enc(input)}));
            }
            if kind == "boundary-integer" && ctx.counter("sampled_b") == 0 {
                ctx.count("sampled_b", 1);
                ctx.sample(json!({"kind": kind, "outcome": outcome, "input": enc(input)}));
            }
            if kind == "token-mutation" && ctx.counter("sampled_m") == 0 {
                ctx.count("sampled_m", 1);
                ctx.sample(json!({"kind": kind, "outcome": outcome, "input": enc(input)}));
            }
        }
    }
    for (k, (ok, err, other)) in by_kind {
        ctx.count(&format!("outcomes/{k}/ok"), ok);
        ctx.count(&format!("outcomes/{k}/err"), err);
        if other > 0 {
            ctx.count(&format!("outcomes/{k}/panic-or-died"), other);
        }
    }
    if seen_results * 10 < inputs.len() * 9 {
        ctx.inconclusive(format!("only {seen_results} of {} inputs produced a result", inputs.len()));
    }
    if ctx.distinct_count() < ctx.tier.pick(2000, 50_000) {
        ctx.inconclusive(format!("only {} distinct non-trivial inputs", ctx.distinct_count()));
    }
}

pub fn replay(ctx: &mut Ctx, case: &Value) {
    let Some(input) = dec(&case["input"]) else {
        ctx.inconclusive("replay case does not parse");
        return;
    };
    let kind = case["kind"].as_str().unwrap_or("replay").to_string();
    let scratch = drive::Scratch::new("c12r");
    let p = scratch.path.join("shard.jsonl");
    std::fs::write(&p, format!("{}\n", enc(&input))).unwrap();
    let rs = run_shard(&p, 1, std::time::Duration::from_secs(30));
    ctx.eval();
    for r in rs {
        for (sig, detail) in judge(&kind, &input, &r) {
            if sig != "C12/__inconclusive" {
                ctx.violation(&sig, &detail, case.clone());
            }
        }
    }
}
