//! C13 — the emitted files form a Rust crate that type-checks.
//!
//! Observed: `syn::parse_file` on every output, `rustc --emit=metadata`
//! diagnostics for the assembled crate (module tree mirroring the input,
//! extern types supplied, ABI strings normalised, host target) and nightly
//! rustc diagnostics for the struct/enum definitions on i686-pc-windows-msvc.
//! Oracle: accepted => no error. Inputs pyxis rejects are not judged.

use crate::gen_prog::{self, Cfg};
use crate::l2::{self, BuildOutcome, Built};
use crate::layout_props::{case_json, mods_from_case, structural_hash};
use crate::probe::{self, ProbeCrate};
use crate::rng::Rng;
use crate::verdict::Ctx;
use pyxis::grammar::*;
use rayon::prelude::*;
use serde_json::{json, Value};
use std::collections::{BTreeMap, BTreeSet};

fn error_code(line: &str) -> String {
    line.split("error[")
        .nth(1)
        .and_then(|x| x.split(']').next())
        .map(|x| x.to_string())
        .unwrap_or_else(|| "error".to_string())
}

/// type-check a set of cases as one lib crate; returns per-case error lines
pub fn typecheck(cases: &[&Built]) -> Result<BTreeMap<usize, Vec<String>>, String> {
    let mut pc = ProbeCrate::new();
    pc.with_runtime = false;
    for b in cases {
        l2::add_case_files(&mut pc, b, false);
    }
    let scratch = probe::scratch("tc");
    let root = pc.write(&scratch.path);
    let r = probe::check_metadata(&root, &scratch.path, true);
    if r.timed_out {
        return Err("rustc timed out".into());
    }
    let mut out: BTreeMap<usize, Vec<String>> = BTreeMap::new();
    if r.ok {
        return Ok(out);
    }
    let mut unattributed = vec![];
    for line in r.stderr.lines() {
        if !line.contains(": error") {
            continue;
        }
        let file = line.split(':').next().unwrap_or("").rsplit('/').next().unwrap_or("");
        match cases.iter().position(|b| file.starts_with(&b.id)) {
            Some(i) => out.entry(i).or_default().push(crate::verdict::one_line(line, 400)),
            None => unattributed.push(line.to_string()),
        }
    }
    if out.is_empty() {
        return Err(format!("rustc failed without attributable error: {}", crate::verdict::one_line(&r.stderr, 400)));
    }
    Ok(out)
}

/// The property's fragment allows arrays (and therefore gaps) of at most 32 elements in
/// defaultable types: `Default` is not implemented for longer arrays.
fn default_on_long_array(b: &Built) -> bool {
    fn long_array(ty: &str) -> bool {
        // squeezed type text: [T;N]
        let mut rest = ty;
        while let Some(i) = rest.rfind(';') {
            let tail = &rest[i + 1..];
            let n: String = tail.chars().take_while(|c| c.is_ascii_digit()).collect();
            if n.parse::<u64>().map(|v| v > 32).unwrap_or(false) {
                return true;
            }
            rest = &rest[..i];
        }
        false
    }
    b.efiles.values().any(|ef| ef.structs.iter().any(|s| s.derives.iter().any(|d| d == "Default") && s.fields.iter().any(|f| long_array(&f.ty))))
}

fn multi_module_crossref(b: &Built) -> bool {
    b.mods.len() >= 2 && b.mods.iter().any(|(_, m)| !m.uses.is_empty())
}

/// Extra programs aimed at the derive/marker, singleton and repeated-discriminant clauses.
fn special_cases(seed: u64, first: usize, n: usize) -> Vec<(String, Vec<(ItemPath, Module)>, usize)> {
    let mut out = vec![];
    for i in 0..n {
        let mut rng = Rng::derive(seed, 0x13AA_0000 + i as u64);
        let id = format!("k{}_", first + i);
        let mut m = Module::new();
        // inner type/enum with random markers
        let mark = |rng: &mut Rng| -> Vec<Attribute> {
            let mut a = vec![];
            match rng.below(4) {
                0 => a.push(Attribute::copyable()),
                1 => a.push(Attribute::cloneable()),
                _ => {}
            }
            a
        };
        let mut inner_attrs = mark(&mut rng);
        let inner_default = rng.coin();
        if inner_default {
            inner_attrs.push(Attribute::defaultable());
        }
        inner_attrs.push(Attribute::align(4));
        m.definitions.push(ItemDefinition::new(
            (Visibility::Public, "Inner"),
            TypeDefinition::new([TypeStatement::field((Visibility::Public, "a"), Type::ident("u32"))]).with_attributes(Attributes(inner_attrs)),
        ));
        let mut e_attrs = mark(&mut rng);
        let e_default = rng.coin();
        if e_default {
            e_attrs.push(Attribute::defaultable());
        }
        if rng.chance(1, 3) {
            e_attrs.push(Attribute::singleton(0x6200_0000 + i * 0x100));
        }
        let dup = rng.below(8);
        let variants = match dup {
            // an explicit value repeats an implicit one
            0 => vec![
                EnumStatement::field("A").with_attributes(if e_default { vec![Attribute::default()] } else { vec![] }),
                EnumStatement::field_with_expr("B", Expr::IntLiteral(0)),
                EnumStatement::field("C"),
            ],
            // an implicit run climbs back into an earlier explicit value
            1 => vec![
                EnumStatement::field_with_expr("A", Expr::IntLiteral(2)).with_attributes(if e_default { vec![Attribute::default()] } else { vec![] }),
                EnumStatement::field_with_expr("B", Expr::IntLiteral(0)),
                EnumStatement::field("C"),
                EnumStatement::field("D"),
            ],
            _ => vec![
                EnumStatement::field("A").with_attributes(if e_default { vec![Attribute::default()] } else { vec![] }),
                EnumStatement::field_with_expr("B", Expr::IntLiteral(5)),
                EnumStatement::field("C"),
            ],
        };
        m.definitions.push(ItemDefinition::new(
            (Visibility::Public, "En"),
            EnumDefinition::new(Type::ident(*rng.pick(&["u8", "u32", "i16", "u64"])), variants, Attributes(e_attrs)),
        ));
        // a byte-aligned, non-packed struct (still emitted with repr(align(1)))
        m.definitions.push(ItemDefinition::new(
            (Visibility::Public, "Bytes"),
            TypeDefinition::new([TypeStatement::field((Visibility::Public, "b"), if rng.coin() { Type::ident("u8") } else { Type::ident("u8").array(rng.range(1, 4)) })])
                .with_attributes(Attributes(if rng.coin() { vec![Attribute::align(1), Attribute::copyable()] } else { vec![Attribute::copyable()] })),
        ));
        if rng.chance(1, 3) {
            m.definitions.push(ItemDefinition::new(
                (Visibility::Public, "PackedAroundBytes"),
                TypeDefinition::new([
                    TypeStatement::field((Visibility::Public, "x"), Type::ident("u32")),
                    TypeStatement::field((Visibility::Public, "bytes"), Type::ident("Bytes")),
                ])
                .with_attributes([Attribute::packed()]),
            ));
        }
        // outer embeds them by value / in arrays / behind pointers, with its own independent markers
        let mut outer_attrs = mark(&mut rng);
        if rng.chance(1, 3) {
            outer_attrs.push(Attribute::defaultable());
        }
        let packed = rng.chance(1, 5);
        let mut statements = vec![];
        let mut size = 0usize;
        let pick = rng.below(5);
        if pick != 4 {
            statements.push(TypeStatement::field((Visibility::Public, "inner"), Type::ident("Inner")));
            size += 4;
        }
        if rng.coin() {
            statements.push(TypeStatement::field((Visibility::Public, "inners"), Type::ident("Inner").array(rng.range(1, 3))));
            size = 4 + 4 * match &statements.last().unwrap().field {
                TypeField::Field(_, _, Type::Array(_, n)) => *n,
                _ => 0,
            } - if pick == 4 { 4 } else { 0 };
        }
        if rng.coin() {
            statements.push(TypeStatement::field((Visibility::Public, "e"), Type::ident("En")));
        }
        if rng.chance(1, 3) {
            statements.push(TypeStatement::field((Visibility::Public, "p"), Type::ident("Inner").const_pointer()));
        }
        let _ = size;
        if packed {
            outer_attrs.push(Attribute::packed());
        }
        m.definitions.push(ItemDefinition::new(
            (Visibility::Public, "Outer"),
            TypeDefinition::new(statements).with_attributes(Attributes(outer_attrs)),
        ));
        // derived with base Inner (AsRef on a possibly packed owner)
        if rng.coin() {
            let mut a = mark(&mut rng);
            if rng.chance(1, 4) {
                a.push(Attribute::packed());
            } else {
                a.push(Attribute::align(4));
            }
            m.definitions.push(ItemDefinition::new(
                (Visibility::Public, "Derived"),
                TypeDefinition::new([
                    TypeStatement::field((Visibility::Public, "base"), Type::ident("Inner")).with_attributes([Attribute::base()]),
                    TypeStatement::field((Visibility::Public, "x"), Type::ident("u32")),
                ])
                .with_attributes(Attributes(a)),
            ));
        }
        m.backends.push(Backend::new("rust").with_prologue("use std::ffi::c_void as _;\npub const PROLOGUE_OK: u8 = 1;").with_epilogue("pub fn epilogue_ok() -> u8 { PROLOGUE_OK }"));
        out.push((id.clone(), vec![(ItemPath::from(format!("{id}s").as_str()), m)], 8));
    }
    out
}

/// Programs in which a name chosen by the user coincides with a name the backend generates
/// (or with another user name that ends up in the same Rust scope). Each must be rejected
/// or must compile.
pub fn clash_cases(first: usize) -> Vec<(String, Vec<(ItemPath, Module)>, usize)> {
    let texts: Vec<(&str, &str)> = vec![
        ("vfunc-named-vftable", "pub type V { vftable { fn first(&mut self); pub fn vftable(&self); }, pub x: u64, }"),
        ("impl-fn-named-vftable", "pub type V { vftable { fn first(&mut self); }, pub x: u64, }\nimpl V { #[address(0x1000)] pub fn vftable(&self) -> u32; }"),
        ("field-named-vftable", "pub type V { vftable { fn first(&mut self); }, pub vftable: u64, }"),
        ("derived-impl-fn-named-vftable", "pub type V { vftable { fn first(&mut self); }, pub x: u64, }\npub type D { #[base] pub base: V, }\nimpl D { #[address(0x1000)] pub fn vftable(&self) -> u32; }"),
        ("later-base-fn-named-vftable", "pub type V { vftable { fn first(&mut self); }, pub x: u64, }\npub type B { pub y: u64, }\nimpl B { #[address(0x1000)] pub fn vftable(&self) -> u32; }\npub type D { #[base] pub base: V, #[base] pub b: B, }"),
        ("first-base-fn-named-vftable", "pub type B { pub y: u64, }\nimpl B { #[address(0x1000)] pub fn vftable(&self) -> u32; }\npub type D { vftable { fn v(&self); }, #[base] pub b: B, }"),
        ("field-named-like-padding", "#[align(4)] pub type T { pub _field_4: u32, #[address(8)] pub x: u32, }"),
        ("field-named-like-later-padding", "#[align(4)] pub type T { pub a: u32, #[address(8)] pub x: u32, pub _field_4: u32, }"),
        ("vfunc-named-like-placeholder", "pub type V { vftable { fn _vfunc_1(&self); #[index(2)] fn b(&self); }, }"),
        ("vfunc-named-like-later-placeholder", "pub type V { vftable { #[index(1)] fn b(&self); fn _vfunc_0(&self); }, }"),
        ("own-fn-named-like-renamed-base-fn", "pub type A { pub x: u32, }\nimpl A { #[address(0x1000)] pub fn run(&self); }\npub type B { pub x: u32, }\nimpl B { #[address(0x1040)] pub fn run(&self); }\npub type D { #[base] pub a: A, #[base] pub b: B, }\nimpl D { #[address(0x1080)] pub fn b_run(&self); }"),
        ("third-base-fn-named-like-renamed-base-fn", "pub type A { pub x: u32, }\nimpl A { #[address(0x1000)] pub fn run(&self); }\npub type B { pub x: u32, }\nimpl B { #[address(0x1040)] pub fn run(&self); }\npub type C { pub x: u32, }\nimpl C { #[address(0x1080)] pub fn b_run(&self); }\n#[align(4)] pub type D { #[base] pub a: A, #[base] pub b: B, #[base] pub c: C, }"),
        ("earlier-base-fn-named-like-renamed-base-fn", "pub type C { pub x: u32, }\nimpl C { #[address(0x1080)] pub fn b_run(&self); }\npub type A { pub x: u32, }\nimpl A { #[address(0x1000)] pub fn run(&self); }\npub type B { pub x: u32, }\nimpl B { #[address(0x1040)] pub fn run(&self); }\n#[align(4)] pub type D { #[base] pub c: C, #[base] pub a: A, #[base] pub b: B, }"),
        ("impl-fn-named-get-on-singleton", "#[singleton(0x7000)] pub type S { pub x: u32, }\nimpl S { #[address(0x1000)] pub fn get(&self) -> u32; }"),
        ("static-fn-named-get-on-singleton", "#[singleton(0x7000)] pub type S { pub x: u32, }\nimpl S { #[address(0x1000)] pub fn get() -> u32; }"),
        ("two-extern-values-of-one-name", "#[address(0x7000)] pub extern x: u32;\n#[address(0x7040)] pub extern x: u64;"),
        ("extern-value-named-like-another-getter", "#[address(0x7000)] pub extern x: u32;\n#[address(0x7040)] pub extern get_x: u64;"),
        ("two-fields-of-one-name", "pub type T { pub a: u32, pub a: u32, }"),
        ("two-variants-of-one-name", "pub enum E: u32 { A, A, }"),
        ("two-vfuncs-of-one-name", "pub type V { vftable { fn a(&self); fn a(&self); }, }"),
        ("two-parameters-of-one-name", "pub type T { pub a: u32, }\nimpl T { #[address(0x1000)] pub fn f(&self, a: u32, a: u32); }"),
        ("two-vfunc-parameters-of-one-name", "pub type V { vftable { pub fn f(&self, a: u32, a: u32); }, }"),
        ("parameter-named-f", "pub type T { pub a: u32, }\nimpl T { #[address(0x1000)] pub fn g(&self, f: u32) -> u32; }"),
        ("vfunc-parameter-named-f", "pub type V { vftable { pub fn g(&self, f: u32) -> u32; }, }"),
        ("vfunc-parameter-named-this", "pub type V { vftable { pub fn g(&self, this: u32) -> u32; }, }"),
        ("static-parameter-named-f", "pub type T { pub a: u32, }\nimpl T { #[address(0x1000)] pub fn g(f: u32, this: u64) -> u32; }"),
        ("base-field-and-fn-share-a-name", "pub type A { pub x: u32, }\nimpl A { #[address(0x1000)] pub fn a(&self); }\npub type D { #[base] pub a: A, }"),
        ("type-named-like-size-check", "pub type T { pub a: u32, }\npub type _T_size_check { pub a: u32, }"),
        ("variant-named-like-type", "pub enum E: u32 { E, T, }\npub type T { pub e: E, }"),
        ("vfunc-and-field-share-a-name", "pub type V { vftable { pub fn x(&self); }, pub x: u64, }"),
        ("impl-fn-and-field-share-a-name", "pub type T { pub x: u64, }\nimpl T { #[address(0x1000)] pub fn x(&self) -> u64; }"),
        ("receiver-not-first", "pub type T { pub a: u32, }\nimpl T { #[address(0x1000)] pub fn g(a: u32, &self) -> u32; }"),
        ("two-receivers", "pub type T { pub a: u32, }\nimpl T { #[address(0x1000)] pub fn g(&self, &mut self) -> u32; }"),
        ("vfunc-receiver-not-first", "pub type V { vftable { pub fn g(a: u32, &self) -> u32; }, }"),
        ("vfunc-without-receiver", "pub type V { vftable { pub fn g(a: u32) -> u32; }, }"),
        ("enum-values-wider-than-32-bits", "pub enum E: i64 { A = -9223372036854775804, B = 5000000000, C, }\npub enum F: u64 { A = 0x100000000, B, }\n#[align(8)] pub type T { pub e: E, pub f: F, }"),
        ("void-by-value", "#[align(4)] pub type A { pub a: u32, pub v: void, pub b: u32, }"),
        ("void-only-field", "pub type B { pub v: void, }\n#[align(4)] pub type D { pub b: B, pub c: u32, }"),
        ("void-return", "pub type T { pub a: u32, }\nimpl T { #[address(0x1000)] pub fn f(&self) -> void; }"),
        ("void-parameter", "pub type T { pub a: u32, }\nimpl T { #[address(0x1000)] pub fn f(&self, v: void); }"),
        ("void-array", "#[align(1)] pub type T { pub a: [void; 4], pub b: u8, }"),
        ("void-extern-value", "#[address(0x7000)] pub extern nothing: void;"),
        ("type-named-like-builtin", "pub type u32 { pub a: u64, }\n#[align(8)] pub type Foo { pub x: u32, pub y: u32, }"),
        ("enum-named-like-builtin", "pub enum u8: u32 { A, }\n#[align(4)] pub type Foo { pub x: u8, pub y: [u8; 3], }"),
        ("extern-type-named-like-builtin", "#[size(16), align(8)] extern type u64;\npub type Foo { pub x: u64, }"),
        ("enum-over-shadowed-builtin", "#[align(2)] pub type u8 { pub x: u16, }\npub enum E: u8 { A = 0, B = 1, }\n#[size(4), align(4)] extern type u32;\npub enum F: u32 { A = 7, }\n#[align(4)] pub type Uses { pub e: E, pub pad: [u8; 3], pub f: F, }"),
        ("conflict-note-names-collide-across-types", "pub type Base { pub x: u32, }\npub type Ab { #[base] pub a: Base, #[base] pub b: Base, }\npub type AB { #[base] pub a: Base, #[base] pub b: Base, }"),
        ("type-named-option-next-to-a-singleton", "#[singleton(0x1234)] pub type Foo { pub x: u64, }\n#[align(4)] pub type Option { pub y: u32, }"),
        ("vfunc-named-underscore", "pub type Foo { vftable { fn _(&self); }, }"),
        ("impl-fn-named-underscore", "pub type Foo { pub a: u32, }\nimpl Foo { #[address(0x1000)] pub fn _(&self); }"),
        ("unnamed-second-base", "pub type A { pub x: u64, }\nimpl A { #[address(0x10)] pub fn fa(&self); }\npub type B { pub y: u64, }\nimpl B { #[address(0x20)] pub fn fb(&self); }\npub type D { #[base] pub a: A, #[base] _: B, }"),
        ("zero-case-enum", "pub enum E: u32 { }"),
        ("enum-over-user-type", "pub type S { pub v: u32, }\npub enum E: S { A = 0, }"),
        ("enum-over-float", "pub enum E: f32 { A = 0, }"),
        ("enum-over-bool", "pub enum E: bool { A = 0, B = 1, }"),
        ("enum-over-pointer", "pub enum E: *const u8 { A = 0, }"),
        ("enum-over-enum", "pub enum F: u8 { X, }\npub enum E: F { A = 0, }"),
        ("conflict-note-names-collide", "pub type X { pub v: u32, }\npub type Y { #[base] pub b: X, }\npub type Foo { #[base] pub a_b: X, #[base] pub a: Y, }"),
        ("conflict-note-names-collide-by-case", "pub type X { pub v: u32, }\npub type Foo { #[base] pub ab: X, #[base] pub aB: X, #[base] pub AB: X, }"),
        ("renamed-internal-base-fn", "pub type A { pub v: u32, }\nimpl A { #[address(0x10)] pub fn _x(&self); }\npub type B { pub v: u32, }\nimpl B { #[address(0x20)] pub fn _x(&self); }\npub type D { #[base] pub a: A, #[base] pub b: B, }"),
        ("base-field-with-underscore-and-clash", "pub type A { pub w: u32, }\nimpl A { #[address(0x10)] pub fn foo(&self) -> u32; }\npub type B { pub v: u32, }\nimpl B { #[address(0x20)] pub fn foo(&self) -> u32; }\npub type D { #[base] pub a: A, #[base] _b: B, }"),
        ("raw-and-plain-type", "pub type r#Foo { pub a: u32, }\npub type Foo { pub a: u32, }"),
        ("raw-and-plain-enum", "pub enum r#Foo: u32 { A, }\npub type Foo { pub a: u32, }"),
        ("raw-and-plain-extern-value", "#[address(0x10)] pub extern foo: u32;\n#[address(0x20)] pub extern r#foo: u64;"),
        ("raw-and-plain-parameter", "pub type T { pub a: u32, }\nimpl T { #[address(0x1000)] pub fn g(&self, a: u32, r#a: u32); }"),
        ("raw-parameter-named-f", "pub type T { pub a: u32, }\nimpl T { #[address(0x1000)] pub fn g(&self, r#f: u32) -> u32; }"),
        ("raw-and-plain-field", "pub type T { pub a: u32, pub r#a: u32, }"),
        ("raw-and-plain-variant", "pub enum E: u32 { A, r#A, }"),
        ("raw-and-plain-vfunc", "pub type V { vftable { pub fn go(&self); pub fn r#go(&self); }, }"),
        ("raw-and-plain-impl-fn", "pub type T { pub a: u32, }\nimpl T { #[address(0x1000)] pub fn go(&self); #[address(0x1040)] pub fn r#go(&self); }"),
        ("raw-and-plain-base-fn", "pub type A { pub w: u32, }\nimpl A { #[address(0x10)] pub fn bar(&self); }\npub type B { pub v: u32, }\nimpl B { #[address(0x20)] pub fn r#bar(&self); }\npub type D { #[base] pub a: A, #[base] pub b: B, }"),
        ("raw-field-named-vftable", "pub type V { vftable { pub fn f(&self); }, pub r#vftable: u64, }"),
        ("type-named-like-module-segment", "pub type kclash { pub x: u64, }\npub type U { pub k: kclash, }"),
        ("type-named-std", "pub type std { pub x: u32, }\npub type Other { #[base] pub s: std, }\nimpl Other { #[address(0x1000)] pub fn f(&self) -> u32; }"),
        ("type-named-core", "#[singleton(0x7000)] pub type core { pub x: u32, }\npub type Other { vftable { pub fn v(&self); }, pub s: core, }"),
    ];
    let mut out = vec![];
    for (k, (name, text)) in texts.iter().enumerate() {
        let text = text.replace("\\n", "\n");
        for ptrw in [8usize, 4] {
            let m = pyxis::parser::parse_str(&text).unwrap_or_else(|e| panic!("clash case {name} does not parse: {e:?}"));
            let id = format!("k{}_", first + out.len());
            let _ = k;
            out.push((id.clone(), vec![(ItemPath::from(format!("{id}clash_{}", name.replace('-', "_")).as_str()), m)], ptrw));
        }
    }
    out
}

/// Clashes and visibility across a module tree: a root module and one child module, handed over
/// in either order. `ROOT` in the text stands for the root module's path.
pub fn tree_clash_cases(first: usize) -> Vec<(String, Vec<(ItemPath, Module)>, usize)> {
    let cases: Vec<(&str, &str, &str, &str)> = vec![
        ("type-and-child-module-share-a-name", "pub type b { pub x: u32, }", "b", "pub type Inner { pub y: u32, }"),
        ("enum-and-child-module-share-a-name", "pub enum b: u32 { A, }", "b", "pub type Inner { pub y: u32, }"),
        ("generated-vftable-struct-and-child-module-share-a-name", "pub type Foo { vftable { pub fn f(&self); }, }", "FooVftable", "pub type Inner { pub y: u32, }"),
        ("private-base-field-across-modules", "pub type A { pub x: u32, }\npub type B { #[base] a: A, }", "~sib", "use ROOT::B;\npub type C { #[base] pub b: B, }"),
        ("private-base-field-two-levels-across-modules", "pub type A { pub x: u32, }\nimpl A { #[address(0x1000)] pub fn fa(&self) -> u32; }\npub type B { #[base] a: A, }\npub type B2 { #[base] pub b: B, }", "~sib", "use ROOT::B2;\npub type C { #[base] pub b2: B2, }"),
        ("private-vfunc-of-first-base-across-modules", "pub type Base { vftable { fn secret(&self); pub fn open(&self); }, }", "~sib", "use ROOT::Base;\npub type Derived { #[base] pub base: Base, }"),
        ("private-vfunc-of-later-base-across-modules", "pub type Base { vftable { fn secret(&self); pub fn open(&self); }, }", "~sib", "use ROOT::Base;\npub type First { pub x: u64, }\npub type Derived { #[base] pub first: First, #[base] pub base: Base, }"),
        ("private-impl-fn-of-base-across-modules", "pub type Base { pub x: u32, }\nimpl Base { #[address(0x1000)] fn hidden(&self); #[address(0x1040)] pub fn shown(&self); }", "~sib", "use ROOT::Base;\npub type Derived { #[base] pub base: Base, }"),
        ("private-field-type-across-modules", "pub type A { pub x: u32, }\npub type B { a: A, pub n: u32, }", "~sib", "use ROOT::B;\npub type C { pub b: B, pub p: *const B, }"),
    ];
    let mut out = vec![];
    for (name, root_text, child, child_text) in cases {
        for ptrw in [8usize, 4] {
            for child_first in [false, true] {
                let id = format!("k{}_", first + out.len());
                let root = format!("{id}clash_{}", name.replace('-', "_"));
                let parse = |t: &str| {
                    pyxis::parser::parse_str(&t.replace("\\n", "\n").replace("ROOT", &root)).unwrap_or_else(|e| panic!("tree clash case {name} does not parse: {e:?}"))
                };
                let mut mods = vec![
                    (ItemPath::from(root.as_str()), parse(root_text)),
                    // `~name`: a sibling of the root module (a child may see its ancestors' private items)
                    (ItemPath::from(match child.strip_prefix('~') { Some(sib) => format!("{root}_{sib}"), None => format!("{root}::{child}") }.as_str()), parse(child_text)),
                ];
                if child_first {
                    mods.reverse();
                }
                out.push((id, mods, ptrw));
            }
        }
    }
    out
}

/// Every combination of markers on an embedded item and on the type embedding it: whatever is
/// accepted must give derives the compiler can satisfy.
pub fn marker_matrix_cases(first: usize) -> Vec<(String, Vec<(ItemPath, Module)>, usize)> {
    let mut out = vec![];
    for inner_enum in [false, true] {
        for inner_mark in 0..3usize {
            for outer_mark in 0..3usize {
                for packed in [false, true] {
                    for defaultable in 0..3usize {
                        for shape in 0..3usize {
                            for cross in [false, true] {
                                let id = format!("k{}_", first + out.len());
                                let mark = |k: usize| -> Vec<Attribute> {
                                    match k {
                                        1 => vec![Attribute::cloneable()],
                                        2 => vec![Attribute::copyable()],
                                        _ => vec![],
                                    }
                                };
                                let mut ia = mark(inner_mark);
                                // 0: neither defaultable, 1: both, 2: only the outer one
                                if defaultable == 1 {
                                    ia.push(Attribute::defaultable());
                                }
                                let inner = if inner_enum {
                                    ItemDefinition::new(
                                        (Visibility::Public, "Inner"),
                                        EnumDefinition::new(
                                            Type::ident("u8"),
                                            [EnumStatement::field("A").with_attributes(if defaultable == 1 { vec![Attribute::default()] } else { vec![] }), EnumStatement::field("B")],
                                            Attributes(ia),
                                        ),
                                    )
                                } else {
                                    ia.push(Attribute::align(1));
                                    ItemDefinition::new((Visibility::Public, "Inner"), TypeDefinition::new([TypeStatement::field((Visibility::Public, "a"), Type::ident("u8"))]).with_attributes(Attributes(ia)))
                                };
                                let mut oa = mark(outer_mark);
                                if defaultable >= 1 {
                                    oa.push(Attribute::defaultable());
                                }
                                if packed {
                                    oa.push(Attribute::packed());
                                } else {
                                    oa.push(Attribute::align(8));
                                }
                                let fty = match shape {
                                    0 => Type::ident("Inner"),
                                    1 => Type::ident("Inner").array(3),
                                    _ => Type::ident("Inner").const_pointer(),
                                };
                                // sizes: value 1, array 3, pointer 8; pad to 16 with an explicit size
                                let outer = ItemDefinition::new(
                                    (Visibility::Public, "Outer"),
                                    TypeDefinition::new([
                                        TypeStatement::field((Visibility::Public, "len"), Type::ident("u64")),
                                        TypeStatement::field((Visibility::Public, "inner"), fty),
                                    ])
                                    .with_attributes(Attributes({
                                        let mut a = oa;
                                        a.push(Attribute::size(16));
                                        a
                                    })),
                                );
                                let mods = if cross {
                                    vec![
                                        (ItemPath::from(format!("{id}mi").as_str()), Module::new().with_definitions([inner])),
                                        (ItemPath::from(format!("{id}mo").as_str()), Module::new().with_uses([ItemPath::from(format!("{id}mi::Inner").as_str())]).with_definitions([outer])),
                                    ]
                                } else {
                                    vec![(ItemPath::from(format!("{id}mm").as_str()), Module::new().with_definitions([inner, outer]))]
                                };
                                out.push((id, mods, 8));
                            }
                        }
                    }
                }
            }
        }
    }
    out
}

pub fn run(ctx: &mut Ctx) {
    ctx.rule = "accepted multi-module programs from the rich generator with copyable/cloneable/defaultable drawn independently of the field types, cross-module by-value and pointer references between pub types, inheritance, singletons on types and enums, extern values, valid-Rust prologues/epilogues, plus dedicated marker/packed/enum-singleton/repeated-discriminant cases; every output must parse with syn and the assembled crate (module tree mirroring the input, extern types supplied as Copy+Clone+Default structs, ABI strings normalised) must pass rustc --emit=metadata on the host; the struct/enum definitions must also compile with nightly for i686-pc-windows-msvc. non-trivial = accepted program with >=2 modules and >=1 cross-module reference, or a dedicated case; distinct by structural hash".into();
    ctx.assumptions.push("documented fragment: power-of-two alignments, arrays and gaps of at most 32 bytes in defaultable types, only pub types referenced across modules, integer enum bases".into());
    let seed = ctx.seed;
    let n = ctx.tier.pick(900usize, 15_000);
    let mut inputs: Vec<(String, Vec<(ItemPath, Module)>, usize)> = (0..n)
        .into_par_iter()
        .map(|i| {
            let mut rng = Rng::derive(seed, 0x1300_0000 + i as u64);
            let id = format!("k{i}_");
            let ptrw = if i % 3 == 0 { 4 } else { 8 };
            let mut cfg = Cfg::rich(ptrw, &id);
            cfg.consistent_markers = i % 2 == 0;
            cfg.backends = true;
            let g = gen_prog::generate(&mut rng, &cfg);
            (id, g.mods, ptrw)
        })
        .collect();
    let nh = ctx.tier.pick(900usize, 15_000);
    let base_n = inputs.len();
    let hostile: Vec<(String, Vec<(ItemPath, Module)>, usize)> = (0..nh)
        .into_par_iter()
        .map(|i| {
            let mut rng = Rng::derive(seed, 0x1380_0000 + i as u64);
            let id = format!("k{}_", base_n + i);
            let ptrw = if i % 3 == 0 { 4 } else { 8 };
            let mut cfg = Cfg::rich(ptrw, &id);
            cfg.max_modules = 2;
            cfg.max_types = 3;
            let mut g = gen_prog::generate(&mut rng, &cfg);
            crate::hostile::perturb(&mut g.mods, &mut rng);
            (id, g.mods, ptrw)
        })
        .collect();
    ctx.count("hostile_variants", hostile.len() as u64);
    inputs.extend(hostile);
    let sp = special_cases(seed, inputs.len(), ctx.tier.pick(300, 4000));
    ctx.count("dedicated_cases", sp.len() as u64);
    inputs.extend(sp);
    inputs.extend(crate::gen_special::shadow_programs(inputs.len()));
    let mm = marker_matrix_cases(inputs.len());
    ctx.count("marker_matrix_cases", mm.len() as u64);
    inputs.extend(mm);
    let cl = clash_cases(inputs.len());
    ctx.count("name_clash_cases", cl.len() as u64);
    inputs.extend(cl);
    let tc = tree_clash_cases(inputs.len());
    ctx.count("tree_clash_cases", tc.len() as u64);
    inputs.extend(tc);

    let built: Vec<BuildOutcome> = inputs.par_iter().map(|(id, m, p)| l2::build_mods(id, m, *p)).collect();
    let mut accepted: Vec<Built> = vec![];
    for (o, inp) in built.into_iter().zip(inputs.iter()) {
        ctx.eval();
        match o {
            BuildOutcome::Built(b) => {
                if let Some(n) = inp.1[0].0.to_string().split("clash_").nth(1) {
                    ctx.count(&format!("name_clash_accepted/{n}"), 1);
                }
                accepted.push(b)
            }
            BuildOutcome::Rejected(_) => {
                if let Some(n) = inp.1[0].0.to_string().split("clash_").nth(1) {
                    ctx.count(&format!("name_clash_rejected/{n}"), 1);
                }
                ctx.count("rejected_by_pyxis", 1)
            }
            BuildOutcome::Unparsable { module, error, .. } => {
                ctx.violation("C13/output-not-parsable", &format!("`{module}`: {error}"), case_json(&inp.1, inp.2));
            }
        }
    }
    ctx.count("accepted", accepted.len() as u64);

    // host type-check in batches (all widths: the host check is about names, derives, visibility)
    let host_cases: Vec<&Built> = accepted.iter().filter(|b| b.ptrw == 8).collect();
    let chunks: Vec<Vec<&Built>> = host_cases.chunks(24).map(|c| c.to_vec()).collect();
    let results: Vec<Result<BTreeMap<usize, Vec<String>>, String>> = chunks
        .par_iter()
        .map(|chunk| {
            // errors in one case can hide others: iterate, dropping culprits
            let mut all: BTreeMap<usize, Vec<String>> = BTreeMap::new();
            let mut active: Vec<usize> = (0..chunk.len()).collect();
            for _ in 0..=chunk.len() {
                let sel: Vec<&Built> = active.iter().map(|i| chunk[*i]).collect();
                if sel.is_empty() {
                    break;
                }
                match typecheck(&sel) {
                    Ok(errs) if errs.is_empty() => break,
                    Ok(errs) => {
                        let bad: BTreeSet<usize> = errs.keys().map(|k| active[*k]).collect();
                        for (k, v) in errs {
                            all.entry(active[k]).or_default().extend(v);
                        }
                        active.retain(|i| !bad.contains(i));
                    }
                    Err(e) => return Err(e),
                }
            }
            Ok(all)
        })
        .collect();
    for (chunk, r) in chunks.iter().zip(results) {
        match r {
            Err(e) => {
                ctx.count("batch_inconclusive", 1);
                eprintln!("type-check batch inconclusive: {e}");
                ctx.inconclusive(crate::verdict::one_line(&e, 200));
            }
            Ok(errs) => {
                for (i, b) in chunk.iter().enumerate() {
                    ctx.count("crates_type_checked/host", 1);
                    if multi_module_crossref(b) || b.id.len() > 0 && b.mods.len() == 1 && b.mods[0].0.to_string().ends_with('s') {
                        ctx.nontrivial(structural_hash(&b.mods, &b.id));
                    }
                    if let Some(es) = errs.get(&i) {
                        let mut seen = BTreeSet::new();
                        for e in es {
                            let code = error_code(e);
                            if code == "E0277" && e.contains(": Default") && default_on_long_array(b) {
                                ctx.count("outside_fragment/default-on-array-longer-than-32", 1);
                                continue;
                            }
                            if seen.insert(code.clone()) {
                                ctx.violation(&format!("C13/compile-error/{code}"), e, case_json(&b.mods, b.ptrw));
                            }
                        }
                    }
                }
            }
        }
    }
    // i686 definitions
    let w4: Vec<&Built> = accepted.iter().filter(|b| b.ptrw == 4).collect();
    let chunks4: Vec<Vec<&Built>> = w4.chunks(40).map(|c| c.to_vec()).collect();
    let res4: Vec<Vec<(usize, Vec<String>)>> = chunks4
        .par_iter()
        .map(|chunk| {
            let run = |sel: &[&Built]| {
                let mut files = vec![];
                let mut externs = vec![];
                for b in sel {
                    for (mp, t) in &b.texts {
                        files.push((mp.clone(), t.clone()));
                    }
                    externs.extend(l2::extern_list(&b.mods));
                }
                let sc = probe::scratch("d686");
                crate::layoutdump::dump(&files, &externs, 4, &sc.path)
            };
            // the emitted transmute size checks cannot be compiled without std: compare their
            // literal with the size the compiler computes for the 32-bit target instead
            let size_checks = |b: &Built, res: &crate::layoutdump::DumpResult| -> Vec<String> {
                let mut out = vec![];
                for (mp, ef) in &b.efiles {
                    for f in &ef.fns {
                        if let crate::emitted::FnKind::SizeCheck { ty, size, .. } = &f.kind {
                            if let Some(o) = res.layouts.get(&format!("{mp}::{ty}")) {
                                if o.size != *size as u64 {
                                    out.push(format!("E0512 size check of `{mp}::{ty}` transmutes [u8; {size:#x}] but the type is {:#x} bytes on i686-pc-windows-msvc", o.size));
                                }
                            }
                        }
                    }
                }
                out
            };
            let whole = run(chunk);
            if whole.errors.is_empty() {
                return chunk.iter().enumerate().map(|(i, b)| (i, size_checks(b, &whole))).collect();
            }
            chunk
                .iter()
                .enumerate()
                .map(|(i, b)| {
                    let one = run(&[*b]);
                    let mut e = one.errors.clone();
                    e.extend(size_checks(b, &one));
                    (i, e)
                })
                .collect()
        })
        .collect();
    for (chunk, r) in chunks4.iter().zip(res4) {
        for (i, errs) in r {
            ctx.count("definition_sets_compiled/i686-pc-windows-msvc", 1);
            let b = chunk[i];
            if multi_module_crossref(b) {
                ctx.nontrivial(structural_hash(&b.mods, &b.id));
            }
            let mut seen = BTreeSet::new();
            for e in errs {
                let code = e.split_whitespace().next().unwrap_or("error").to_string();
                if seen.insert(code.clone()) {
                    ctx.violation(&format!("C13/i686-definitions/{code}"), &e, case_json(&b.mods, b.ptrw));
                }
            }
        }
    }
    if let Some(b) = accepted.iter().find(|b| multi_module_crossref(b)) {
        ctx.sample(json!({"case": case_json(&b.mods, b.ptrw)}));
    }
    if ctx.distinct_count() < ctx.tier.pick(60, 600) {
        ctx.inconclusive(format!("only {} distinct non-trivial programs", ctx.distinct_count()));
    }
}

pub fn replay(ctx: &mut Ctx, case: &Value) {
    let Ok((mods, ptrw)) = mods_from_case(case) else {
        ctx.inconclusive("replay case does not parse");
        return;
    };
    ctx.eval();
    let first = mods.first().map(|m| m.0.to_string()).unwrap_or_default();
    let id = match first.find('_') {
        Some(i) => first[..=i].to_string(),
        None => first.clone(),
    };
    match l2::build_mods(&id, &mods, ptrw) {
        BuildOutcome::Built(b) => match typecheck(&[&b]) {
            Ok(errs) => {
                for (_, es) in errs {
                    if let Some(e) = es.first() {
                        ctx.violation(&format!("C13/compile-error/{}", error_code(e)), e, case.clone());
                    }
                }
            }
            Err(e) => println!("replay inconclusive: {e}"),
        },
        BuildOutcome::Rejected(e) => println!("replay: rejected by pyxis: {}", e.msg),
        BuildOutcome::Unparsable { module, error, .. } => ctx.violation("C13/output-not-parsable", &format!("{module}: {error}"), case.clone()),
    }
}
