//! C18 — parsing is the inverse of printing for every well-formed module.
//!
//! Events: (abstract module M, rendered text, value returned by parse_str).
//! Oracle: parse_str(render(M)) == M (derived PartialEq on the grammar types);
//! texts broken on purpose must be rejected with a usable position.

use crate::gen_ast;
use crate::render::{self, Style, Tok};
use crate::rng::{fnv, Rng};
use crate::verdict::Ctx;
use pyxis::grammar::Module;
use rayon::prelude::*;
use serde_json::json;

pub enum Res {
    Ok { nontrivial: bool, hash: u64, sample: Option<serde_json::Value> },
    Bad { sig: String, detail: String, case: serde_json::Value },
}

fn first_diff(a: &str, b: &str) -> String {
    let la: Vec<&str> = a.lines().collect();
    let lb: Vec<&str> = b.lines().collect();
    for i in 0..la.len().max(lb.len()) {
        let x = la.get(i).copied().unwrap_or("<eof>");
        let y = lb.get(i).copied().unwrap_or("<eof>");
        if x != y {
            return format!("line {}: expected `{}` parsed `{}`", i + 1, x.trim(), y.trim());
        }
    }
    "no textual difference in Debug output".into()
}

pub fn roundtrip(m: &Module, text: &str, how: &str) -> Result<(), (String, String)> {
    let parsed = crate::drive::guarded(|| pyxis::parser::parse_str(text));
    match parsed {
        Err(p) => Err((format!("C18/roundtrip/panic/{how}"), format!("parser panicked: {p}"))),
        Ok(Err(e)) => {
            let lc = e.span().start();
            Err((
                format!("C18/roundtrip/rejected/{how}"),
                format!("well-formed module rejected at {}:{}: {e}", lc.line, lc.column + 1),
            ))
        }
        Ok(Ok(m2)) => {
            if &m2 == m {
                Ok(())
            } else {
                let d = first_diff(&format!("{m:#?}"), &format!("{m2:#?}"));
                Err((format!("C18/roundtrip/different/{how}"), d))
            }
        }
    }
}

/// Break a token stream so that the text is certainly not a module of the language.
/// Returns (kind, broken tokens) or None if the mutation does not apply.
pub fn mutate(toks: &[Tok], rng: &mut Rng) -> Option<(&'static str, Vec<Tok>)> {
    let kind = rng.below(13);
    let mut t = toks.to_vec();
    let positions = |pred: &dyn Fn(&Tok) -> bool| -> Vec<usize> {
        toks.iter().enumerate().filter(|(_, x)| pred(x)).map(|(i, _)| i).collect()
    };
    match kind {
        0 => {
            // drop a closing delimiter
            let ps = positions(&|x| matches!(x, Tok::Punct("}") | Tok::Punct(")") | Tok::Punct("]")));
            if ps.is_empty() {
                return None;
            }
            t.remove(*rng.pick(&ps));
            Some(("unbalanced-close", t))
        }
        1 => {
            // drop an opening delimiter
            let ps = positions(&|x| matches!(x, Tok::Punct("{") | Tok::Punct("(") | Tok::Punct("[")));
            if ps.is_empty() {
                return None;
            }
            t.remove(*rng.pick(&ps));
            Some(("unbalanced-open", t))
        }
        2 => {
            // `super` in a use path
            let ps = positions(&|x| matches!(x, Tok::Word(w) if w == "use"));
            if ps.is_empty() {
                return None;
            }
            let i = *rng.pick(&ps);
            t.insert(i + 1, Tok::Word("super".into()));
            t.insert(i + 2, Tok::Punct("::"));
            Some(("super-in-path", t))
        }
        3 => {
            // drop the `:` of a field / argument / enum base
            let ps = positions(&|x| matches!(x, Tok::Punct(":")));
            if ps.is_empty() {
                return None;
            }
            t.remove(*rng.pick(&ps));
            Some(("missing-colon", t))
        }
        4 => {
            // negative literal
            let ps: Vec<usize> = toks
                .iter()
                .enumerate()
                .filter(|(i, x)| {
                    // only array lengths and unknown<N>: attribute and enum values may be negative
                    matches!(x, Tok::Word(w) if w.chars().next().is_some_and(|c| c.is_ascii_digit()))
                        && *i > 0
                        && matches!(&toks[*i - 1], Tok::Punct(";") | Tok::Punct("<"))
                        && matches!(toks.get(*i + 1), Some(Tok::Punct("]")) | Some(Tok::Punct(">")))
                })
                .map(|(i, _)| i)
                .collect();
            if ps.is_empty() {
                return None;
            }
            t.insert(*rng.pick(&ps), Tok::Punct("-"));
            Some(("negative-literal", t))
        }
        5 => {
            // keyword as the name of an item
            let ps = positions(&|x| matches!(x, Tok::Word(w) if w == "type" || w == "enum" || w == "impl" || w == "fn"));
            if ps.is_empty() {
                return None;
            }
            let i = *rng.pick(&ps);
            if let Some(Tok::Word(_)) = t.get(i + 1) {
                t[i + 1] = Tok::Word(rng.pick(&["fn", "struct", "match", "self", "pub"]).to_string());
                Some(("keyword-as-name", t))
            } else {
                None
            }
        }
        6 => {
            // misspelt item keyword
            let ps = positions(&|x| matches!(x, Tok::Word(w) if w == "type" || w == "enum" || w == "impl" || w == "use"));
            if ps.is_empty() {
                return None;
            }
            let i = *rng.pick(&ps);
            // only when the keyword starts an item (previous token ends an item or is a visibility/attribute end)
            let prev_ok = i == 0
                || matches!(&toks[i - 1], Tok::Punct("}") | Tok::Punct(";") | Tok::Punct("]") | Tok::DocLine(_))
                || matches!(&toks[i - 1], Tok::Word(w) if w == "pub");
            if !prev_ok {
                return None;
            }
            if let Tok::Word(w) = &toks[i] {
                if w == "type" && i > 0 && matches!(&toks[i - 1], Tok::Word(p) if p == "extern") {
                    return None;
                }
            }
            t[i] = Tok::Word(rng.pick(&["typ", "enumm", "implement", "uses", "struct"]).to_string());
            Some(("misspelt-keyword", t))
        }
        7 => {
            // an integer that does not fit the language's integer type (isize / usize)
            let ps: Vec<usize> = toks
                .iter()
                .enumerate()
                .filter(|(_, x)| matches!(x, Tok::Word(w) if w.chars().next().is_some_and(|c| c.is_ascii_digit())))
                .map(|(i, _)| i)
                .collect();
            if ps.is_empty() {
                return None;
            }
            let i = *rng.pick(&ps);
            let in_usize_position = i > 0 && matches!(&toks[i - 1], Tok::Punct(";") | Tok::Punct("<"));
            let big = if in_usize_position {
                // array lengths and unknown<N> are usize
                *rng.pick(&["18446744073709551616", "0x1_0000_0000_0000_0000", "340282366920938463463374607431768211455"])
            } else {
                *rng.pick(&["9223372036854775808", "0x8000_0000_0000_0000", "0xFFFF_FFFF_FFFF_FFFF", "18446744073709551615", "18446744073709551616", "340282366920938463463374607431768211455"])
            };
            t[i] = Tok::Word(big.to_string());
            Some(("integer-out-of-range", t))
        }
        9 | 12 => {
            // a name where a type or a path segment was already complete: `a: u32 u32`, `use a b;`,
            // or a stray closing angle bracket after it: `a: Foo>`
            let is_name = |x: &Tok| matches!(x, Tok::Word(w) if w.chars().next().is_some_and(|c| c.is_alphabetic())
                && !["pub", "fn", "type", "enum", "impl", "use", "extern", "const", "mut", "self", "vftable", "unknown", "backend", "prologue", "epilogue", "super"].contains(&w.as_str()));
            let ps: Vec<usize> = toks
                .iter()
                .enumerate()
                .filter(|(i, x)| {
                    is_name(x)
                        && *i > 0
                        && (matches!(&toks[*i - 1], Tok::Punct(":") | Tok::Punct("::") | Tok::Punct("->")) || matches!(&toks[*i - 1], Tok::Word(w) if w == "use" || w == "const" || w == "mut"))
                        && !matches!(toks.get(*i + 1), Some(Tok::Punct("<")) | Some(Tok::Punct("::")))
                })
                .map(|(i, _)| i)
                .collect();
            if ps.is_empty() {
                return None;
            }
            let i = *rng.pick(&ps);
            if kind == 9 {
                let again = t[i].clone();
                t.insert(i + 1, again);
                Some(("adjacent-names", t))
            } else {
                t.insert(i + 1, Tok::Punct(">"));
                Some(("stray-closing-angle", t))
            }
        }
        10 => {
            // a `use` without a path
            t.push(Tok::Word("use".into()));
            t.push(Tok::Punct(";"));
            Some(("empty-use-path", t))
        }
        11 => {
            // `a::::b`, or a path that starts or ends with the separator
            let ps = positions(&|x| matches!(x, Tok::Punct("::")));
            if ps.is_empty() {
                return None;
            }
            let i = *rng.pick(&ps);
            t.insert(i, Tok::Punct("::"));
            Some(("doubled-path-separator", t))
        }
        _ => {
            // stray token where nothing can start or continue
            let i = rng.below(toks.len() + 1);
            // not inside a doc line; `%` is not a token of the language anywhere
            t.insert(i, Tok::Punct("%"));
            Some(("stray-percent", t))
        }
    }
}

fn check_position(text: &str, e: &syn::Error) -> Result<(), String> {
    let lc = e.span().start();
    let nlines = text.lines().count().max(1);
    if lc.line < 1 || lc.line > nlines + 1 {
        return Err(format!(
            "error position line {} outside 1..={} ({e})",
            lc.line,
            nlines + 1
        ));
    }
    let len = text.lines().nth(lc.line - 1).map(|l| l.chars().count()).unwrap_or(0);
    if lc.column > len {
        return Err(format!(
            "error position column {} beyond line length {} on line {} ({e})",
            lc.column + 1,
            len,
            lc.line
        ));
    }
    Ok(())
}

fn one(seed: u64, idx: u64) -> Vec<Res> {
    let mut rng = Rng::derive(seed, idx);
    let m = gen_ast::module(&mut rng);
    let mut out = vec![];
    let (kinds, depth) = gen_ast::shape(&m);
    let nontrivial = kinds >= 3 && depth >= 2;
    let hash = fnv(format!("{m:?}").as_bytes());

    let plain = render::render_plain(&m);
    if let Err((sig, detail)) = roundtrip(&m, &plain, "plain") {
        out.push(Res::Bad {
            sig,
            detail,
            case: json!({"text": plain, "ast_debug": format!("{m:?}")}),
        });
    }
    let mut last_text = String::new();
    for _ in 0..2 {
        let text = render::render_random(&m, &mut rng);
        if let Err((sig, detail)) = roundtrip(&m, &text, "random") {
            out.push(Res::Bad {
                sig,
                detail,
                case: json!({"text": text, "ast_debug": format!("{m:?}")}),
            });
        }
        last_text = text;
    }

    // negative: broken texts must be rejected with a position
    let toks = {
        let mut st = Style::random(&mut rng);
        st.allow_negative = false;
        render::module_toks(&m, &mut st)
    };
    if !toks.is_empty() {
        for _ in 0..2 {
            if let Some((kind, broken)) = mutate(&toks, &mut rng) {
                let text = render::join(&broken, &mut Style::random(&mut rng));
                let parsed = crate::drive::guarded(|| pyxis::parser::parse_str(&text));
                match parsed {
                    Err(p) => out.push(Res::Bad {
                        sig: format!("C18/negative/panic/{kind}"),
                        detail: format!("parser panicked: {p}"),
                        case: json!({"text": text, "mutation": kind}),
                    }),
                    Ok(Ok(_)) => out.push(Res::Bad {
                        sig: format!("C18/negative/accepted/{kind}"),
                        detail: "text that is not a module of the language was accepted".into(),
                        case: json!({"text": text, "mutation": kind}),
                    }),
                    Ok(Err(e)) => {
                        if let Err(d) = check_position(&text, &e) {
                            out.push(Res::Bad {
                                sig: format!("C18/negative/position/{kind}"),
                                detail: d,
                                case: json!({"text": text, "mutation": kind}),
                            });
                        } else {
                            out.push(Res::Ok {
                                nontrivial: false,
                                hash: 0,
                                sample: None,
                            });
                        }
                    }
                }
            }
        }
    }
    out.push(Res::Ok {
        nontrivial,
        hash,
        sample: (idx < 2).then(|| json!({"text": last_text, "item_kinds": kinds, "type_nesting": depth})),
    });
    out
}

/// Parse a real file, print it, parse again: print∘parse must be the identity on ASTs.
fn corpus_roundtrip(ctx: &mut Ctx) {
    let mut files = vec![];
    for dir in ["/repo/codegen_tests/input"] {
        if let Ok(rd) = std::fs::read_dir(dir) {
            for e in rd.flatten() {
                if e.path().extension().is_some_and(|x| x == "pyxis") {
                    files.push(e.path());
                }
            }
        }
    }
    files.sort();
    let mut rng = Rng::derive(ctx.seed, 0xC0);
    for f in files {
        let Ok(text) = std::fs::read_to_string(&f) else { continue };
        let Ok(Ok(m)) = crate::drive::guarded(|| pyxis::parser::parse_str(&text)) else {
            ctx.count("corpus_unparsable", 1);
            continue;
        };
        ctx.eval();
        ctx.count("corpus_files", 1);
        for how in 0..4 {
            let t2 = if how == 0 {
                render::render_plain(&m)
            } else {
                render::render_random(&m, &mut rng)
            };
            if let Err((sig, detail)) = roundtrip(&m, &t2, "corpus") {
                ctx.violation(&sig, &detail, json!({"file": f.display().to_string(), "text": t2}));
            }
        }
    }
}

pub fn run(ctx: &mut Ctx) {
    ctx.rule = "abstract modules drawn over the whole grammar (all item kinds, three attribute shapes with 0-3 arguments, type nesting <=5, `_` fields, vftable/impl blocks, extern types incl. Name<Arg>, use paths depth 1-4, three backend forms), each printed canonically and twice with random whitespace/comments/trailing separators/number bases/doc sugar/raw strings and compared with parse_str's result; plus 2 deliberately broken texts per module (unbalanced delimiter, super in path, missing colon, negative literal, keyword as name, misspelt keyword, stray token) that must be rejected with an in-range line:column. non-trivial = module with >=3 item kinds and type nesting >=2; distinct by hash of the AST".into();
    ctx.assumptions.push("the printer in harness/src/render.rs is the definition of 'written out in concrete syntax'".into());
    let n: u64 = ctx.tier.pick(4_000, 150_000);
    let seed = ctx.seed;
    let results: Vec<Vec<Res>> = (0..n).into_par_iter().map(|i| one(seed, i)).collect();
    for rs in results {
        ctx.eval();
        for r in rs {
            match r {
                Res::Ok { nontrivial, hash, sample } => {
                    if nontrivial {
                        ctx.nontrivial(hash);
                        ctx.count("roundtrips_equal", 1);
                    } else if hash == 0 {
                        ctx.count("broken_texts_rejected_with_position", 1);
                    } else {
                        ctx.count("roundtrips_equal", 1);
                    }
                    if let Some(s) = sample {
                        ctx.sample(s);
                    }
                }
                Res::Bad { sig, detail, case } => ctx.violation(&sig, &detail, case),
            }
        }
    }
    corpus_roundtrip(ctx);
    let floor = ctx.tier.pick(500, 5000);
    if ctx.distinct_count() < floor {
        ctx.inconclusive(format!("only {} distinct non-trivial modules (< {floor})", ctx.distinct_count()));
    }
}

pub fn replay(ctx: &mut Ctx, case: &serde_json::Value) {
    // A replay case carries the text and (for round trips) the Debug form of the AST.
    let text = case["text"].as_str().unwrap_or("");
    let parsed = crate::drive::guarded(|| pyxis::parser::parse_str(text));
    ctx.eval();
    match parsed {
        Err(p) => ctx.violation("C18/replay/panic", &p, case.clone()),
        Ok(Ok(m)) => {
            if let Some(dbg) = case["ast_debug"].as_str() {
                if format!("{m:?}") != dbg {
                    ctx.violation("C18/replay/different", "parsed module differs from recorded AST", case.clone());
                }
            } else {
                ctx.violation("C18/replay/accepted", "broken text accepted", case.clone());
            }
        }
        Ok(Err(e)) => {
            if case["ast_debug"].is_string() {
                ctx.violation("C18/replay/rejected", &e.to_string(), case.clone());
            } else if let Err(d) = check_position(text, &e) {
                ctx.violation("C18/replay/position", &d, case.clone());
            }
        }
    }
}
