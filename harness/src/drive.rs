//! Running pyxis itself (layer L1): in-process through the public API under
//! `catch_unwind`, with optional hook trace and work-list scheduler, and through
//! `pyxis::build` on real directory trees.

use std::cell::RefCell;
use std::collections::BTreeMap;
use std::panic::{catch_unwind, AssertUnwindSafe};
use std::path::{Path, PathBuf};
use std::rc::Rc;
use std::sync::atomic::{AtomicU64, Ordering};

use pyxis::grammar::{self, ItemPath};
use pyxis::semantic::{ResolvedSemanticState, SemanticState};
use pyxis::verif::Event;

#[derive(Debug, Clone, Copy, PartialEq, Eq, Hash, PartialOrd, Ord)]
pub enum Stage {
    Parse,
    AddModule,
    Build,
    Write,
    Panic,
}

#[derive(Debug, Clone)]
pub struct BuildErr {
    pub stage: Stage,
    pub msg: String,
}

pub struct BuildOk {
    /// relative output path ("a/b.rs") -> content
    pub files: BTreeMap<String, String>,
    /// behind a lock: results are shared between worker threads, and nothing promises that the
    /// resolved state stays `Sync` (a lookup cache in a `RefCell` is a realistic change)
    pub state: std::sync::Mutex<ResolvedSemanticState>,
}

pub type Scheduler = Box<dyn FnMut(Vec<ItemPath>) -> Vec<ItemPath>>;

#[derive(Default)]
pub struct Opts {
    pub trace: bool,
    pub scheduler: Option<Scheduler>,
    /// order in which modules are handed to write_module (indices into the module list)
    pub write_order: Option<Vec<usize>>,
    /// skip the backend entirely (semantic result only)
    pub no_emit: bool,
}

pub struct Outcome {
    pub result: Result<BuildOk, BuildErr>,
    pub trace: Vec<Event>,
}

thread_local! {
    /// set by the trace sink when a key that did not exist before was registered
    static NEW_KEY: std::cell::Cell<bool> = const { std::cell::Cell::new(false) };
}

/// true once after a new registry key was observed (used by re-drawing schedulers)
pub fn take_new_key_flag() -> bool {
    NEW_KEY.with(|f| f.replace(false))
}

thread_local! {
    static LAST_PANIC: RefCell<Option<String>> = const { RefCell::new(None) };
    static QUIET: RefCell<bool> = const { RefCell::new(false) };
}

/// Install a process-wide panic hook that records the message and location in a
/// thread local and stays silent while a driver call is in flight.
pub fn install_panic_hook() {
    let prev = std::panic::take_hook();
    std::panic::set_hook(Box::new(move |info| {
        let quiet = QUIET.with(|q| *q.borrow());
        let msg = if let Some(s) = info.payload().downcast_ref::<&str>() {
            s.to_string()
        } else if let Some(s) = info.payload().downcast_ref::<String>() {
            s.clone()
        } else {
            "<non-string panic>".to_string()
        };
        let loc = info
            .location()
            .map(|l| format!("{}:{}:{}", l.file(), l.line(), l.column()))
            .unwrap_or_default();
        LAST_PANIC.with(|p| *p.borrow_mut() = Some(format!("{msg} @ {loc}")));
        if !quiet {
            prev(info);
        }
    }));
}

/// Threads that are inside a call into pyxis right now, with the time they entered it.
static IN_PYXIS: std::sync::Mutex<Vec<(std::thread::ThreadId, std::time::Instant)>> = std::sync::Mutex::new(Vec::new());

/// How long one call into pyxis (parse, add_module, build, write_module: milliseconds) may
/// take before the whole check gives up. A thread cannot be killed, so the process ends:
/// INCONCLUSIVE (exit 2), never a verdict — C12's workers are the ones that turn a build
/// that does not return into a violation.
pub const PYXIS_CALL_LIMIT_SECS: u64 = 300;

/// Started once by `main`: ends the process when a call into pyxis has not returned in time.
pub fn start_call_watchdog(prop: String) {
    std::thread::spawn(move || loop {
        std::thread::sleep(std::time::Duration::from_secs(5));
        let stuck = IN_PYXIS.lock().map(|v| v.iter().any(|(_, since)| since.elapsed().as_secs() > PYXIS_CALL_LIMIT_SECS)).unwrap_or(false);
        if stuck {
            println!("INCONCLUSIVE property={prop} reason=a call into pyxis did not return within {PYXIS_CALL_LIMIT_SECS} s (calls take milliseconds); the check cannot go on");
            println!("{prop} INCONCLUSIVE (watchdog)");
            std::process::exit(2);
        }
    });
}

pub fn guarded<T>(f: impl FnOnce() -> T) -> Result<T, String> {
    QUIET.with(|q| *q.borrow_mut() = true);
    LAST_PANIC.with(|p| *p.borrow_mut() = None);
    let me = std::thread::current().id();
    if let Ok(mut v) = IN_PYXIS.lock() {
        v.push((me, std::time::Instant::now()));
    }
    let r = catch_unwind(AssertUnwindSafe(f));
    if let Ok(mut v) = IN_PYXIS.lock() {
        if let Some(i) = v.iter().rposition(|(t, _)| *t == me) {
            v.remove(i);
        }
    }
    QUIET.with(|q| *q.borrow_mut() = false);
    match r {
        Ok(v) => Ok(v),
        Err(_) => Err(LAST_PANIC
            .with(|p| p.borrow_mut().take())
            .unwrap_or_else(|| "<panic without message>".into())),
    }
}

static SCRATCH_COUNTER: AtomicU64 = AtomicU64::new(0);

pub fn scratch_base() -> PathBuf {
    if let Ok(p) = std::env::var("PVH_SCRATCH") {
        return PathBuf::from(p);
    }
    if Path::new("/dev/shm").is_dir() {
        return PathBuf::from("/dev/shm");
    }
    std::env::temp_dir()
}

/// A scratch directory removed on drop.
pub struct Scratch {
    pub path: PathBuf,
    pub keep: bool,
}
impl Scratch {
    pub fn new(label: &str) -> Scratch {
        let n = SCRATCH_COUNTER.fetch_add(1, Ordering::Relaxed);
        let path = scratch_base().join(format!("pvh-{}-{}-{}", std::process::id(), label, n));
        let _ = std::fs::remove_dir_all(&path);
        std::fs::create_dir_all(&path).expect("create scratch dir");
        Scratch { path, keep: std::env::var_os("PVH_KEEP").is_some() }
    }
}
impl Drop for Scratch {
    fn drop(&mut self) {
        if !self.keep {
            let _ = std::fs::remove_dir_all(&self.path);
        }
    }
}

pub fn chain_msg(e: &anyhow::Error) -> String {
    let mut s = String::new();
    for (i, c) in e.chain().enumerate() {
        if i > 0 {
            s.push_str("\n");
        }
        s.push_str(&c.to_string());
    }
    s
}

fn collect_files(dir: &Path, rel: &str, out: &mut BTreeMap<String, String>) {
    let Ok(rd) = std::fs::read_dir(dir) else { return };
    for e in rd.flatten() {
        let name = e.file_name().to_string_lossy().to_string();
        let relp = if rel.is_empty() {
            name.clone()
        } else {
            format!("{rel}/{name}")
        };
        let p = e.path();
        if p.is_dir() {
            collect_files(&p, &relp, out);
        } else {
            let bytes = std::fs::read(&p).unwrap_or_default();
            out.insert(relp, String::from_utf8_lossy(&bytes).into_owned());
        }
    }
}

pub fn read_tree(dir: &Path) -> BTreeMap<String, String> {
    let mut out = BTreeMap::new();
    collect_files(dir, "", &mut out);
    out
}

/// Build from abstract modules through `add_module` / `build` / `write_module`.
pub fn build_modules(mods: &[(ItemPath, grammar::Module)], ptrw: usize, mut opts: Opts) -> Outcome {
    let trace: Rc<RefCell<Vec<Event>>> = Rc::new(RefCell::new(vec![]));
    {
        // every in-process build runs under an iteration bound, so that a resolution loop that
        // stopped terminating shows up as a (guarded) panic instead of hanging the check
        let t = trace.clone();
        let keep = opts.trace;
        NEW_KEY.with(|f| f.set(false));
        let mut bound = IterationBound::default();
        pyxis::verif::set_sink(Some(Box::new(move |e| {
            bound.observe(&e);
            if keep {
                if let Event::RegistryAdd { replaced: pyxis::verif::Replaced::None, .. } = &e {
                    NEW_KEY.with(|f| f.set(true));
                }
                t.borrow_mut().push(e)
            }
        })));
    }
    if let Some(s) = opts.scheduler.take() {
        pyxis::verif::set_scheduler(Some(s));
    }
    let write_order = opts.write_order.take();
    let no_emit = opts.no_emit;

    let r = guarded(|| -> Result<BuildOk, BuildErr> {
        let mut st = SemanticState::new(ptrw);
        for (path, m) in mods {
            st.add_module(m, path).map_err(|e| BuildErr {
                stage: Stage::AddModule,
                msg: chain_msg(&e),
            })?;
        }
        let resolved = st.build().map_err(|e| BuildErr {
            stage: Stage::Build,
            msg: chain_msg(&e),
        })?;
        let mut files = BTreeMap::new();
        if !no_emit {
            let scratch = Scratch::new("out");
            let order: Vec<usize> = write_order.unwrap_or_else(|| (0..mods.len()).collect());
            for i in order {
                let (path, _) = &mods[i];
                let module = resolved.modules().get(path).ok_or_else(|| BuildErr {
                    stage: Stage::Write,
                    msg: format!("module `{path}` missing from resolved state"),
                })?;
                pyxis::backends::rust::write_module(&scratch.path, path, &resolved, module).map_err(
                    |e| BuildErr {
                        stage: Stage::Write,
                        msg: chain_msg(&e),
                    },
                )?;
            }
            files = read_tree(&scratch.path);
        }
        Ok(BuildOk {
            files,
            state: std::sync::Mutex::new(resolved),
        })
    });
    pyxis::verif::set_sink(None);
    pyxis::verif::set_scheduler(None);
    let result = match r {
        Ok(r) => r,
        Err(p) => Err(BuildErr {
            stage: Stage::Panic,
            msg: p,
        }),
    };
    let trace = std::mem::take(&mut *trace.borrow_mut());
    release_spans();
    Outcome { result, trace }
}

/// proc-macro2 keeps the text of everything parsed on a thread (for span locations) until it is
/// told to let go; a check makes hundreds of thousands of builds per thread. Only called where
/// nothing that holds a span (a `syn::Error`, a token) is alive any more.
pub fn release_spans() {
    proc_macro2::extra::invalidate_current_thread_spans();
}

/// Online bound on the resolution loop: every iteration but the last resolves an item or
/// generates a vftable struct, so iteration n can only start while
/// n <= unresolved items at the start + structs generated since + 1.
#[derive(Default)]
pub struct IterationBound {
    first: usize,
    generated: usize,
    started: bool,
}

impl IterationBound {
    pub fn observe(&mut self, e: &Event) {
        match e {
            Event::IterationStart { n, worklist } => {
                if *n == 1 {
                    self.first = worklist.len();
                    self.generated = 0;
                    self.started = true;
                }
                if *n > self.first + self.generated + 1 {
                    panic!(
                        "ITERATION-BOUND-EXCEEDED: iteration {n} with {} unresolved items at the start and {} generated since",
                        self.first, self.generated
                    );
                }
            }
            Event::RegistryAdd { .. } if self.started => self.generated += 1,
            _ => {}
        }
    }
}

/// relative file path ("a/b.pyxis") -> module path, as the property describes it
pub fn module_path_of(rel: &str) -> ItemPath {
    let no_ext = rel.strip_suffix(".pyxis").unwrap_or(rel);
    ItemPath::from(no_ext.replace('/', "::").as_str())
}

/// Build from texts: parse each with the real parser, then as `build_modules`.
pub fn build_texts(files: &[(String, String)], ptrw: usize, opts: Opts) -> Outcome {
    let mut mods = vec![];
    for (rel, text) in files {
        let parsed = guarded(|| pyxis::parser::parse_str(text));
        match parsed {
            Err(p) => {
                return Outcome {
                    result: Err(BuildErr {
                        stage: Stage::Panic,
                        msg: p,
                    }),
                    trace: vec![],
                }
            }
            Ok(Err(e)) => {
                let lc = e.span().start();
                return Outcome {
                    result: Err(BuildErr {
                        stage: Stage::Parse,
                        msg: format!("{rel}:{}:{}: {e}", lc.line, lc.column + 1),
                    }),
                    trace: vec![],
                };
            }
            Ok(Ok(m)) => mods.push((module_path_of(rel), m)),
        }
    }
    build_modules(&mods, ptrw, opts)
}

/// Write a file set to a fresh directory tree.
pub fn write_tree(dir: &Path, files: &[(String, String)]) {
    for (rel, text) in files {
        let p = dir.join(rel);
        if let Some(parent) = p.parent() {
            std::fs::create_dir_all(parent).unwrap();
        }
        std::fs::write(p, text).unwrap();
    }
}

/// `pyxis::build(in_dir, out_dir, ptrw)` on a real tree; returns output tree.
pub fn build_dir(files: &[(String, String)], ptrw: usize) -> Result<BTreeMap<String, String>, BuildErr> {
    let scratch = Scratch::new("dir");
    let in_dir = scratch.path.join("in");
    let out_dir = scratch.path.join("out");
    std::fs::create_dir_all(&in_dir).unwrap();
    std::fs::create_dir_all(&out_dir).unwrap();
    write_tree(&in_dir, files);
    // the output directory is not empty: every file the build is going to write is already
    // there, longer than anything pyxis writes for it, full of items that must not survive
    for (rel, _) in files {
        if let Some(stem) = rel.strip_suffix(".pyxis") {
            let p = out_dir.join(format!("{stem}.rs"));
            if let Some(parent) = p.parent() {
                let _ = std::fs::create_dir_all(parent);
            }
            let mut stale = String::new();
            for k in 0..4000 {
                stale.push_str(&format!("pub struct __StaleLeftover{k};\n"));
            }
            let _ = std::fs::write(p, stale);
        }
    }
    let mut bound = IterationBound::default();
    pyxis::verif::set_sink(Some(Box::new(move |e| bound.observe(&e))));
    let r = guarded(|| pyxis::build(&in_dir, &out_dir, ptrw));
    pyxis::verif::set_sink(None);
    let r = match r {
        Err(p) => Err(BuildErr {
            stage: Stage::Panic,
            msg: p,
        }),
        Ok(Err(e)) => Err(BuildErr {
            stage: Stage::Build,
            msg: chain_msg(&e),
        }),
        Ok(Ok(())) => Ok(read_tree(&out_dir)),
    };
    release_spans();
    r
}

pub fn item_path(s: &str) -> ItemPath {
    ItemPath::from(s)
}
