//! EmittedModel: a syn-based reading of the `.rs` text pyxis writes.
//!
//! Observation instrument only: it records what text was produced (items,
//! fields, visibility, attributes, docs, wrapper bodies); the monitors decide.

use quote::ToTokens;
use syn::{Expr, Item, Type};

#[derive(Debug, Clone, Default)]
pub struct EField {
    pub name: String,
    pub public: bool,
    pub ty: String,
    pub docs: Vec<String>,
    /// for fn-pointer fields
    pub fnptr: Option<EFnPtr>,
}

#[derive(Debug, Clone, Default, PartialEq)]
pub struct EFnPtr {
    pub unsafe_: bool,
    pub abi: Option<String>,
    pub params: Vec<(String, String)>,
    pub ret: Option<String>,
}

#[derive(Debug, Clone, Default)]
pub struct EStruct {
    pub name: String,
    pub public: bool,
    pub repr: Vec<String>,
    pub derives: Vec<String>,
    pub docs: Vec<String>,
    pub fields: Vec<EField>,
    pub index: usize,
}

#[derive(Debug, Clone, Default)]
pub struct EVariant {
    pub name: String,
    pub discr: Option<String>,
    /// literal value when the discriminant is `<int literal> as _` or a literal
    pub value: Option<i128>,
    pub is_default: bool,
    pub docs: Vec<String>,
}

#[derive(Debug, Clone, Default)]
pub struct EEnum {
    pub name: String,
    pub public: bool,
    pub repr: Vec<String>,
    pub derives: Vec<String>,
    pub docs: Vec<String>,
    pub variants: Vec<EVariant>,
    pub index: usize,
}

#[derive(Debug, Clone, PartialEq)]
pub enum Receiver {
    None,
    Ref,
    RefMut,
    Other(String),
}

#[derive(Debug, Clone, PartialEq)]
pub enum Body {
    /// `let f: unsafe extern "cc" fn(..) -> R = transmute(ADDR as usize); f(args)`
    Address {
        address: u128,
        fnptr: EFnPtr,
        call_args: Vec<String>,
    },
    /// `self.<field>.<func>(args)`
    Field {
        field: String,
        func: String,
        call_args: Vec<String>,
    },
    /// `<Type>::<func>(args)` — re-exposed receiver-less function
    StaticForward {
        ty: String,
        func: String,
        call_args: Vec<String>,
    },
    /// `let f = addr_of!((*self.vftable()).<slot>).read(); f(args)`
    Vftable { slot: String, call_args: Vec<String> },
    /// `self.<expr> as <ty>` — the vftable() accessor; path = field chain, last = "vftable" or "vftable()"
    VftableAccessor { chain: Vec<String>, cast_ty: String },
    /// struct singleton: `let ptr: *mut Self = *(ADDR as *mut *mut Self); ptr.as_mut()`
    SingletonStruct { address: u128 },
    /// enum singleton: `*(ADDR as *const Self)`
    SingletonEnum { address: u128 },
    Other(String),
}

#[derive(Debug, Clone)]
pub struct EMethod {
    pub owner: String,
    pub name: String,
    pub public: bool,
    pub unsafe_: bool,
    pub receiver: Receiver,
    pub params: Vec<(String, String)>,
    pub ret: Option<String>,
    pub docs: Vec<String>,
    pub body: Body,
    pub impl_index: usize,
}

#[derive(Debug, Clone)]
pub struct EAsRef {
    pub owner: String,
    pub target: String,
    pub mutable: bool,
    /// field chain; empty = `self`
    pub chain: Vec<String>,
    pub recognised: bool,
}

#[derive(Debug, Clone, PartialEq)]
pub enum FnKind {
    SizeCheck { ty: String, size: u128, array_len: u128 },
    ExternGetter { address: u128, ty: String, ret_ty: String },
    Other,
}

#[derive(Debug, Clone)]
pub struct EFn {
    pub name: String,
    pub public: bool,
    pub unsafe_: bool,
    pub kind: FnKind,
    pub index: usize,
    pub tokens: String,
    pub docs: Vec<String>,
}

#[derive(Debug, Clone)]
pub struct EOther {
    pub index: usize,
    pub kind: String,
    pub name: String,
    pub tokens: String,
    pub docs: Vec<String>,
}

#[derive(Debug, Clone, Default)]
pub struct EFile {
    pub inner_docs: Vec<String>,
    pub inner_attrs: Vec<String>,
    pub structs: Vec<EStruct>,
    pub enums: Vec<EEnum>,
    pub methods: Vec<EMethod>,
    pub asrefs: Vec<EAsRef>,
    pub fns: Vec<EFn>,
    pub others: Vec<EOther>,
    /// (index, owner) of inherent impl blocks
    pub impls: Vec<(usize, String)>,
    pub n_items: usize,
}

impl EFile {
    pub fn struct_(&self, name: &str) -> Option<&EStruct> {
        self.structs.iter().find(|s| s.name == name)
    }
    pub fn enum_(&self, name: &str) -> Option<&EEnum> {
        self.enums.iter().find(|s| s.name == name)
    }
    pub fn methods_of<'a>(&'a self, owner: &'a str) -> impl Iterator<Item = &'a EMethod> + 'a {
        self.methods.iter().filter(move |m| m.owner == owner)
    }
    pub fn method(&self, owner: &str, name: &str) -> Option<&EMethod> {
        self.methods.iter().find(|m| m.owner == owner && m.name == name)
    }
}

pub fn toks(t: &impl ToTokens) -> String {
    squeeze(&t.to_token_stream().to_string())
}

/// Canonical spacing for token strings: single spaces between tokens as
/// proc_macro2 prints them, then remove spaces around punctuation so that
/// `* const crate :: m :: T` == `*const crate::m::T`.
pub fn squeeze(s: &str) -> String {
    // a predefined type written with its full path (pyxis does that inside modules that define
    // an item of the same name) is the same type
    let s = s.replace(":: core :: primitive :: ", "").replace("::core::primitive::", "");
    let mut out = String::new();
    let chars: Vec<char> = s.chars().collect();
    let is_word = |c: char| c.is_alphanumeric() || c == '_' || c == '"' || c == '\'' || c == '#';
    let mut i = 0;
    let mut in_str = false;
    while i < chars.len() {
        let c = chars[i];
        if in_str {
            out.push(c);
            if c == '\\' && i + 1 < chars.len() {
                out.push(chars[i + 1]);
                i += 2;
                continue;
            }
            if c == '"' {
                in_str = false;
            }
            i += 1;
            continue;
        }
        if c == '"' {
            in_str = true;
            out.push(c);
            i += 1;
            continue;
        }
        if c.is_whitespace() {
            // keep a space only between two word characters
            let prev = out.chars().last();
            let mut j = i;
            while j < chars.len() && chars[j].is_whitespace() {
                j += 1;
            }
            let next = chars.get(j).copied();
            if let (Some(p), Some(n)) = (prev, next) {
                if is_word(p) && is_word(n) {
                    out.push(' ');
                }
            }
            i = j;
            continue;
        }
        out.push(c);
        i += 1;
    }
    out
}

pub fn norm_ty(t: &Type) -> String {
    toks(t)
}

fn docs_of(attrs: &[syn::Attribute]) -> Vec<String> {
    let mut out = vec![];
    for a in attrs {
        if a.path().is_ident("doc") {
            if let syn::Meta::NameValue(nv) = &a.meta {
                if let Expr::Lit(syn::ExprLit {
                    lit: syn::Lit::Str(s), ..
                }) = &nv.value
                {
                    out.push(s.value());
                    continue;
                }
            }
            out.push(format!("<non-literal doc: {}>", toks(a)));
        }
    }
    out
}

fn list_attr(attrs: &[syn::Attribute], name: &str) -> Vec<String> {
    let mut out = vec![];
    for a in attrs {
        if a.path().is_ident(name) {
            if let syn::Meta::List(l) = &a.meta {
                // split on top-level commas
                let mut depth = 0i32;
                let mut cur = String::new();
                for tt in l.tokens.clone() {
                    match &tt {
                        proc_macro2::TokenTree::Punct(p) if p.as_char() == ',' && depth == 0 => {
                            if !cur.trim().is_empty() {
                                out.push(squeeze(&cur));
                            }
                            cur.clear();
                            continue;
                        }
                        proc_macro2::TokenTree::Group(_) => {}
                        _ => {}
                    }
                    let _ = &mut depth;
                    cur.push_str(&tt.to_string());
                    cur.push(' ');
                }
                if !cur.trim().is_empty() {
                    out.push(squeeze(&cur));
                }
            }
        }
    }
    out
}

fn is_pub(v: &syn::Visibility) -> bool {
    matches!(v, syn::Visibility::Public(_))
}

pub fn fnptr_of(t: &Type) -> Option<EFnPtr> {
    if let Type::BareFn(b) = t {
        Some(EFnPtr {
            unsafe_: b.unsafety.is_some(),
            abi: b.abi.as_ref().map(|a| a.name.as_ref().map(|n| n.value()).unwrap_or_default()),
            params: b
                .inputs
                .iter()
                .map(|a| {
                    (
                        a.name.as_ref().map(|(i, _)| i.to_string()).unwrap_or_default(),
                        norm_ty(&a.ty),
                    )
                })
                .collect(),
            ret: match &b.output {
                syn::ReturnType::Default => None,
                syn::ReturnType::Type(_, t) => Some(norm_ty(t)),
            },
        })
    } else {
        None
    }
}

pub fn int_of(e: &Expr) -> Option<i128> {
    match e {
        Expr::Lit(syn::ExprLit {
            lit: syn::Lit::Int(i), ..
        }) => i.base10_parse::<i128>().ok(),
        Expr::Unary(syn::ExprUnary {
            op: syn::UnOp::Neg(_),
            expr,
            ..
        }) => int_of(expr).map(|v| -v),
        Expr::Paren(p) => int_of(&p.expr),
        Expr::Group(g) => int_of(&g.expr),
        Expr::Cast(c) => int_of(&c.expr),
        _ => None,
    }
}

fn strip_unsafe_block(stmts: &[syn::Stmt]) -> Vec<syn::Stmt> {
    // `unsafe { ... }` as the only statement -> its contents
    if stmts.len() == 1 {
        if let syn::Stmt::Expr(Expr::Unsafe(u), _) = &stmts[0] {
            return u.block.stmts.clone();
        }
    }
    stmts.to_vec()
}

fn call_args(c: &syn::ExprCall) -> Vec<String> {
    c.args.iter().map(toks).collect()
}

fn field_chain(e: &Expr) -> Option<Vec<String>> {
    // self.a.b  /  self.a.vftable()  -> ["a","b"] / ["a","vftable()"]
    match e {
        Expr::Path(p) if p.path.is_ident("self") => Some(vec![]),
        Expr::Field(f) => {
            let mut c = field_chain(&f.base)?;
            c.push(match &f.member {
                syn::Member::Named(i) => i.to_string(),
                syn::Member::Unnamed(i) => i.index.to_string(),
            });
            Some(c)
        }
        Expr::MethodCall(m) if m.args.is_empty() => {
            let mut c = field_chain(&m.receiver)?;
            c.push(format!("{}()", m.method));
            Some(c)
        }
        Expr::Paren(p) => field_chain(&p.expr),
        _ => None,
    }
}

fn parse_body(block: &syn::Block) -> Body {
    let stmts = strip_unsafe_block(&block.stmts);
    let other = || Body::Other(toks(block));
    match stmts.as_slice() {
        [syn::Stmt::Local(l), syn::Stmt::Expr(tail, None)] => {
            // let f[: T] = INIT; f(args)
            let Some(init) = &l.init else { return other() };
            let (pat_name, ty) = match &l.pat {
                syn::Pat::Type(pt) => {
                    let n = if let syn::Pat::Ident(i) = &*pt.pat { i.ident.to_string() } else { return other() };
                    (n, Some((*pt.ty).clone()))
                }
                syn::Pat::Ident(i) => (i.ident.to_string(), None),
                _ => return other(),
            };
            // singleton struct: let ptr: *mut Self = *(ADDR as *mut *mut Self); ptr.as_mut()
            if let Expr::MethodCall(mc) = tail {
                if mc.method == "as_mut" && toks(&mc.receiver) == pat_name {
                    if let Expr::Unary(u) = &*init.expr {
                        if matches!(u.op, syn::UnOp::Deref(_)) {
                            if let Expr::Paren(p) = &*u.expr {
                                if let Expr::Cast(c) = &*p.expr {
                                    if toks(&c.ty) == "*mut*mut Self" {
                                        if let Some(a) = int_of(&c.expr) {
                                            if ty.as_ref().map(toks).as_deref() == Some("*mut Self") {
                                                return Body::SingletonStruct { address: a as u128 };
                                            }
                                        }
                                    }
                                }
                            }
                        }
                    }
                }
                return other();
            }
            let Expr::Call(call) = tail else { return other() };
            if toks(&call.func) != pat_name {
                return other();
            }
            match (&ty, &*init.expr) {
                (Some(t), Expr::Call(tc)) => {
                    // transmute(ADDR as usize)
                    let f = toks(&tc.func);
                    if !(f == "::std::mem::transmute" || f == "std::mem::transmute" || f == "core::mem::transmute" || f == "::core::mem::transmute") {
                        return other();
                    }
                    if tc.args.len() != 1 {
                        return other();
                    }
                    let Expr::Cast(c) = &tc.args[0] else { return other() };
                    if toks(&c.ty) != "usize" {
                        return other();
                    }
                    let Some(a) = int_of(&c.expr) else { return other() };
                    let Some(fp) = fnptr_of(t) else { return other() };
                    Body::Address {
                        address: a as u128,
                        fnptr: fp,
                        call_args: call_args(call),
                    }
                }
                (None, Expr::MethodCall(mc)) if mc.method == "read" && mc.args.is_empty() => {
                    // std::ptr::addr_of!((*self.vftable()).slot).read()
                    let Expr::Macro(m) = &*mc.receiver else { return other() };
                    let mp = toks(&m.mac.path);
                    if !(mp == "std::ptr::addr_of" || mp == "::std::ptr::addr_of" || mp == "core::ptr::addr_of" || mp == "::core::ptr::addr_of") {
                        return other();
                    }
                    let Ok(inner) = syn::parse2::<Expr>(m.mac.tokens.clone()) else { return other() };
                    let Expr::Field(f) = &inner else { return other() };
                    if toks(&f.base) != "(*self.vftable())" {
                        return other();
                    }
                    let syn::Member::Named(slot) = &f.member else { return other() };
                    Body::Vftable {
                        slot: slot.to_string(),
                        call_args: call_args(call),
                    }
                }
                _ => other(),
            }
        }
        [syn::Stmt::Expr(e, None)] => match e {
            Expr::MethodCall(mc) => {
                // self.field.func(args)
                let Some(chain) = field_chain(&mc.receiver) else { return other() };
                if chain.len() != 1 || chain[0].ends_with("()") {
                    return other();
                }
                Body::Field {
                    field: chain[0].clone(),
                    func: mc.method.to_string(),
                    call_args: mc.args.iter().map(toks).collect(),
                }
            }
            Expr::Call(c) if matches!(toks(&c.func).as_str(), "::std::ptr::read" | "std::ptr::read" | "::core::ptr::read" | "core::ptr::read") && c.args.len() == 1 => {
                // ::std::ptr::read(ADDR as *const Self)
                if let Expr::Cast(cast) = &c.args[0] {
                    if toks(&cast.ty) == "*const Self" {
                        if let Some(a) = int_of(&cast.expr) {
                            return Body::SingletonEnum { address: a as u128 };
                        }
                    }
                }
                other()
            }
            Expr::Call(c) => {
                // <Type>::func(args)
                if let Expr::Path(p) = &*c.func {
                    if let Some(q) = &p.qself {
                        if p.path.segments.len() == 1 {
                            return Body::StaticForward {
                                ty: norm_ty(&q.ty),
                                func: p.path.segments[0].ident.to_string(),
                                call_args: call_args(c),
                            };
                        }
                    }
                }
                other()
            }
            Expr::Cast(c) => {
                let Some(chain) = field_chain(&c.expr) else { return other() };
                Body::VftableAccessor {
                    chain,
                    cast_ty: toks(&c.ty),
                }
            }
            Expr::Unary(u) if matches!(u.op, syn::UnOp::Deref(_)) => {
                // *(ADDR as *const Self)
                if let Expr::Paren(p) = &*u.expr {
                    if let Expr::Cast(c) = &*p.expr {
                        if toks(&c.ty) == "*const Self" {
                            if let Some(a) = int_of(&c.expr) {
                                return Body::SingletonEnum { address: a as u128 };
                            }
                        }
                    }
                }
                other()
            }
            _ => other(),
        },
        _ => other(),
    }
}

fn parse_method(owner: &str, f: &syn::ImplItemFn, impl_index: usize) -> EMethod {
    let mut receiver = Receiver::None;
    let mut params = vec![];
    for a in &f.sig.inputs {
        match a {
            syn::FnArg::Receiver(r) => {
                receiver = if r.reference.is_some() && r.colon_token.is_none() {
                    if r.mutability.is_some() {
                        Receiver::RefMut
                    } else {
                        Receiver::Ref
                    }
                } else {
                    Receiver::Other(toks(r))
                }
            }
            syn::FnArg::Typed(t) => params.push((toks(&t.pat), norm_ty(&t.ty))),
        }
    }
    EMethod {
        owner: owner.to_string(),
        name: f.sig.ident.to_string(),
        public: is_pub(&f.vis),
        unsafe_: f.sig.unsafety.is_some(),
        receiver,
        params,
        ret: match &f.sig.output {
            syn::ReturnType::Default => None,
            syn::ReturnType::Type(_, t) => Some(norm_ty(t)),
        },
        docs: docs_of(&f.attrs),
        body: parse_body(&f.block),
        impl_index,
    }
}

fn parse_free_fn(f: &syn::ItemFn, index: usize) -> EFn {
    let name = f.sig.ident.to_string();
    let mut kind = FnKind::Other;
    let stmts = &f.block.stmts;
    // size check: unsafe { ::std::mem::transmute::<[u8; N], T>([0u8; N]); } unreachable!()
    if name.starts_with('_') && name.ends_with("_size_check") {
        if let Some(syn::Stmt::Expr(Expr::Unsafe(u), _)) = stmts.first() {
            if let Some(syn::Stmt::Expr(Expr::Call(c), _)) = u.block.stmts.first() {
                if let Expr::Path(p) = &*c.func {
                    if let Some(seg) = p.path.segments.last() {
                        if seg.ident == "transmute" {
                            if let syn::PathArguments::AngleBracketed(ab) = &seg.arguments {
                                let args: Vec<_> = ab.args.iter().collect();
                                if args.len() == 2 {
                                    if let (syn::GenericArgument::Type(Type::Array(arr)), syn::GenericArgument::Type(t)) = (args[0], args[1]) {
                                        let size = int_of(&arr.len).unwrap_or(-1);
                                        let array_len = c
                                            .args
                                            .first()
                                            .and_then(|a| if let Expr::Repeat(r) = a { int_of(&r.len) } else { None })
                                            .unwrap_or(-1);
                                        if size >= 0 {
                                            kind = FnKind::SizeCheck {
                                                ty: norm_ty(t),
                                                size: size as u128,
                                                array_len: array_len.max(0) as u128,
                                            };
                                        }
                                    }
                                }
                            }
                        }
                    }
                }
            }
        }
    } else if name.starts_with("get_") {
        // unsafe { &mut *(ADDR as *mut T) }
        let inner = strip_unsafe_block(stmts);
        if let [syn::Stmt::Expr(Expr::Reference(r), None)] = inner.as_slice() {
            if r.mutability.is_some() {
                if let Expr::Unary(u) = &*r.expr {
                    if matches!(u.op, syn::UnOp::Deref(_)) {
                        if let Expr::Paren(p) = &*u.expr {
                            if let Expr::Cast(c) = &*p.expr {
                                if let (Some(a), Type::Ptr(pt)) = (int_of(&c.expr), &*c.ty) {
                                    if pt.mutability.is_some() {
                                        let ret_ty = match &f.sig.output {
                                            syn::ReturnType::Type(_, t) => norm_ty(t),
                                            _ => String::new(),
                                        };
                                        kind = FnKind::ExternGetter {
                                            address: a as u128,
                                            ty: norm_ty(&pt.elem),
                                            ret_ty,
                                        };
                                    }
                                }
                            }
                        }
                    }
                }
            }
        }
    }
    EFn {
        name,
        public: is_pub(&f.vis),
        unsafe_: f.sig.unsafety.is_some(),
        kind,
        index,
        tokens: toks(f),
        docs: docs_of(&f.attrs),
    }
}

fn parse_asref(owner: &str, target: &str, mutable: bool, imp: &syn::ItemImpl) -> EAsRef {
    let mut chain = vec![];
    let mut recognised = false;
    for it in &imp.items {
        if let syn::ImplItem::Fn(f) = it {
            if let [syn::Stmt::Expr(e, None)] = f.block.stmts.as_slice() {
                match e {
                    Expr::Path(p) if p.path.is_ident("self") => {
                        recognised = true;
                    }
                    Expr::Reference(r) if r.mutability.is_some() == mutable => {
                        if let Some(c) = field_chain(&r.expr) {
                            if c.iter().all(|s| !s.ends_with("()")) {
                                chain = c;
                                recognised = true;
                            }
                        }
                    }
                    _ => {}
                }
            }
        }
    }
    EAsRef {
        owner: owner.to_string(),
        target: target.to_string(),
        mutable,
        chain,
        recognised,
    }
}

pub fn parse(text: &str) -> Result<EFile, String> {
    let r = parse_inner(text);
    // everything kept in an EFile is text; let proc-macro2 forget the source it parsed
    crate::drive::release_spans();
    r
}

fn parse_inner(text: &str) -> Result<EFile, String> {
    let file = syn::parse_file(text).map_err(|e| {
        let lc = e.span().start();
        format!("{}:{}: {e}", lc.line, lc.column + 1)
    })?;
    let mut out = EFile::default();
    for a in &file.attrs {
        if a.path().is_ident("doc") {
            out.inner_docs.extend(docs_of(std::slice::from_ref(a)));
        } else {
            out.inner_attrs.push(toks(a));
        }
    }
    out.n_items = file.items.len();
    for (index, item) in file.items.iter().enumerate() {
        match item {
            Item::Struct(s) => {
                let mut fields = vec![];
                for f in &s.fields {
                    fields.push(EField {
                        name: f.ident.as_ref().map(|i| i.to_string()).unwrap_or_default(),
                        public: is_pub(&f.vis),
                        ty: norm_ty(&f.ty),
                        docs: docs_of(&f.attrs),
                        fnptr: fnptr_of(&f.ty),
                    });
                }
                out.structs.push(EStruct {
                    name: s.ident.to_string(),
                    public: is_pub(&s.vis),
                    repr: list_attr(&s.attrs, "repr"),
                    derives: list_attr(&s.attrs, "derive"),
                    docs: docs_of(&s.attrs),
                    fields,
                    index,
                });
            }
            Item::Enum(e) => {
                let mut variants = vec![];
                for v in &e.variants {
                    variants.push(EVariant {
                        name: v.ident.to_string(),
                        discr: v.discriminant.as_ref().map(|(_, e)| toks(e)),
                        value: v.discriminant.as_ref().and_then(|(_, e)| int_of(e)),
                        is_default: v.attrs.iter().any(|a| a.path().is_ident("default")),
                        docs: docs_of(&v.attrs),
                    });
                }
                out.enums.push(EEnum {
                    name: e.ident.to_string(),
                    public: is_pub(&e.vis),
                    repr: list_attr(&e.attrs, "repr"),
                    derives: list_attr(&e.attrs, "derive"),
                    docs: docs_of(&e.attrs),
                    variants,
                    index,
                });
            }
            Item::Impl(imp) => {
                let owner = norm_ty(&imp.self_ty);
                if let Some((_, path, _)) = &imp.trait_ {
                    let p = toks(path);
                    let as_ref = p.starts_with("std::convert::AsRef<") || p.starts_with("::std::convert::AsRef<") || p.starts_with("AsRef<");
                    let as_mut = p.starts_with("std::convert::AsMut<") || p.starts_with("::std::convert::AsMut<") || p.starts_with("AsMut<");
                    if as_ref || as_mut {
                        let target = p[p.find('<').unwrap() + 1..p.rfind('>').unwrap_or(p.len())].to_string();
                        out.asrefs.push(parse_asref(&owner, &target, as_mut, imp));
                    } else {
                        out.others.push(EOther {
                            index,
                            kind: "trait-impl".into(),
                            name: format!("{p} for {owner}"),
                            tokens: toks(imp),
                            docs: vec![],
                        });
                    }
                } else {
                    out.impls.push((index, owner.clone()));
                    for it in &imp.items {
                        match it {
                            syn::ImplItem::Fn(f) => out.methods.push(parse_method(&owner, f, index)),
                            other => out.others.push(EOther {
                                index,
                                kind: "impl-item".into(),
                                name: owner.clone(),
                                tokens: toks(other),
                                docs: vec![],
                            }),
                        }
                    }
                }
            }
            Item::Fn(f) => out.fns.push(parse_free_fn(f, index)),
            Item::Const(c) => out.others.push(EOther {
                index,
                kind: "const".into(),
                name: c.ident.to_string(),
                tokens: toks(c),
                docs: docs_of(&c.attrs),
            }),
            other => {
                let (kind, name) = match other {
                    Item::Use(_) => ("use", String::new()),
                    Item::Mod(m) => ("mod", m.ident.to_string()),
                    Item::Static(s) => ("static", s.ident.to_string()),
                    Item::Type(t) => ("type", t.ident.to_string()),
                    Item::Trait(t) => ("trait", t.ident.to_string()),
                    Item::Macro(_) => ("macro", String::new()),
                    Item::Union(u) => ("union", u.ident.to_string()),
                    _ => ("other", String::new()),
                };
                out.others.push(EOther {
                    index,
                    kind: kind.into(),
                    name,
                    tokens: toks(other),
                    docs: vec![],
                });
            }
        }
    }
    Ok(out)
}
