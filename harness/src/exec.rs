//! Executing emitted wrappers against recording stubs (layer L2):
//! C04 virtual dispatch, C05 address-bound wrappers, C06 vftable accessor,
//! C07 forwarding / AsRef, C15 singleton and extern-value accessors.
//!
//! For every case the generator of probe steps works from the *description*
//! (AST + reference model); object and table memory is raw; what the stubs
//! recorded is judged offline against the expectations stored next to each step.

use crate::emitted::{Body, EFnPtr};
use crate::l2::Built;
use crate::probe::{ProbeCrate, RunLog, StepLog};
use crate::refmodel::attr_int;
use crate::refprog::{self, Bound, Env, MKind, Slot};
use crate::rng::Rng;
use pyxis::grammar::{Argument, Function, ItemDefinitionInner, Type};
use std::collections::BTreeMap;

#[derive(Clone, Debug, PartialEq)]
pub enum Prim {
    Bool,
    Int { bits: u32 },
    Float { bits: u32 },
    Ptr,
    Other,
}

pub fn classify(env: &Env, module: &str, t: &Type) -> Prim {
    match t {
        Type::ConstPointer(_) | Type::MutPointer(_) => Prim::Ptr,
        Type::Ident(id) => match env.bind(module, id.as_str()) {
            Some(Bound::Builtin(b)) => match b.as_str() {
                "bool" => Prim::Bool,
                "u8" | "i8" => Prim::Int { bits: 8 },
                "u16" | "i16" => Prim::Int { bits: 16 },
                "u32" | "i32" => Prim::Int { bits: 32 },
                "u64" | "i64" => Prim::Int { bits: 64 },
                "f32" => Prim::Float { bits: 32 },
                "f64" => Prim::Float { bits: 64 },
                _ => Prim::Other,
            },
            _ => Prim::Other,
        },
        _ => Prim::Other,
    }
}

pub fn mask_of(p: &Prim) -> u64 {
    match p {
        Prim::Bool => 0xFF,
        Prim::Int { bits } | Prim::Float { bits } => {
            if *bits >= 64 {
                u64::MAX
            } else {
                (1u64 << bits) - 1
            }
        }
        Prim::Ptr => u64::MAX,
        Prim::Other => 0,
    }
}

/// The Rust type text a description type must be emitted as (C05/C11).
pub fn expected_ty(env: &Env, module: &str, t: &Type) -> Option<String> {
    expected_ty_raw(env, module, t).map(|s| crate::emitted::squeeze(&s))
}

/// The expected type as it has to be WRITTEN inside the module's file by the probe builder:
/// predefined types by their full path, because the module may define an item of that name.
pub fn code_ty(env: &Env, module: &str, t: &Type) -> Option<String> {
    Some(match t {
        Type::ConstPointer(i) => format!("*const {}", code_ty(env, module, i)?),
        Type::MutPointer(i) => format!("*mut {}", code_ty(env, module, i)?),
        Type::Array(i, n) => format!("[{}; {}]", code_ty(env, module, i)?, n),
        Type::Unknown(n) => format!("[::core::primitive::u8; {n}]"),
        Type::Ident(id) => match env.bind(module, id.as_str())? {
            Bound::Builtin(b) => {
                if b == "void" {
                    "::std::ffi::c_void".to_string()
                } else {
                    format!("::core::primitive::{b}")
                }
            }
            Bound::Item(p) => format!("crate::{p}"),
        },
    })
}

fn expected_ty_raw(env: &Env, module: &str, t: &Type) -> Option<String> {
    Some(match t {
        Type::ConstPointer(i) => format!("*const {}", expected_ty_raw(env, module, i)?),
        Type::MutPointer(i) => format!("*mut {}", expected_ty_raw(env, module, i)?),
        Type::Array(i, n) => format!("[{};{}]", expected_ty_raw(env, module, i)?, n),
        Type::Unknown(n) => format!("[u8;{n}]"),
        Type::Ident(id) => match env.bind(module, id.as_str())? {
            Bound::Builtin(b) => {
                if b == "void" {
                    "::std::ffi::c_void".to_string()
                } else {
                    b
                }
            }
            Bound::Item(p) => format!("crate::{p}"),
        },
    })
}

#[derive(Clone, Debug)]
pub enum Callee {
    Stub(u64),
    Abs(u64),
}

#[derive(Clone, Debug)]
pub struct CallExp {
    pub callee: Callee,
    pub has_receiver: bool,
    /// (value passed, mask under which the callee must see it)
    pub args: Vec<(u64, u64)>,
    /// None = no return value; Some(mask)
    pub ret_mask: Option<u64>,
    /// ids of placeholder stubs installed in the tables of this step
    pub placeholder_ids: Vec<u64>,
}

#[derive(Clone, Debug)]
pub enum Expect {
    /// C04 (direct virtual), C05 (address-bound), C07 (forwarded): one call
    Call { prop: &'static str, what: String, exp: CallExp },
    /// C06: vftable() returns the stored pointer
    VftableAccessor { what: String },
    /// C07: as_ref/as_mut deltas equal the compiler's sub-object offset
    AsRef { what: String },
    /// C15
    SingletonStruct { what: String, null: bool },
    /// C15: the slot is rewritten between calls; every call returns what is stored then
    SingletonSequence { what: String, n: usize },
    SingletonEnum { what: String, value: i128 },
    ExternValue { what: String, address: u64 },
}

#[derive(Clone, Debug)]
pub struct StepExp {
    pub step: u64,
    pub case: usize,
    pub native_only: bool,
    pub expect: Expect,
}

#[derive(Default)]
pub struct Statics {
    /// (signature, detail) found while reading the emitted text
    pub bad: Vec<(String, String, &'static str)>,
    pub counters: BTreeMap<String, u64>,
}

pub struct ExecBuilder {
    pub next_stub: u64,
    pub want: Vec<&'static str>,
}

struct SubObj {
    off_expr: String,
    owner: String,
}

fn rust_path(p: &str) -> String {
    format!("crate::{p}")
}

/// Offset (as a Rust expression) from the start of `x` to where its vftable pointer is
/// physically stored: its own field at 0, or inside the first base that carries one.
pub fn primary_ptr_offset_expr(env: &Env, x: &str, depth: usize) -> Option<String> {
    if depth > 16 {
        return None;
    }
    if env.gets_own_vftable_ptr(x) {
        return Some("0usize".to_string());
    }
    match env.bases(x).first() {
        Some((f, Some(b))) if env.has_vftable(b) => Some(format!(
            "::std::mem::offset_of!({}, {f}) + {}",
            rust_path(x),
            primary_ptr_offset_expr(env, b, depth + 1)?
        )),
        _ => None,
    }
}

fn plan_subobjects(env: &Env, x: &str, off_expr: &str, shared: bool, out: &mut Vec<SubObj>, depth: usize) {
    if depth > 16 {
        return;
    }
    if !shared && env.has_vftable(x) {
        if let (Some(owner), Some(p)) = (env.vftable_owner(x), primary_ptr_offset_expr(env, x, 0)) {
            out.push(SubObj {
                off_expr: format!("{off_expr} + {p}"),
                owner,
            });
        }
    }
    for (i, (field, b)) in env.bases(x).iter().enumerate() {
        let Some(b) = b else { continue };
        let sub = format!("{off_expr} + ::std::mem::offset_of!({}, {field})", rust_path(x));
        let shared_child = i == 0 && env.has_vftable(b);
        plan_subobjects(env, b, &sub, shared_child, out, depth + 1);
    }
}

fn conv_to_u64(p: &Prim, expr: &str) -> String {
    match p {
        Prim::Bool | Prim::Int { .. } => format!("({expr}) as ::core::primitive::u64"),
        Prim::Float { .. } => format!("({expr}).to_bits() as ::core::primitive::u64"),
        Prim::Ptr => format!("({expr}) as ::core::primitive::usize as ::core::primitive::u64"),
        Prim::Other => "0u64".to_string(),
    }
}

fn conv_from_u64(p: &Prim, ty_text: &str, expr: &str) -> String {
    match p {
        Prim::Bool => format!("(({expr}) & 1) != 0"),
        Prim::Int { .. } => format!("({expr}) as {ty_text}"),
        Prim::Float { bits: 32 } => format!("::core::primitive::f32::from_bits(({expr}) as ::core::primitive::u32)"),
        Prim::Float { .. } => format!("::core::primitive::f64::from_bits({expr})"),
        Prim::Ptr => format!("({expr}) as ::core::primitive::usize as {ty_text}"),
        Prim::Other => "unreachable!()".to_string(),
    }
}

fn arg_literal(p: &Prim, ty_text: &str, rng: &mut Rng) -> (String, u64) {
    match p {
        Prim::Bool => {
            let b = rng.coin();
            (format!("{b}"), b as ::core::primitive::u64)
        }
        Prim::Int { .. } => {
            let v = rng.next_u64() | 1;
            (format!("({v:#x}u64 as {ty_text})"), v)
        }
        Prim::Float { bits: 32 } => {
            let v = (rng.next_u64() as ::core::primitive::u32) & 0x7F7F_FFFF;
            (format!("::core::primitive::f32::from_bits({v:#x}u32)"), v as ::core::primitive::u64)
        }
        Prim::Float { .. } => {
            let v = rng.next_u64() & 0x7FEF_FFFF_FFFF_FFFF;
            (format!("::core::primitive::f64::from_bits({v:#x}u64)"), v)
        }
        Prim::Ptr => {
            let v = (rng.next_u64() & 0x0000_7FFF_FFFF_FFF0) | 0x10;
            (format!("({v:#x}usize as {ty_text})"), v)
        }
        Prim::Other => ("unreachable!()".into(), 0),
    }
}

/// Is every argument/return type of `f` one the probes can pass and record?
fn executable(env: &Env, module: &str, f: &Function, allow_float: bool) -> bool {
    let ok = |t: &Type| match classify(env, module, t) {
        Prim::Other => false,
        Prim::Float { .. } => allow_float,
        _ => true,
    };
    f.arguments.iter().all(|a| match a {
        Argument::Named(_, t) => ok(t),
        _ => true,
    }) && f.return_type.as_ref().map(ok).unwrap_or(true)
}

fn receiver_of(f: &Function) -> Option<bool> {
    f.arguments.iter().find_map(|a| match a {
        Argument::ConstSelf => Some(false),
        Argument::MutSelf => Some(true),
        _ => None,
    })
}

impl ExecBuilder {
    pub fn new(want: &[&'static str]) -> ExecBuilder {
        ExecBuilder {
            next_stub: 1,
            want: want.to_vec(),
        }
    }
    fn wants(&self, p: &str) -> bool {
        self.want.contains(&p)
    }

    /// Add stubs + steps for one built case. Returns expectations; static findings go to `st`.
    pub fn add_case(&mut self, pc: &mut ProbeCrate, b: &Built, case: usize, rng: &mut Rng, st: &mut Statics) -> Vec<StepExp> {
        let env = Env::new(&b.mods, b.ptrw);
        let mut exps: Vec<StepExp> = vec![];
        // ---- stubs for every declared vftable block --------------------------------
        // (owner path, slot) -> (stub id, is placeholder, fn when real)
        let mut stubs: BTreeMap<(String, usize), (u64, bool)> = BTreeMap::new();
        let mut nslots: BTreeMap<String, usize> = BTreeMap::new();
        let mut slot_ok: BTreeMap<(String, usize), bool> = BTreeMap::new();
        for (mp, m) in &b.mods {
            let mps = mp.to_string();
            let Some(ef) = b.efiles.get(&mps) else { continue };
            for d in &m.definitions {
                let ItemDefinitionInner::Type(_) = &d.inner else { continue };
                let path = format!("{mps}::{}", d.name);
                let Some((fs, size)) = env.vftable_block(&path) else { continue };
                let Ok(sl) = refprog::slots(fs, size) else { continue };
                nslots.insert(path.clone(), sl.len());
                let vname = format!("{}Vftable", d.name);
                let Some(vs) = ef.struct_(&vname) else {
                    st.bad.push(("C04/vftable-struct-missing".into(), format!("`{path}`: `{vname}` not emitted"), "C04"));
                    continue;
                };
                for (i, s) in sl.iter().enumerate() {
                    let id = self.next_stub;
                    self.next_stub += 1;
                    let (fname, is_ph) = match s {
                        Slot::Func(f) => (f.name.0.clone(), false),
                        Slot::Placeholder => (format!("_vfunc_{i}"), true),
                    };
                    stubs.insert((path.clone(), i), (id, is_ph));
                    let Some(field) = vs.fields.iter().find(|x| x.name == fname) else {
                        st.bad.push(("C04/slot-missing".into(), format!("`{vname}` has no slot `{fname}` (slot {i})"), "C04"));
                        slot_ok.insert((path.clone(), i), false);
                        continue;
                    };
                    let Some(fp) = &field.fnptr else {
                        st.bad.push(("C04/slot-not-fn-pointer".into(), format!("`{vname}.{fname}` is not a function pointer"), "C04"));
                        slot_ok.insert((path.clone(), i), false);
                        continue;
                    };
                    // classification of parameters from the description
                    let mut prims: Vec<Prim> = vec![];
                    let mut ret_prim: Option<Prim> = None;
                    match s {
                        Slot::Func(f) => {
                            for a in &f.arguments {
                                match a {
                                    Argument::ConstSelf | Argument::MutSelf => prims.push(Prim::Ptr),
                                    Argument::Named(_, t) => prims.push(classify(&env, &mps, t)),
                                }
                            }
                            ret_prim = f.return_type.as_ref().map(|t| classify(&env, &mps, t));
                        }
                        Slot::Placeholder => prims.push(Prim::Ptr),
                    }
                    *st.counters.entry("slot_signatures_compared".into()).or_insert(0) += 1;
                    if fp.params.len() != prims.len() || fp.ret.is_some() != ret_prim.is_some() {
                        st.bad.push((
                            "C04/slot-signature".into(),
                            format!("`{vname}.{fname}`: description has {} parameters / return {}, emitted type has {} / {}", prims.len(), ret_prim.is_some(), fp.params.len(), fp.ret.is_some()),
                            "C04",
                        ));
                        slot_ok.insert((path.clone(), i), false);
                        continue;
                    }
                    let exec_ok = prims.iter().all(|p| *p != Prim::Other) && ret_prim.as_ref().map(|p| *p != Prim::Other).unwrap_or(true);
                    slot_ok.insert((path.clone(), i), exec_ok);
                    // typed stub with exactly the emitted parameter types
                    let params: Vec<String> = fp.params.iter().enumerate().map(|(k, (_, ty))| format!("p{k}: {ty}")).collect();
                    let recs: Vec<String> = prims.iter().enumerate().map(|(k, p)| conv_to_u64(p, &format!("p{k}"))).collect();
                    let (ret_sig, ret_body) = match (&fp.ret, &ret_prim) {
                        (Some(rt), Some(rp)) if *rp != Prim::Other => (format!(" -> {rt}"), conv_from_u64(rp, rt, "__r")),
                        (Some(rt), _) => (format!(" -> {rt}"), "unreachable!()".to_string()),
                        _ => (String::new(), "()".to_string()),
                    };
                    let code = format!(
                        "#[allow(unused)]\npub unsafe extern \"C\" fn __stub_{id}({}){ret_sig} {{\n    let __r = crate::rt::rec_stub({id}, &[{}]);\n    {ret_body}\n}}\n",
                        params.join(", "),
                        recs.join(", ")
                    );
                    pc.module(&mps).extra.push_str(&code);
                }
            }
        }

        // code that builds the tables of all vftable-carrying sub-objects of type `path`
        let table_setup = |path: &str| -> Option<(String, Vec<u64>)> {
            let mut subs = vec![];
            plan_subobjects(&env, path, "0usize", false, &mut subs, 0);
            let mut code = String::new();
            let mut placeholders = vec![];
            for (k, so) in subs.iter().enumerate() {
                let n = *nslots.get(&so.owner)?;
                code.push_str(&format!("        let __tbl{k} = crate::rt::Obj::new({n} * 8, 8, 0xEE);\n"));
                for i in 0..n {
                    let (id, ph) = stubs.get(&(so.owner.clone(), i))?;
                    if !slot_ok.contains_key(&(so.owner.clone(), i)) || slot_ok.get(&(so.owner.clone(), i)).is_none() {
                        return None;
                    }
                    if *ph {
                        placeholders.push(*id);
                    }
                    let owner_mod = refprog::parent_of(&so.owner);
                    code.push_str(&format!(
                        "        unsafe {{ __tbl{k}.put_fn({i} * 8, crate::{owner_mod}::__stub_{id} as *const ()); }}\n"
                    ));
                }
                code.push_str(&format!("        unsafe {{ __o.put_ptr({}, __tbl{k}.ptr as *const ::core::primitive::u8); }}\n", so.off_expr));
                if k == 0 && env.has_vftable(path) {
                    code.push_str(&format!("        crate::rt::val(\"primary_table\", __tbl{k}.addr());\n        crate::rt::val(\"primary_off\", ({}) as ::core::primitive::u64);\n", so.off_expr));
                }
            }
            Some((code, placeholders))
        };

        let obj_setup = |tname: &str| -> String {
            format!(
                "        let __o = crate::rt::Obj::new(::std::mem::size_of::<{tname}>(), ::std::mem::align_of::<{tname}>(), 0xA5);\n        crate::rt::val(\"obj\", __o.addr());\n"
            )
        };

        for (mp, m) in &b.mods {
            let mps = mp.to_string();
            let Some(ef) = b.efiles.get(&mps) else { continue };
            for d in &m.definitions {
                let tname = d.name.as_str();
                let path = format!("{mps}::{tname}");
                match &d.inner {
                    ItemDefinitionInner::Enum(ed) => {
                        if !self.wants("C15") {
                            continue;
                        }
                        if let Some(a) = attr_int(&ed.attributes, "singleton") {
                            self.enum_singleton(pc, b, case, &mps, tname, a as ::core::primitive::u64, ed, ef, st, &mut exps, rng);
                        }
                        continue;
                    }
                    ItemDefinitionInner::Type(td) => {
                        if ef.struct_(tname).is_none() {
                            continue;
                        }
                        // ---------- C06: accessor -------------------------------------------
                        if self.wants("C06") && env.has_vftable(&path) {
                            self.c06_static(&env, b, &path, &mps, tname, st);
                            if let Some((tables, _)) = table_setup(&path) {
                                let body = format!(
                                    "{}{}        let __t = unsafe {{ &*(__o.ptr as *const {tname}) }};\n        crate::rt::val(\"accessor\", __t.vftable() as ::core::primitive::usize as ::core::primitive::u64);\n",
                                    obj_setup(tname),
                                    tables
                                );
                                let step = pc.add_step(&mps, false, body);
                                exps.push(StepExp {
                                    step,
                                    case,
                                    native_only: false,
                                    expect: Expect::VftableAccessor { what: format!("{path}::vftable()") },
                                });
                            }
                        }
                        // ---------- C04: direct virtual wrappers ----------------------------
                        if self.wants("C04") {
                            if let Some((owner, fs, size)) = env.virtuals(&path) {
                                if let Ok(sl) = refprog::slots(fs, size) {
                                    let owner_mod = refprog::parent_of(&owner).to_string();
                                    for (i, s) in sl.iter().enumerate() {
                                        let Slot::Func(f) = s else { continue };
                                        if f.name.as_str().starts_with('_') || !refprog::has_receiver(f) {
                                            continue;
                                        }
                                        let Some(em) = ef.method(tname, f.name.as_str()) else {
                                            st.bad.push(("C04/wrapper-missing".into(), format!("`{path}` has no wrapper for virtual `{}`", f.name), "C04"));
                                            continue;
                                        };
                                        match &em.body {
                                            Body::Vftable { slot, .. } => {
                                                *st.counters.entry("virtual_wrapper_bodies_read".into()).or_insert(0) += 1;
                                                if slot != f.name.as_str() {
                                                    st.bad.push(("C04/wrapper-reads-other-slot".into(), format!("`{path}::{}` reads slot `{slot}`", f.name), "C04"));
                                                }
                                            }
                                            _ => {
                                                *st.counters.entry("virtual_wrapper_bodies_unrecognised".into()).or_insert(0) += 1;
                                            }
                                        }
                                        if slot_ok.get(&(owner.clone(), i)) != Some(&true) {
                                            continue;
                                        }
                                        let Some((sid, _)) = stubs.get(&(owner.clone(), i)) else { continue };
                                        let Some((tables, phs)) = table_setup(&path) else { continue };
                                        if let Some((body, exp)) = self.call_step(&env, &owner_mod, tname, f, em.name.as_str(), Callee::Stub(*sid), &obj_setup(tname), &tables, "0usize", rng) {
                                            let mut exp = exp;
                                            exp.placeholder_ids = phs;
                                            let step = pc.add_step(&mps, false, body);
                                            exps.push(StepExp {
                                                step,
                                                case,
                                                native_only: false,
                                                expect: Expect::Call { prop: "C04", what: format!("{path}::{} (virtual, slot {i} of {owner})", f.name), exp },
                                            });
                                        }
                                    }
                                }
                            }
                        }
                        // ---------- C05 / C07: associated methods ---------------------------
                        if self.wants("C05") || self.wants("C07") || self.wants("C04") {
                            for me in env.associated(&path) {
                                if me.name.starts_with('_') && me.kind == MKind::Own {
                                    continue;
                                }
                                let is_own = me.kind == MKind::Own;
                                if is_own && !self.wants("C05") {
                                    continue;
                                }
                                // a re-exposed VIRTUAL function of a later base is a wrapper that has
                                // to end in the right slot of the right sub-object's table: C07's
                                // business, and C04's as far as the dispatch goes
                                let for_c04 = !is_own && me.is_virtual_origin && self.wants("C04") && !self.wants("C07");
                                if !is_own && !self.wants("C07") && !for_c04 {
                                    continue;
                                }
                                let prop: &'static str = if is_own { "C05" } else if for_c04 { "C04" } else { "C07" };
                                let Some(em) = ef.method(tname, &me.name) else {
                                    st.bad.push((format!("{prop}/method-missing"), format!("`{path}` has no method `{}`", me.name), prop));
                                    continue;
                                };
                                let decl_mod = refprog::parent_of(&me.declared_in).to_string();
                                if is_own {
                                    self.c05_static(&env, &mps, &path, me.func, em, st);
                                } else {
                                    self.c07_static(&env, &path, &me, em, st);
                                }
                                // resolve what must finally be called and on which sub-object
                                let Some((callee, chain, final_fn, final_mod)) = resolve_target(&env, &path, &me.name, &stubs) else {
                                    *st.counters.entry("unresolvable_targets".into()).or_insert(0) += 1;
                                    continue;
                                };
                                let _ = decl_mod;
                                if !executable(&env, &final_mod, final_fn, false) {
                                    *st.counters.entry("non_executable_signatures".into()).or_insert(0) += 1;
                                    continue;
                                }
                                let recv_off = if chain.is_empty() {
                                    "0usize".to_string()
                                } else {
                                    chain.iter().map(|(t, f)| format!("::std::mem::offset_of!({}, {f})", rust_path(t))).collect::<Vec<_>>().join(" + ")
                                };
                                let native_only = matches!(callee, Callee::Abs(_));
                                let tables = match table_setup(&path) {
                                    Some((t, _)) => t,
                                    None => {
                                        if env.has_vftable(&path) || !matches!(callee, Callee::Abs(_)) {
                                            continue;
                                        }
                                        String::new()
                                    }
                                };
                                if let Some((body, exp)) = self.call_step(&env, &final_mod, tname, final_fn, &me.name, callee, &obj_setup(tname), &tables, &recv_off, rng) {
                                    let step = pc.add_step(&mps, native_only, body);
                                    exps.push(StepExp {
                                        step,
                                        case,
                                        native_only,
                                        expect: Expect::Call { prop, what: format!("{path}::{} -> {:?}", me.name, me.kind), exp },
                                    });
                                }
                            }
                        }
                        // ---------- C07: AsRef / AsMut ---------------------------------------
                        if self.wants("C07") {
                            self.asref_steps(pc, &env, b, case, &mps, &path, tname, st, &mut exps);
                        }
                        // ---------- C15: struct singleton ------------------------------------
                        if self.wants("C15") {
                            if let Some(a) = attr_int(&td.attributes, "singleton") {
                                self.struct_singleton(pc, case, &mps, &path, tname, a as ::core::primitive::u64, ef, st, &mut exps, rng);
                            }
                        }
                    }
                }
            }
            if self.wants("C15") {
                for ev in &m.extern_values {
                    self.extern_value(pc, &env, case, &mps, ev, ef, st, &mut exps);
                }
            }
        }
        exps
    }

    #[allow(clippy::too_many_arguments)]
    fn call_step(
        &mut self,
        env: &Env,
        fn_module: &str,
        tname: &str,
        f: &Function,
        method_name: &str,
        callee: Callee,
        obj_setup: &str,
        tables: &str,
        recv_off_expr: &str,
        rng: &mut Rng,
    ) -> Option<(String, CallExp)> {
        let recv = receiver_of(f);
        let mut args_txt = vec![];
        let mut args = vec![];
        for a in &f.arguments {
            if let Argument::Named(_, t) = a {
                let p = classify(env, fn_module, t);
                let ty = expected_ty(env, fn_module, t)?;
                let (txt, v) = arg_literal(&p, &ty, rng);
                args_txt.push(txt);
                args.push((v, mask_of(&p)));
            }
        }
        let ret_prim = f.return_type.as_ref().map(|t| classify(env, fn_module, t));
        let mut body = String::new();
        body.push_str(obj_setup);
        body.push_str(tables);
        body.push_str(&format!("        crate::rt::val(\"recv_off\", ({recv_off_expr}) as ::core::primitive::u64);\n"));
        if let Callee::Abs(a) = &callee {
            body.push_str(&format!(
                "        if !crate::rt::trampoline({a:#x}usize) {{ crate::rt::note(\"unmappable\", \"address not mappable in this process\"); return; }}\n"
            ));
        }
        let words = args.len() as ::core::primitive::u64 + if recv.is_some() { 1 } else { 0 };
        body.push_str(&format!("        crate::rt::expect_words({words});\n"));
        // bool returns must be a valid bool: let the callee hand back 0/1
        if let Some(Prim::Bool) = ret_prim {
            let v = rng.below(2);
            body.push_str(&format!("        crate::rt::set_next_ret({v});\n"));
        }
        let call = match recv {
            Some(false) => format!("{{ let __t = unsafe {{ &*(__o.ptr as *const {tname}) }}; unsafe {{ __t.{method_name}({}) }} }}", args_txt.join(", ")),
            Some(true) => format!("{{ let __t = unsafe {{ &mut *(__o.ptr as *mut {tname}) }}; unsafe {{ __t.{method_name}({}) }} }}", args_txt.join(", ")),
            None => format!("unsafe {{ {tname}::{method_name}({}) }}", args_txt.join(", ")),
        };
        match &ret_prim {
            Some(p) => {
                body.push_str(&format!("        let __r = {call};\n"));
                body.push_str(&format!("        crate::rt::val(\"ret\", {});\n", conv_to_u64(p, "__r")));
            }
            None => body.push_str(&format!("        {call};\n")),
        }
        Some((
            body,
            CallExp {
                callee,
                has_receiver: recv.is_some(),
                args,
                ret_mask: ret_prim.as_ref().map(mask_of),
                placeholder_ids: vec![],
            },
        ))
    }

    fn c06_static(&mut self, env: &Env, b: &Built, path: &str, mps: &str, tname: &str, st: &mut Statics) {
        let Some(ef) = b.efiles.get(mps) else { return };
        let Some(es) = ef.struct_(tname) else { return };
        let own = env.gets_own_vftable_ptr(path);
        let has_field = es.fields.iter().any(|f| f.name == "vftable");
        *st.counters.entry("c06_structs_read".into()).or_insert(0) += 1;
        if own {
            match es.fields.first() {
                Some(f) if f.name == "vftable" => {
                    if f.public {
                        st.bad.push(("C06/vftable-field-public".into(), format!("`{path}.vftable` is public"), "C06"));
                    }
                    let want = format!("*const crate::{path}Vftable");
                    if f.ty != want {
                        st.bad.push(("C06/vftable-field-type".into(), format!("`{path}.vftable` has type `{}`, expected `{want}`", f.ty), "C06"));
                    }
                }
                _ => st.bad.push(("C06/vftable-field-not-first".into(), format!("`{path}` owns its vftable but the first emitted field is not `vftable`"), "C06")),
            }
            if es.fields.iter().filter(|f| f.name == "vftable").count() != 1 {
                st.bad.push(("C06/vftable-field-count".into(), format!("`{path}` must have exactly one vftable field"), "C06"));
            }
        } else if has_field {
            st.bad.push(("C06/derived-has-own-vftable-field".into(), format!("`{path}` takes its vftable from its first base but has its own `vftable` field"), "C06"));
        }
        // accessor return type
        if let Some(em) = ef.method(tname, "vftable") {
            let owner = env.vftable_owner(path).unwrap_or_default();
            let want = format!("*const crate::{owner}Vftable");
            if em.ret.as_deref() != Some(want.as_str()) {
                st.bad.push(("C06/accessor-type".into(), format!("`{path}::vftable()` returns `{:?}`, expected `{want}`", em.ret), "C06"));
            }
        } else {
            st.bad.push(("C06/accessor-missing".into(), format!("`{path}` has a vftable but no vftable() accessor"), "C06"));
        }
    }

    fn c05_static(&mut self, env: &Env, mps: &str, path: &str, f: &Function, em: &crate::emitted::EMethod, st: &mut Statics) {
        let Some(addr) = attr_int(&f.attributes, "address") else { return };
        *st.counters.entry("address_wrappers_read".into()).or_insert(0) += 1;
        let what = format!("`{path}::{}`", f.name);
        // method signature
        let mut want_params: Vec<(String, String)> = vec![];
        let mut want_fn: Vec<(String, String)> = vec![];
        let mut want_call: Vec<String> = vec![];
        for a in &f.arguments {
            match a {
                Argument::ConstSelf => {
                    want_fn.push(("this".into(), "*const Self".into()));
                    want_call.push("self as*const Self as _".into());
                }
                Argument::MutSelf => {
                    want_fn.push(("this".into(), "*mut Self".into()));
                    want_call.push("self as*mut Self as _".into());
                }
                Argument::Named(n, t) => {
                    let ty = expected_ty(env, mps, t).unwrap_or_else(|| "<unbound>".into());
                    want_params.push((n.0.clone(), ty.clone()));
                    want_fn.push((n.0.clone(), ty));
                    want_call.push(n.0.clone());
                }
            }
        }
        let want_ret = f.return_type.as_ref().map(|t| expected_ty(env, mps, t).unwrap_or_else(|| "<unbound>".into()));
        let want_recv = match receiver_of(f) {
            Some(false) => crate::emitted::Receiver::Ref,
            Some(true) => crate::emitted::Receiver::RefMut,
            None => crate::emitted::Receiver::None,
        };
        if em.receiver != want_recv {
            st.bad.push(("C05/receiver".into(), format!("{what}: declared receiver {want_recv:?}, emitted {:?}", em.receiver), "C05"));
        }
        if em.params != want_params {
            st.bad.push(("C05/parameters".into(), format!("{what}: declared parameters {want_params:?}, emitted {:?}", em.params), "C05"));
        }
        if em.ret != want_ret {
            st.bad.push(("C05/return-type".into(), format!("{what}: declared return {want_ret:?}, emitted {:?}", em.ret), "C05"));
        }
        match &em.body {
            Body::Address { address, fnptr, call_args } => {
                if *address != addr as u128 {
                    st.bad.push(("C05/address-literal".into(), format!("{what}: declared address {addr:#x}, emitted {address:#x}"), "C05"));
                }
                let EFnPtr { params, ret, .. } = fnptr;
                if params != &want_fn {
                    st.bad.push(("C05/fn-pointer-parameters".into(), format!("{what}: expected fn({want_fn:?}), emitted fn({params:?})"), "C05"));
                }
                if ret != &want_ret {
                    st.bad.push(("C05/fn-pointer-return".into(), format!("{what}: expected return {want_ret:?}, emitted {ret:?}"), "C05"));
                }
                if call_args != &want_call {
                    st.bad.push(("C05/call-arguments".into(), format!("{what}: expected call args {want_call:?}, emitted {call_args:?}"), "C05"));
                }
            }
            _ => {
                *st.counters.entry("address_wrapper_bodies_unrecognised".into()).or_insert(0) += 1;
            }
        }
    }

    fn c07_static(&mut self, env: &Env, path: &str, me: &refprog::Method, em: &crate::emitted::EMethod, st: &mut Statics) {
        *st.counters.entry("forwarding_bodies_read".into()).or_insert(0) += 1;
        let MKind::Forward { field, target } = &me.kind else { return };
        match &em.body {
            Body::Field { field: ef, func, call_args } if receiver_of(me.func).is_some() => {
                if ef != field || func != target {
                    st.bad.push((
                        "C07/forwards-elsewhere".into(),
                        format!("`{path}::{}` must forward to `self.{field}.{target}` but forwards to `self.{ef}.{func}`", me.name),
                        "C07",
                    ));
                }
                let want: Vec<String> = me
                    .func
                    .arguments
                    .iter()
                    .filter_map(|a| if let Argument::Named(n, _) = a { Some(n.0.clone()) } else { None })
                    .collect();
                if call_args != &want {
                    st.bad.push(("C07/forward-arguments".into(), format!("`{path}::{}` forwards {call_args:?}, expected {want:?}", me.name), "C07"));
                }
            }
            Body::StaticForward { ty, func, call_args } if receiver_of(me.func).is_none() => {
                let want_ty = env
                    .bases(path)
                    .into_iter()
                    .find(|(f, _)| f == field)
                    .and_then(|(_, b)| b)
                    .map(|b| format!("crate::{b}"))
                    .unwrap_or_default();
                if ty != &want_ty || func != target {
                    st.bad.push((
                        "C07/forwards-elsewhere".into(),
                        format!("`{path}::{}` must forward to `<{want_ty}>::{target}` but forwards to `<{ty}>::{func}`", me.name),
                        "C07",
                    ));
                }
                let want: Vec<String> = me
                    .func
                    .arguments
                    .iter()
                    .filter_map(|a| if let Argument::Named(n, _) = a { Some(n.0.clone()) } else { None })
                    .collect();
                if call_args != &want {
                    st.bad.push(("C07/forward-arguments".into(), format!("`{path}::{}` forwards {call_args:?}, expected {want:?}", me.name), "C07"));
                }
            }
            _ => {
                *st.counters.entry("forwarding_bodies_unrecognised".into()).or_insert(0) += 1;
            }
        }
    }

    #[allow(clippy::too_many_arguments)]
    fn asref_steps(&mut self, pc: &mut ProbeCrate, env: &Env, b: &Built, case: usize, mps: &str, path: &str, tname: &str, st: &mut Statics, exps: &mut Vec<StepExp>) {
        let Some(ef) = b.efiles.get(mps) else { return };
        // DFS hierarchy: (field chain with owning types, base type path)
        let mut hier: Vec<(Vec<(String, String)>, String)> = vec![];
        fn dfs(env: &Env, x: &str, chain: &[(String, String)], out: &mut Vec<(Vec<(String, String)>, String)>, depth: usize) {
            if depth > 16 {
                return;
            }
            for (f, b) in env.bases(x) {
                let Some(b) = b else { continue };
                let mut c = chain.to_vec();
                c.push((x.to_string(), f.clone()));
                out.push((c.clone(), b.clone()));
                dfs(env, &b, &c, out, depth + 1);
            }
        }
        dfs(env, path, &[], &mut hier, 0);
        if hier.is_empty() {
            return;
        }
        let mut count: BTreeMap<String, usize> = BTreeMap::new();
        for (_, t) in &hier {
            *count.entry(t.clone()).or_insert(0) += 1;
        }
        for (chain, base) in &hier {
            let target = format!("crate::{base}");
            for mutable in [false, true] {
                let imp = ef.asrefs.iter().find(|a| a.owner == tname && a.target == target && a.mutable == mutable);
                *st.counters.entry("asref_presence_checked".into()).or_insert(0) += 1;
                if count[base] > 1 {
                    if imp.is_some() {
                        st.bad.push(("C07/asref-for-duplicated-base".into(), format!("`{path}` converts to `{base}` although that base occurs {} times", count[base]), "C07"));
                    }
                    continue;
                }
                let Some(imp) = imp else {
                    st.bad.push(("C07/asref-missing".into(), format!("`{path}` has no {} to `{base}`", if mutable { "AsMut" } else { "AsRef" }), "C07"));
                    continue;
                };
                let want_chain: Vec<String> = chain.iter().map(|(_, f)| f.clone()).collect();
                if imp.recognised && imp.chain != want_chain {
                    st.bad.push(("C07/asref-path".into(), format!("`{path}` -> `{base}`: expected field path {want_chain:?}, emitted {:?}", imp.chain), "C07"));
                }
                let off = chain.iter().map(|(t, f)| format!("::std::mem::offset_of!({}, {f})", rust_path(t))).collect::<Vec<_>>().join(" + ");
                let body = if mutable {
                    format!(
                        "        let __o = crate::rt::Obj::new(::std::mem::size_of::<{tname}>(), ::std::mem::align_of::<{tname}>(), 0x5A);\n        crate::rt::val(\"obj\", __o.addr());\n        crate::rt::val(\"want_delta\", ({off}) as ::core::primitive::u64);\n        let __t = unsafe {{ &mut *(__o.ptr as *mut {tname}) }};\n        let __r: &mut {target} = <{tname} as ::std::convert::AsMut<{target}>>::as_mut(__t);\n        crate::rt::val(\"got\", __r as *mut {target} as ::core::primitive::usize as ::core::primitive::u64);\n"
                    )
                } else {
                    format!(
                        "        let __o = crate::rt::Obj::new(::std::mem::size_of::<{tname}>(), ::std::mem::align_of::<{tname}>(), 0x5A);\n        crate::rt::val(\"obj\", __o.addr());\n        crate::rt::val(\"want_delta\", ({off}) as ::core::primitive::u64);\n        let __t = unsafe {{ &*(__o.ptr as *const {tname}) }};\n        let __r: &{target} = <{tname} as ::std::convert::AsRef<{target}>>::as_ref(__t);\n        crate::rt::val(\"got\", __r as *const {target} as ::core::primitive::usize as ::core::primitive::u64);\n"
                    )
                };
                let step = pc.add_step(mps, false, body);
                exps.push(StepExp {
                    step,
                    case,
                    native_only: false,
                    expect: Expect::AsRef { what: format!("{path} -> {base} ({})", if mutable { "AsMut" } else { "AsRef" }) },
                });
            }
        }
    }

    #[allow(clippy::too_many_arguments)]
    fn struct_singleton(&mut self, pc: &mut ProbeCrate, case: usize, mps: &str, path: &str, tname: &str, addr: u64, ef: &crate::emitted::EFile, st: &mut Statics, exps: &mut Vec<StepExp>, rng: &mut Rng) {
        *st.counters.entry("singleton_accessors_read".into()).or_insert(0) += 1;
        match ef.method(tname, "get") {
            None => {
                st.bad.push(("C15/singleton-accessor-missing".into(), format!("`{path}` is a singleton but has no get()"), "C15"));
                return;
            }
            Some(em) => {
                match &em.body {
                    Body::SingletonStruct { address } => {
                        if *address != addr as u128 {
                            st.bad.push(("C15/singleton-address-literal".into(), format!("`{path}::get` reads {address:#x}, declared {addr:#x}"), "C15"));
                        }
                    }
                    _ => {
                        *st.counters.entry("singleton_bodies_unrecognised".into()).or_insert(0) += 1;
                    }
                }
                if em.ret.as_deref() != Some("Option<&'static mut Self>") {
                    st.bad.push(("C15/singleton-return-type".into(), format!("`{path}::get` returns {:?}", em.ret), "C15"));
                }
            }
        }
        let null = rng.chance(1, 4);
        let ptr_expr = if null { "0u64".to_string() } else { "__o.addr()".to_string() };
        let body = format!(
            "        let __o = crate::rt::Obj::new(::std::mem::size_of::<{tname}>().max(1), ::std::mem::align_of::<{tname}>(), 0x3C);\n        let __p: ::core::primitive::u64 = {ptr_expr};\n        crate::rt::val(\"stored\", __p);\n        if !crate::rt::data({addr:#x}usize, &__p.to_le_bytes()) {{ crate::rt::note(\"unmappable\", \"\"); return; }}\n        let __g = unsafe {{ {tname}::get() }};\n        crate::rt::val(\"got\", match __g {{ Some(r) => r as *mut {tname} as ::core::primitive::usize as ::core::primitive::u64, None => 0 }});\n"
        );
        let step = pc.add_step(mps, true, body);
        exps.push(StepExp {
            step,
            case,
            native_only: true,
            expect: Expect::SingletonStruct { what: format!("{path}::get()"), null },
        });
        // the memory at the address changes while the program runs: every call reads it anew
        let order: Vec<usize> = {
            let mut o = vec![1usize, 2, 0, 1, 0, 2];
            o.rotate_left(rng.below(6));
            o
        };
        let mut body = format!(
            "        let __o1 = crate::rt::Obj::new(::std::mem::size_of::<{tname}>().max(1), ::std::mem::align_of::<{tname}>(), 0x3C);\n        let __o2 = crate::rt::Obj::new(::std::mem::size_of::<{tname}>().max(1), ::std::mem::align_of::<{tname}>(), 0x3D);\n        let __ps: [::core::primitive::u64; 3] = [0, __o1.addr(), __o2.addr()];\n"
        );
        for (k, which) in order.iter().enumerate() {
            body.push_str(&format!(
                "        if !crate::rt::data({addr:#x}usize, &__ps[{which}].to_le_bytes()) {{ crate::rt::note(\"unmappable\", \"\"); return; }}\n        crate::rt::val(\"stored{k}\", __ps[{which}]);\n        let __g = unsafe {{ {tname}::get() }};\n        crate::rt::val(\"got{k}\", match __g {{ Some(r) => r as *mut {tname} as ::core::primitive::usize as ::core::primitive::u64, None => 0 }});\n"
            ));
        }
        let step = pc.add_step(mps, true, body);
        exps.push(StepExp {
            step,
            case,
            native_only: true,
            expect: Expect::SingletonSequence { what: format!("{path}::get() while the slot is rewritten"), n: order.len() },
        });
    }

    #[allow(clippy::too_many_arguments)]
    fn enum_singleton(&mut self, pc: &mut ProbeCrate, _b: &Built, case: usize, mps: &str, tname: &str, addr: u64, ed: &pyxis::grammar::EnumDefinition, ef: &crate::emitted::EFile, st: &mut Statics, exps: &mut Vec<StepExp>, rng: &mut Rng) {
        let path = format!("{mps}::{tname}");
        *st.counters.entry("singleton_accessors_read".into()).or_insert(0) += 1;
        match ef.method(tname, "get") {
            None => {
                st.bad.push(("C15/singleton-accessor-missing".into(), format!("`{path}` is a singleton but has no get()"), "C15"));
                return;
            }
            Some(em) => match &em.body {
                Body::SingletonEnum { address } => {
                    if *address != addr as u128 {
                        st.bad.push(("C15/singleton-address-literal".into(), format!("`{path}::get` reads {address:#x}, declared {addr:#x}"), "C15"));
                    }
                }
                _ => {
                    *st.counters.entry("singleton_bodies_unrecognised".into()).or_insert(0) += 1;
                }
            },
        }
        // pick a listed variant; store its discriminant bytes at the address
        let n = ed.statements.len();
        if n == 0 {
            return;
        }
        let k = rng.below(n);
        let vname = ed.statements[k].name.as_str();
        let body = format!(
            "        let __v = {tname}::{vname} as i128;\n        crate::rt::sval(\"stored\", __v);\n        let __bytes = (__v as i64).to_le_bytes();\n        if !crate::rt::data({addr:#x}usize, &__bytes[..::std::mem::size_of::<{tname}>()]) {{ crate::rt::note(\"unmappable\", \"\"); return; }}\n        let __g = unsafe {{ {tname}::get() }};\n        crate::rt::sval(\"got\", __g as i128);\n"
        );
        let step = pc.add_step(mps, true, body);
        exps.push(StepExp {
            step,
            case,
            native_only: true,
            expect: Expect::SingletonEnum { what: format!("{path}::get()"), value: 0 },
        });
    }

    #[allow(clippy::too_many_arguments)]
    fn extern_value(&mut self, pc: &mut ProbeCrate, env: &Env, case: usize, mps: &str, ev: &pyxis::grammar::ExternValue, ef: &crate::emitted::EFile, st: &mut Statics, exps: &mut Vec<StepExp>) {
        let Some(addr) = attr_int(&ev.attributes, "address") else { return };
        let fname = format!("get_{}", ev.name);
        *st.counters.entry("extern_accessors_read".into()).or_insert(0) += 1;
        let Some(f) = ef.fns.iter().find(|f| f.name == fname) else {
            st.bad.push(("C15/extern-accessor-missing".into(), format!("`{mps}::{fname}` not emitted"), "C15"));
            return;
        };
        let want_ty = expected_ty(env, mps, &ev.type_).unwrap_or_else(|| "<unbound>".into());
        match &f.kind {
            crate::emitted::FnKind::ExternGetter { address, ty, ret_ty } => {
                if *address != addr as u128 {
                    st.bad.push(("C15/extern-address-literal".into(), format!("`{mps}::{fname}` uses {address:#x}, declared {addr:#x}"), "C15"));
                }
                if ty != &want_ty {
                    st.bad.push(("C15/extern-type".into(), format!("`{mps}::{fname}` casts to `*mut {ty}`, declared type `{want_ty}`"), "C15"));
                }
                let want_ret = crate::emitted::squeeze(&format!("&'static mut {want_ty}"));
                if ret_ty != &want_ret {
                    st.bad.push(("C15/extern-return-type".into(), format!("`{mps}::{fname}` returns `{ret_ty}`, expected `{want_ret}`"), "C15"));
                }
            }
            _ => {
                *st.counters.entry("extern_bodies_unrecognised".into()).or_insert(0) += 1;
            }
        }
        if !f.unsafe_ {
            st.bad.push(("C15/extern-accessor-safe".into(), format!("`{mps}::{fname}` is not an unsafe fn"), "C15"));
        }
        // written with full paths for predefined types: if the accessor's type is the module's own
        // item of that name instead, the binding below does not type-check (TYPE-ASSERT line)
        let want_ty = code_ty(env, mps, &ev.type_).unwrap_or(want_ty);
        let body = format!(
            "        let __sz = ::std::mem::size_of::<{want_ty}>().max(1);\n        let __fill = vec![0x77u8; __sz];\n        if !crate::rt::data({addr:#x}usize, &__fill) {{ crate::rt::note(\"unmappable\", \"\"); return; }}\n        let __r: &'static mut {want_ty} = unsafe {{ {fname}() }}; /* TYPE-ASSERT: C15 the type of {fname}() as compiled is the declared type */\n        crate::rt::val(\"got\", __r as *mut {want_ty} as ::core::primitive::usize as ::core::primitive::u64);\n        crate::rt::val(\"first_byte\", unsafe {{ *(__r as *mut {want_ty} as *const ::core::primitive::u8) }} as ::core::primitive::u64);\n"
        );
        // zero-sized types: reading the first byte is still inside the mapped page
        let step = pc.add_step(mps, true, body);
        exps.push(StepExp {
            step,
            case,
            native_only: true,
            expect: Expect::ExternValue { what: format!("{mps}::{fname}()"), address: addr as ::core::primitive::u64 },
        });
    }
}

/// What a method of `path` finally calls: (callee, chain of (owning type, field) to
/// the sub-object that is the receiver, the declaring function, its module).
#[allow(clippy::type_complexity)]
pub fn resolve_target<'a>(
    env: &Env<'a>,
    path: &str,
    name: &str,
    stubs: &BTreeMap<(String, usize), (u64, bool)>,
) -> Option<(Callee, Vec<(String, String)>, &'a Function, String)> {
    let methods = env.associated(path);
    if let Some(me) = methods.iter().find(|m| m.name == name) {
        match &me.kind {
            MKind::Own => {
                let a = attr_int(&me.func.attributes, "address")?;
                return Some((Callee::Abs(a as ::core::primitive::u64), vec![], me.func, refprog::parent_of(path).to_string()));
            }
            MKind::Forward { field, target } => {
                let base = env.bases(path).into_iter().find(|(f, _)| f == field)?.1?;
                let (c, mut chain, f, m) = resolve_target(env, &base, target, stubs)?;
                chain.insert(0, (path.to_string(), field.clone()));
                return Some((c, chain, f, m));
            }
        }
    }
    // a virtual function of `path` itself
    let (owner, fs, size) = env.virtuals(path)?;
    let sl = refprog::slots(fs, size).ok()?;
    for (i, s) in sl.iter().enumerate() {
        if let Slot::Func(f) = s {
            if f.name.as_str() == name {
                let (id, _) = stubs.get(&(owner.clone(), i))?;
                return Some((Callee::Stub(*id), vec![], f, refprog::parent_of(&owner).to_string()));
            }
        }
    }
    None
}

// ---------------------------------------------------------------------------
// judging a step log

fn num(step: &StepLog, name: &str) -> Option<i128> {
    crate::probe::vals(step).get(name).copied()
}

pub fn judge_step(e: &StepExp, log: &RunLog, runtime: &str, bad: &mut Vec<(String, String)>, stats: &mut BTreeMap<String, u64>) {
    if e.native_only && runtime == "miri" {
        return;
    }
    let Some(st) = log.steps.get(&e.step) else {
        *stats.entry(format!("{runtime}/steps_not_run")).or_insert(0) += 1;
        return;
    };
    if st.events.iter().any(|v| v["k"] == "note" && v["name"] == "unmappable") {
        *stats.entry(format!("{runtime}/unmappable_addresses")).or_insert(0) += 1;
        return;
    }
    let crashed = log.crashes.iter().find(|c| c.0 == e.step);
    let (prop, what) = match &e.expect {
        Expect::Call { prop, what, .. } => (*prop, what.clone()),
        Expect::VftableAccessor { what } => ("C06", what.clone()),
        Expect::AsRef { what } => ("C07", what.clone()),
        Expect::SingletonStruct { what, .. } | Expect::SingletonSequence { what, .. } | Expect::SingletonEnum { what, .. } | Expect::ExternValue { what, .. } => ("C15", what.clone()),
    };
    if let Some((_, why)) = crashed {
        bad.push((format!("{prop}/crash"), format!("[{runtime}] {what}: {why}")));
        return;
    }
    if let Some(p) = &st.panic {
        bad.push((format!("{prop}/panic"), format!("[{runtime}] {what}: probe step panicked: {p}")));
        return;
    }
    if !st.ended {
        *stats.entry(format!("{runtime}/steps_incomplete")).or_insert(0) += 1;
        return;
    }
    match &e.expect {
        Expect::Call { prop, what, exp } => {
            if *prop == "C04" && num(st, "primary_off").unwrap_or(0) != 0 {
                // the property assumes a vftable-carrying first base at offset 0
                *stats.entry(format!("{runtime}/C04/outside_offset0_assumption")).or_insert(0) += 1;
                return;
            }
            let obj = num(st, "obj").unwrap_or(0) as ::core::primitive::u64;
            let recv_off = num(st, "recv_off").unwrap_or(0) as ::core::primitive::u64;
            let calls: Vec<&serde_json::Value> = st.events.iter().filter(|v| v["k"] == "stub" || v["k"] == "abs").collect();
            *stats.entry(format!("{runtime}/{prop}/calls_observed")).or_insert(0) += calls.len() as ::core::primitive::u64;
            *stats.entry(format!("{runtime}/{prop}/wrapper_invocations")).or_insert(0) += 1;
            if calls.len() != 1 {
                bad.push((format!("{prop}/call-count"), format!("[{runtime}] {what}: expected exactly one callee entry, log has {}", calls.len())));
                if calls.is_empty() {
                    return;
                }
            }
            let c = calls[0];
            // which callee
            match &exp.callee {
                Callee::Stub(id) => {
                    if c["k"] != "stub" || c["id"].as_u64() != Some(*id) {
                        let got = c["id"].as_u64().unwrap_or(0);
                        let sig = if exp.placeholder_ids.contains(&got) { "placeholder-called" } else { "wrong-slot" };
                        bad.push((format!("{prop}/{sig}"), format!("[{runtime}] {what}: expected stub {id}, entered {}", c)));
                    }
                }
                Callee::Abs(a) => {
                    if c["k"] != "abs" || c["addr"].as_u64() != Some(*a) {
                        bad.push((format!("{prop}/wrong-address"), format!("[{runtime}] {what}: expected entry at {a:#x}, entered {}", c)));
                    }
                }
            }
            let words: Vec<u64> = c[if c["k"] == "stub" { "args" } else { "words" }]
                .as_array()
                .map(|a| a.iter().map(|v| v.as_u64().unwrap_or(0)).collect())
                .unwrap_or_default();
            let mut k = 0usize;
            if exp.has_receiver {
                let want = obj.wrapping_add(recv_off);
                if words.first().copied() != Some(want) {
                    bad.push((format!("{prop}/receiver"), format!("[{runtime}] {what}: callee saw receiver {:#x?}, expected object {obj:#x} + {recv_off:#x}", words.first())));
                }
                k = 1;
            }
            for (i, (v, m)) in exp.args.iter().enumerate() {
                let got = words.get(k + i).copied();
                if got.map(|g| g & m) != Some(v & m) {
                    bad.push((format!("{prop}/argument"), format!("[{runtime}] {what}: argument {i} passed {:#x} (mask {m:#x}) but callee saw {got:#x?}", v)));
                    break;
                }
            }
            if c["k"] == "stub" && words.len() != k + exp.args.len() {
                bad.push((format!("{prop}/argument-count"), format!("[{runtime}] {what}: callee saw {} words, expected {}", words.len(), k + exp.args.len())));
            }
            if let Some(m) = exp.ret_mask {
                let ret_seen = num(st, "ret").map(|v| v as ::core::primitive::u64);
                let ret_given = c["ret"].as_u64();
                if ret_seen.map(|r| r & m) != ret_given.map(|r| r & m) {
                    bad.push((format!("{prop}/return-value"), format!("[{runtime}] {what}: callee returned {ret_given:#x?}, wrapper returned {ret_seen:#x?} (mask {m:#x})")));
                }
            }
        }
        Expect::VftableAccessor { what } => {
            *stats.entry(format!("{runtime}/C06/accessors_executed")).or_insert(0) += 1;
            let want = num(st, "primary_table");
            let got = num(st, "accessor");
            if want.is_none() || want != got {
                bad.push(("C06/accessor-value".into(), format!("[{runtime}] {what}: pointer stored at the base sub-object {want:#x?}, accessor returned {got:#x?}")));
            }
        }
        Expect::AsRef { what } => {
            *stats.entry(format!("{runtime}/C07/conversions_executed")).or_insert(0) += 1;
            let obj = num(st, "obj").unwrap_or(0);
            let want = num(st, "want_delta").unwrap_or(-1);
            let got = num(st, "got").unwrap_or(0);
            if got - obj != want {
                bad.push(("C07/asref-address".into(), format!("[{runtime}] {what}: returned object+{:#x}, the sub-object is at +{want:#x}", got - obj)));
            }
        }
        Expect::SingletonStruct { what, null } => {
            *stats.entry(format!("{runtime}/C15/accessors_executed")).or_insert(0) += 1;
            let stored = num(st, "stored").unwrap_or(-1);
            let got = num(st, "got").unwrap_or(-2);
            if stored != got || (*null && got != 0) {
                bad.push(("C15/singleton-struct".into(), format!("[{runtime}] {what}: pointer stored at the address {stored:#x}, get() yielded {got:#x}")));
            }
        }
        Expect::SingletonSequence { what, n } => {
            *stats.entry(format!("{runtime}/C15/accessor_sequences_executed")).or_insert(0) += 1;
            for k in 0..*n {
                let stored = num(st, &format!("stored{k}")).unwrap_or(-1);
                let got = num(st, &format!("got{k}")).unwrap_or(-2);
                if stored != got {
                    bad.push(("C15/singleton-struct-stale".into(), format!("[{runtime}] {what}: call {k} of the sequence: the address holds {stored:#x}, get() yielded {got:#x}")));
                    break;
                }
            }
        }
        Expect::SingletonEnum { what, .. } => {
            *stats.entry(format!("{runtime}/C15/accessors_executed")).or_insert(0) += 1;
            let stored = num(st, "stored");
            let got = num(st, "got");
            if stored.is_none() || stored != got {
                bad.push(("C15/singleton-enum".into(), format!("[{runtime}] {what}: value stored {stored:?}, get() returned {got:?}")));
            }
        }
        Expect::ExternValue { what, address } => {
            *stats.entry(format!("{runtime}/C15/accessors_executed")).or_insert(0) += 1;
            let got = num(st, "got").map(|v| v as ::core::primitive::u64);
            if got != Some(*address) {
                bad.push(("C15/extern-address".into(), format!("[{runtime}] {what}: reference points to {got:#x?}, declared address {address:#x}")));
            }
            if num(st, "first_byte") != Some(0x77) {
                bad.push(("C15/extern-content".into(), format!("[{runtime}] {what}: first byte read through the reference is {:?}, memory at the address holds 0x77", num(st, "first_byte"))));
            }
        }
    }
}
