//! Runners for the execution-based properties C04, C05, C06, C07, C15.

use crate::exec::{ExecBuilder, Statics, StepExp};
use crate::gen_prog::{self, Cfg};
use crate::l2::{self, BuildOutcome, Built};
use crate::layout_props::{case_json, mods_from_case, structural_hash};
use crate::probe::{self, ProbeCrate, RunLog};
use crate::rng::Rng;
use crate::verdict::{Ctx, Tier};
use pyxis::grammar::{ItemPath, Module};
use rayon::prelude::*;
use serde_json::{json, Value};
use std::collections::{BTreeMap, BTreeSet};

pub struct BatchResult {
    /// (case index in batch, signature, detail)
    pub bad: Vec<(usize, String, String)>,
    pub stats: BTreeMap<String, u64>,
    pub dropped: Vec<(usize, Vec<String>)>,
    /// (case index, first compiler error located inside the emitted text)
    pub emitted_compile_errors: Vec<(usize, String)>,
    /// (case index, assertion text "<Cxx> ...", compiler message)
    pub type_assertions_failed: Vec<(usize, String, String)>,
    pub inconclusive: Vec<String>,
    pub steps: usize,
    /// case indices that had at least one executed step of the property
    pub executed_cases: BTreeSet<usize>,
}

#[derive(Clone, Copy, PartialEq, Eq, Debug)]
pub enum Runtime {
    Native,
    Valgrind,
    Asan,
    Miri,
}
impl Runtime {
    fn name(&self) -> &'static str {
        match self {
            Runtime::Native => "native",
            Runtime::Valgrind => "valgrind",
            Runtime::Asan => "asan",
            Runtime::Miri => "miri",
        }
    }
}

fn case_of_file(line: &str, cases: &[&Built]) -> Option<usize> {
    let file = line.split(':').next()?;
    let name = file.rsplit('/').next()?;
    cases.iter().position(|b| name.starts_with(&b.id))
}

/// Build one probe crate for `cases` with the steps of `props`, run it under the
/// given runtimes and judge every step.
pub fn run_batch(cases: &[&Built], props: &[&'static str], seed: u64, runtimes: &[Runtime]) -> BatchResult {
    let mut res = BatchResult {
        bad: vec![],
        stats: BTreeMap::new(),
        dropped: vec![],
        emitted_compile_errors: vec![],
        type_assertions_failed: vec![],
        inconclusive: vec![],
        steps: 0,
        executed_cases: BTreeSet::new(),
    };
    let mut active: Vec<usize> = (0..cases.len()).collect();
    for _attempt in 0..5 {
        if active.is_empty() {
            return res;
        }
        let mut pc = ProbeCrate::new();
        let mut eb = ExecBuilder::new(props);
        let mut exps: Vec<StepExp> = vec![];
        let mut statics = Statics::default();
        for &i in &active {
            let mut rng = Rng::derive(seed, 0xE0E0 + i as u64);
            l2::add_case_files(&mut pc, cases[i], true);
            let mut st = Statics::default();
            exps.extend(eb.add_case(&mut pc, cases[i], i, &mut rng, &mut st));
            for (sig, detail, prop) in st.bad {
                if props.contains(&prop) {
                    res.bad.push((i, sig, detail));
                }
            }
            for (k, v) in st.counters {
                *statics.counters.entry(k).or_insert(0) += v;
            }
        }
        let scratch = probe::scratch("exec");
        let root = pc.write(&scratch.path);
        let bin = scratch.path.join("probe_bin");
        let built = probe::build_native(&root, &bin);
        if !built.ok {
            let mut culprits: BTreeMap<usize, Vec<String>> = BTreeMap::new();
            // an error located in the text pyxis emitted (above the probe builder's marker
            // line) means an accepted declaration has a wrapper that cannot be called at all
            let emitted_lines: BTreeMap<String, usize> = pc.modules.iter().map(|(p, mf)| (p.replace("::", "__"), mf.emitted.lines().count())).collect();
            for line in built.stderr.lines() {
                if line.contains("error") {
                    if let Some(ci) = case_of_file(line, cases) {
                        culprits.entry(ci).or_default().push(crate::verdict::one_line(line, 300));
                        let mut parts = line.split(':');
                        let file = parts.next().unwrap_or("").rsplit('/').next().unwrap_or("").trim_end_matches(".rs").to_string();
                        let ln: usize = parts.next().and_then(|x| x.trim().parse().ok()).unwrap_or(usize::MAX);
                        if emitted_lines.get(&file).map(|n| ln <= *n).unwrap_or(false) && !res.emitted_compile_errors.iter().any(|(c, _)| *c == ci) {
                            res.emitted_compile_errors.push((ci, crate::verdict::one_line(line, 300)));
                        }
                        // a type assertion written by the probe builder does not hold
                        let src_line = std::fs::read_to_string(line.split(':').next().unwrap_or("")).ok().and_then(|t| t.lines().nth(ln.saturating_sub(1)).map(|l| l.to_string())).unwrap_or_default();
                        if let Some(i) = src_line.find("TYPE-ASSERT: ") {
                            let what = src_line[i + 13..].trim_end_matches("*/").trim().to_string();
                            if !res.type_assertions_failed.iter().any(|(c, w, _)| *c == ci && *w == what) {
                                res.type_assertions_failed.push((ci, what, crate::verdict::one_line(line, 300)));
                            }
                        }
                    }
                }
            }
            if culprits.is_empty() {
                res.inconclusive.push(format!("probe crate failed to compile, unattributed: {}", crate::verdict::one_line(&built.stderr, 400)));
                return res;
            }
            // static findings of dropped cases stay; forget the rest and retry
            res.bad.retain(|(i, _, _)| culprits.contains_key(i));
            let keep_bad: Vec<(usize, String, String)> = res.bad.clone();
            res.bad = keep_bad;
            for (ci, errs) in culprits {
                active.retain(|x| *x != ci);
                res.dropped.push((ci, errs));
            }
            // recompute statics on retry: clear non-dropped findings
            let dropped_set: BTreeSet<usize> = res.dropped.iter().map(|d| d.0).collect();
            res.bad.retain(|(i, _, _)| dropped_set.contains(i));
            continue;
        }
        for (k, v) in statics.counters {
            *res.stats.entry(k).or_insert(0) += v;
        }
        res.steps = exps.len();
        let last = pc.next_step;
        for rt in runtimes {
            let log: RunLog = match rt {
                Runtime::Native => probe::run_native(&bin, last),
                Runtime::Valgrind => probe::run_valgrind(&bin, last),
                Runtime::Asan => {
                    let abin = scratch.path.join("probe_asan");
                    let b = probe::build_asan(&root, &abin);
                    if !b.ok {
                        res.inconclusive.push(format!("asan build failed: {}", crate::verdict::one_line(&b.stderr, 300)));
                        continue;
                    }
                    probe::run_asan(&abin, last)
                }
                Runtime::Miri => probe::run_miri(&scratch.path, last, &scratch.path.join("miri-target")),
            };
            if let Some(r) = &log.inconclusive {
                if *rt == Runtime::Native {
                    res.inconclusive.push(format!("{}: {r}", rt.name()));
                } else {
                    // a secondary instrument that could not run (tool start-up failure under load,
                    // watchdog) adds no observations; it is recorded, not turned into a verdict
                    *res.stats.entry(format!("{}/runs_without_result", rt.name())).or_insert(0) += 1;
                    eprintln!("{} run without result: {}", rt.name(), crate::verdict::one_line(r, 200));
                }
            }
            *res.stats.entry(format!("{}/runs", rt.name())).or_insert(0) += 1;
            *res.stats.entry(format!("{}/restarts_after_crash", rt.name())).or_insert(0) += log.restarts as u64;
            let mut bad = vec![];
            for e in &exps {
                let n0 = bad.len();
                crate::exec::judge_step(e, &log, rt.name(), &mut bad, &mut res.stats);
                if log.steps.get(&e.step).map(|s| s.ended).unwrap_or(false) {
                    res.executed_cases.insert(e.case);
                }
                for (sig, detail) in bad.drain(n0..).collect::<Vec<_>>() {
                    res.bad.push((e.case, sig, detail));
                }
            }
            // sanitizer / valgrind / miri reports
            for (step, text) in &log.reports {
                *res.stats.entry(format!("{}/tool_reports", rt.name())).or_insert(0) += 1;
                let owner = step.and_then(|s| exps.iter().find(|e| e.step == s));
                let (case, prop) = match owner {
                    Some(e) => (
                        e.case,
                        match &e.expect {
                            crate::exec::Expect::Call { prop, .. } => *prop,
                            crate::exec::Expect::VftableAccessor { .. } => "C06",
                            crate::exec::Expect::AsRef { .. } => "C07",
                            _ => "C15",
                        },
                    ),
                    None => (active[0], props[0]),
                };
                res.bad.push((case, format!("{prop}/{}-report", rt.name()), format!("step {step:?}: {text}")));
            }
        }
        return res;
    }
    res
}

fn cfg_for(prop: &str, ptrw: usize, id: &str) -> Cfg {
    let mut c = Cfg::rich(ptrw, id);
    c.docs = false;
    c.backends = false;
    match prop {
        "C04" | "C06" => {
            c.impls = false;
            c.singletons = false;
            c.extern_values = false;
            c.max_types = 6;
        }
        "C05" => {
            c.singletons = false;
            c.extern_values = false;
        }
        "C07" => {
            c.singletons = false;
            c.extern_values = false;
            c.max_types = 7;
        }
        "C15" => {
            c.vftables = false;
            c.impls = false;
            c.bases = false;
        }
        _ => {}
    }
    c
}

pub struct Plan {
    pub n_cases: usize,
    pub batch: usize,
    pub valgrind_batches: usize,
    pub miri_batches: usize,
    pub asan_batches: usize,
    pub miri_batch_cases: usize,
}

fn plan(prop: &str, tier: Tier) -> Plan {
    match tier {
        Tier::Quick => Plan {
            n_cases: 360,
            batch: 24,
            valgrind_batches: 2,
            miri_batches: if prop == "C05" || prop == "C15" { 0 } else { 2 },
            asan_batches: 0,
            miri_batch_cases: 8,
        },
        Tier::Thorough => Plan {
            n_cases: 4000,
            batch: 24,
            valgrind_batches: 40,
            miri_batches: if prop == "C05" || prop == "C15" { 0 } else { 32 },
            asan_batches: 40,
            miri_batch_cases: 10,
        },
    }
}

pub fn extra_cases(prop: &str, seed: u64, first_id: usize, tier: Tier) -> Vec<(String, Vec<(ItemPath, Module)>, usize)> {
    match prop {
        "C07" => crate::gen_special::c07_cases(seed, first_id, tier.pick(80, 800)),
        "C06" => crate::gen_special::c06_shapes(first_id),
        "C04" => {
            // dedicated tables, plus hierarchies in which a later base, not the first, has a table
            // (the derived type's own block then needs its own pointer at offset 0)
            let mut v = crate::gen_special::c04_tables(seed, first_id, tier.pick(60, 600));
            let lb: Vec<_> = crate::gen_special::c06_later_base_shapes(first_id + v.len()).into_iter().filter(|c| c.2 == 8).collect();
            v.extend(lb);
            // hierarchies of three levels in which virtual functions of later bases are
            // re-exposed (and renamed on a clash) more than once
            let deep = crate::gen_special::c07_cases(seed, first_id + v.len(), tier.pick(24, 240));
            v.extend(deep);
            v
        }
        "C15" => {
            let mut v = crate::gen_special::c15_cases(seed, first_id, tier.pick(80, 800));
            let sp: Vec<_> = crate::gen_special::shadow_programs(first_id + v.len()).into_iter().filter(|c| c.2 == 8).collect();
            v.extend(sp);
            v
        }
        "C05" => crate::gen_special::c05_cases(seed, first_id, tier.pick(80, 800)),
        _ => vec![],
    }
}

pub fn run(ctx: &mut Ctx, prop: &'static str) {
    let pl = plan(prop, ctx.tier);
    let seed = ctx.seed;
    ctx.rule = match prop {
        "C04" => "accepted types that own or inherit a vftable (random tables up to ~8 functions with increasing #[index] jumps, #[size] padding, &self/&mut self, 0-5 integer/bool/pointer arguments, optional return; own-vftable and inherited-from-first-base types) from the rich generator plus dedicated table cases; every non-internal virtual wrapper is executed on a raw-memory object against a raw fake table of exactly nslots entries whose entries are distinct typed recording stubs: exactly one stub entry, the stub of the function's slot, receiver = object address, arguments in order under their width mask, returned value = stub's token; natively, under valgrind memcheck and under Miri (thorough: also ASan). Slot signatures and wrapper bodies are also read from the emitted text. non-trivial = case with an executed virtual call; distinct by structural hash",
        "C05" => "accepted impl blocks (0-5 integer/bool/pointer arguments, &self/&mut self/no receiver, optional return, addresses spelt in any base) from the rich generator plus dedicated cases; for every address-bound wrapper the emitted text is compared (address literal, receiver, parameter names/types, fn-pointer type, call argument order, return type) and the wrapper is executed natively and under valgrind against a trampoline mapped at the declared absolute address that records the address entered, the argument registers/stack words and the returned token; negative cases (missing address, unresolvable parameter or return type, #[index] on a non-virtual function) must be rejected. non-trivial = case with an executed address-bound call or a negative case; distinct by structural hash",
        "C06" => "inheritance shapes: chain depth 1-4 x 1-3 bases per type x each base with/without vftable x derived with/without own block (enumerated) plus the rich generator; accepted derived types must have no vftable field of their own, owners exactly one private pointer-sized `vftable` field first, and the executed vftable() accessor must return the pointer stored at the base sub-object (native, valgrind, Miri); every single-slot mutation of a compatible derived table (rename, receiver mutability, parameter type, return type added/removed/changed, calling convention, truncation) must be rejected. non-trivial = accepted derived type with a vftable-bearing first base, or a mutant; distinct by structural hash",
        "C07" => "hierarchies of depth 1-4 with up to 3 bases per level, diamonds, name clashes between bases, public/private mixes; every re-exposed base member (associated functions transitively, virtual functions of non-first bases) must exist under <name> or <field>_<name> and, when executed, enter the same callee as the original with the receiver equal to object + compiler-computed offset of the sub-object, same arguments and return value; AsRef/AsMut to every base type occurring once must return object + sub-object offset and must be absent for base types occurring more than once (native, valgrind, Miri for the vftable/AsRef part). non-trivial = case with an executed forwarded call or conversion; distinct by structural hash",
        _ => "singleton declarations on types and enums and extern values of scalar/pointer/array/user types, addresses spelt in any base; executed natively and under valgrind with data mapped at the declared absolute address: struct get() must yield the pointer stored there (or None for null), enum get() the stored value, get_<name>() a reference to exactly the declared address with the declared type; the address literal and types are also read from the emitted text; an extern value without address must be rejected. non-trivial = case with an executed accessor; distinct by structural hash",
    }
    .into();
    ctx.assumptions.push("execution happens on the 64-bit host with every calling convention normalised to \"C\"; pointer width 4 is covered by the layout/text monitors only".into());
    ctx.assumptions.push("a first base that carries the vftable pointer sits at offset 0 (stated in the property)".into());

    // generate
    let mut inputs: Vec<(String, Vec<(ItemPath, Module)>, usize)> = (0..pl.n_cases)
        .into_par_iter()
        .map(|i| {
            let mut rng = Rng::derive(seed, 0x0400_0000 + i as u64);
            let id = format!("k{i}_");
            let cfg = cfg_for(prop, 8, &id);
            let g = gen_prog::generate(&mut rng, &cfg);
            (id, g.mods, 8usize)
        })
        .collect();
    let extra = extra_cases(prop, seed, inputs.len(), ctx.tier);
    ctx.count("dedicated_cases", extra.len() as u64);
    inputs.extend(extra);

    // Every case is built right after ANOTHER input set that uses the same module and type
    // paths with different contents (the same generator position under another seed), on the
    // same thread: whatever pyxis keeps between builds (per-thread or process-wide tables keyed
    // by path or type) then meets a different definition under the same key. The outcome of the
    // earlier build is ignored; the judged build must be what the case alone describes.
    let n_generated = pl.n_cases;
    let decoy_extra = extra_cases(prop, seed ^ 0x5EED_DEC0, n_generated, ctx.tier);
    let decoys: Vec<Option<Vec<(ItemPath, Module)>>> = inputs
        .iter()
        .enumerate()
        .map(|(i, (id, _, _))| {
            if i < n_generated {
                let mut rng = Rng::derive(seed ^ 0x5EED_DEC0, 0x0400_0000 + i as u64);
                Some(gen_prog::generate(&mut rng, &cfg_for(prop, 8, id)).mods)
            } else {
                decoy_extra.get(i - n_generated).filter(|d| &d.0 == id).map(|d| d.1.clone())
            }
        })
        .collect();
    ctx.count("cases_built_after_a_same-named_other_build", decoys.iter().filter(|d| d.is_some()).count() as u64);
    let built: Vec<BuildOutcome> = inputs
        .par_iter()
        .zip(decoys.par_iter())
        .map(|((id, mods, ptrw), decoy)| {
            if let Some(d) = decoy {
                let _ = crate::drive::build_modules(d, *ptrw, crate::drive::Opts::default());
            }
            l2::build_mods(id, mods, *ptrw)
        })
        .collect();
    let mut accepted: Vec<Built> = vec![];
    for o in built {
        ctx.eval();
        match o {
            BuildOutcome::Built(b) => accepted.push(b),
            BuildOutcome::Rejected(e) => {
                ctx.count("rejected_by_pyxis", 1);
                if e.stage == crate::drive::Stage::Panic {
                    ctx.count("pyxis_panicked", 1);
                }
            }
            BuildOutcome::Unparsable { .. } => ctx.count("emitted_unparsable", 1),
        }
    }
    ctx.count("accepted", accepted.len() as u64);

    // batches
    let chunks: Vec<Vec<&Built>> = accepted.chunks(pl.batch).map(|c| c.iter().collect()).collect();
    let props = [prop];
    let results: Vec<BatchResult> = chunks
        .par_iter()
        .enumerate()
        .map(|(bi, chunk)| {
            let mut rts = vec![Runtime::Native];
            if bi < pl.valgrind_batches {
                rts.push(Runtime::Valgrind);
            }
            if bi < pl.asan_batches {
                rts.push(Runtime::Asan);
            }
            run_batch(chunk, &props, seed ^ (bi as u64) << 20, &rts)
        })
        .collect();
    // Miri on small batches of their own (slow interpreter)
    let miri_results: Vec<(usize, BatchResult)> = (0..pl.miri_batches.min(chunks.len()))
        .into_par_iter()
        .map(|bi| {
            let sub: Vec<&Built> = chunks[bi].iter().take(pl.miri_batch_cases).copied().collect();
            (bi, run_batch(&sub, &props, seed ^ (bi as u64) << 20, &[Runtime::Miri]))
        })
        .collect();

    let mut absorb = |ctx: &mut Ctx, chunk: &Vec<&Built>, r: BatchResult| {
        for (k, v) in &r.stats {
            ctx.count(k, *v);
        }
        for (ci, err) in &r.emitted_compile_errors {
            let b = chunk[*ci];
            ctx.violation(&format!("{prop}/emitted-code-does-not-compile"), &format!("the emitted module of an accepted input does not compile, so its wrappers cannot be invoked: {err}"), case_json(&b.mods, b.ptrw));
        }
        for (ci, what, err) in &r.type_assertions_failed {
            let b = chunk[*ci];
            if what.starts_with(prop) {
                ctx.violation(&format!("{prop}/type-as-compiled"), &format!("{what}: {err}"), case_json(&b.mods, b.ptrw));
            }
        }
        for (ci, errs) in &r.dropped {
            ctx.count("cases_dropped_compile_error", 1);
            if ctx.counter("compile_error_examples") < 3 {
                ctx.count("compile_error_examples", 1);
                eprintln!("compile error in case {}: {}", chunk[*ci].id, errs.first().cloned().unwrap_or_default());
            }
        }
        for inc in &r.inconclusive {
            ctx.count("batch_inconclusive", 1);
            eprintln!("batch inconclusive: {inc}");
            ctx.inconclusive(crate::verdict::one_line(inc, 200));
        }
        for ci in &r.executed_cases {
            let b = chunk[*ci];
            ctx.nontrivial(structural_hash(&b.mods, &b.id));
            if ctx.counter("sampled_cases") < 2 {
                ctx.count("sampled_cases", 1);
                ctx.sample(json!({"case": case_json(&b.mods, b.ptrw), "probe_steps_in_batch": r.steps}));
            }
        }
        let mut seen = BTreeSet::new();
        for (ci, sig, detail) in r.bad {
            if seen.insert((ci, sig.clone())) {
                let b = chunk[ci];
                ctx.violation(&sig, &detail, case_json(&b.mods, b.ptrw));
            }
        }
    };
    for (chunk, r) in chunks.iter().zip(results) {
        absorb(ctx, chunk, r);
    }
    for (bi, r) in miri_results {
        let sub: Vec<&Built> = chunks[bi].iter().take(pl.miri_batch_cases).copied().collect();
        absorb(ctx, &sub, r);
    }

    // negatives
    crate::gen_special::negatives(ctx, prop);
    if prop == "C04" {
        c04_slot_phase(ctx);
        c04_layout_phase(ctx);
    }

    let floor = match (prop, ctx.tier) {
        ("C04", Tier::Quick) => 100,
        ("C05", Tier::Quick) => 100,
        ("C06", Tier::Quick) => 60,
        ("C07", Tier::Quick) => 80,
        ("C15", Tier::Quick) => 60,
        _ => 600,
    };
    if ctx.distinct_count() < floor {
        ctx.inconclusive(format!("only {} distinct cases with executed probes (< {floor})", ctx.distinct_count()));
    }
    let unrec: u64 = ctx
        .counters
        .iter()
        .filter(|(k, _)| k.ends_with("_unrecognised"))
        .map(|(_, v)| *v)
        .sum();
    if unrec > 0 {
        ctx.count("bodies_unrecognised_total", unrec);
    }
}

pub fn replay(ctx: &mut Ctx, prop: &'static str, case: &Value) {
    let inner = if case.get("case").is_some() && case.get("modules").is_none() { &case["case"] } else { case };
    let Ok((mods, ptrw)) = mods_from_case(inner) else {
        ctx.inconclusive("replay case does not parse");
        return;
    };
    ctx.eval();
    if case.get("negative").is_some() {
        let out = crate::drive::build_modules(&mods, ptrw, Default::default());
        if out.result.is_ok() {
            ctx.violation(&format!("{prop}/negative-accepted"), "input that must be rejected was accepted", case.clone());
        }
        return;
    }
    let first = mods.first().map(|m| m.0.to_string()).unwrap_or_default();
    let digits: String = first.chars().skip(1).take_while(|c| c.is_ascii_digit()).collect();
    let id = format!("k{digits}_");
    match l2::build_mods(&id, &mods, ptrw) {
        BuildOutcome::Built(b) => {
            let r = run_batch(&[&b], &[prop], ctx.seed, &[Runtime::Native, Runtime::Valgrind]);
            for (_, sig, detail) in r.bad {
                ctx.violation(&sig, &detail, case.clone());
            }
            for (_, errs) in r.dropped {
                println!("replay: probe did not compile: {:?}", errs.first());
            }
        }
        BuildOutcome::Rejected(e) => println!("replay: rejected by pyxis: {}", e.msg),
        BuildOutcome::Unparsable { error, .. } => println!("replay: unparsable: {error}"),
    }
}

// ---------------------------------------------------------------------------
// C04: slot positions — exhaustive semantic sweep and compiled table layout

pub fn c04_slot_phase(ctx: &mut Ctx) {
    use crate::gen_special::{c04_sweep, TB};
    use crate::refprog::{slots, Slot};
    use pyxis::grammar::Function;
    let max_fns = ctx.tier.pick(3usize, 4);
    let mut cases: Vec<(Vec<Function>, Option<usize>)> = vec![];
    c04_sweep(max_fns, |f, s| cases.push((f.to_vec(), s)));
    ctx.extra.insert(
        "slot_sweep".into(),
        json!({"functions_up_to": max_fns, "index": "-,0..6", "size": "-,0..8", "cases": cases.len() * 2, "complete": true}),
    );
    ctx.exhaustive = Some(true);
    ctx.extra.insert("exhaustive_scope".into(), json!("the slot sweep (all vftable blocks within the stated bounds, both widths) is complete; executed dispatch is sampled"));
    struct R {
        bad: Option<(String, String, Value)>,
        accepted: bool,
    }
    let results: Vec<R> = cases
        .par_iter()
        .flat_map(|(fns, size)| {
            [4usize, 8]
                .into_iter()
                .map(|ptrw| {
                    let mut m = Module::new();
                    let mut t = TB::new("T");
                    t.vft = Some(fns.clone());
                    t.vft_size = *size;
                    t.add_to(&mut m);
                    let mods = vec![(ItemPath::from("ksw_m"), m)];
                    let reference = slots(fns, size.map(|s| s as isize));
                    let out = l2::build_mods("ksw_", &mods, ptrw);
                    let case = || case_json(&mods, ptrw);
                    match (&out, &reference) {
                        (BuildOutcome::Built(b), Ok(sl)) => {
                            let want: Vec<String> = sl
                                .iter()
                                .enumerate()
                                .map(|(i, s)| match s {
                                    Slot::Func(f) => f.name.0.clone(),
                                    Slot::Placeholder => format!("_vfunc_{i}"),
                                })
                                .collect();
                            let Some(vs) = b.efiles.get("ksw_m").and_then(|f| f.struct_("TVftable")) else {
                                return R { bad: Some(("C04/vftable-struct-missing".into(), format!("a vftable block of {} slots was declared but no `TVftable` struct is emitted", want.len()), case())), accepted: true };
                            };
                            let has_ptr = b.efiles.get("ksw_m").and_then(|f| f.struct_("T")).map(|s| s.fields.first().map(|f| f.name == "vftable").unwrap_or(false)).unwrap_or(false);
                            if !has_ptr {
                                return R { bad: Some(("C04/vftable-pointer-missing".into(), "the type declares a vftable block but has no vftable pointer field first".into(), case())), accepted: true };
                            }
                            let got: Vec<String> = vs.fields.iter().map(|f| f.name.clone()).collect();
                            let state_guard = b.ok.state.lock().unwrap();
                            let reg = state_guard.type_registry().get(&ItemPath::from("ksw_m::TVftable")).and_then(|i| i.size());
                            if got != want {
                                return R { bad: Some(("C04/slot-sequence".into(), format!("expected slots {want:?}, emitted table fields {got:?}"), case())), accepted: true };
                            }
                            if reg != Some(want.len() * ptrw) {
                                return R { bad: Some(("C04/table-size".into(), format!("table of {} slots resolved to size {reg:?} at width {ptrw}", want.len()), case())), accepted: true };
                            }
                            R { bad: None, accepted: true }
                        }
                        (BuildOutcome::Rejected(e), Err(_)) if e.stage != crate::drive::Stage::Panic => R { bad: None, accepted: false },
                        (BuildOutcome::Built(_), Err(e)) => R { bad: Some(("C04/contradiction-accepted".into(), format!("contradicting index/size accepted: {e:?}"), case())), accepted: true },
                        (BuildOutcome::Rejected(e), _) => {
                            let sig = if e.stage == crate::drive::Stage::Panic { "C04/panic" } else { "C04/consistent-table-rejected" };
                            R { bad: Some((sig.into(), e.msg.clone(), case())), accepted: false }
                        }
                        (BuildOutcome::Unparsable { error, .. }, _) => R { bad: Some(("C04/unparsable".into(), error.clone(), case())), accepted: true },
                    }
                })
                .collect::<Vec<_>>()
        })
        .collect();
    for r in results {
        ctx.eval();
        ctx.count(if r.accepted { "sweep_accepted" } else { "sweep_rejected" }, 1);
        if let Some((sig, detail, case)) = r.bad {
            ctx.violation(&sig, &detail, case);
        }
    }
}

/// compiled offsets of vftable struct fields at both widths
pub fn c04_layout_phase(ctx: &mut Ctx) {
    use crate::refprog::{slots, Env};
    let n = ctx.tier.pick(120usize, 1500);
    let seed = ctx.seed;
    let inputs: Vec<(String, Vec<(ItemPath, Module)>, usize)> = (0..n)
        .into_par_iter()
        .map(|i| {
            let ptrw = if i % 2 == 0 { 4 } else { 8 };
            if i % 3 == 0 {
                let mut c = crate::gen_special::c04_tables(seed ^ 0x77, i, 1).remove(0);
                c.2 = ptrw;
                c
            } else {
                let mut rng = Rng::derive(seed, 0x04BB_0000 + i as u64);
                let id = format!("k{i}_");
                let cfg = cfg_for("C04", ptrw, &id);
                let g = gen_prog::generate(&mut rng, &cfg);
                (id, g.mods, ptrw)
            }
        })
        .collect();
    let built: Vec<Built> = inputs
        .par_iter()
        .filter_map(|(id, mods, ptrw)| match l2::build_mods(id, mods, *ptrw) {
            BuildOutcome::Built(b) => Some(b),
            _ => None,
        })
        .collect();
    let chunks: Vec<Vec<&Built>> = built.chunks(32).map(|c| c.iter().collect()).collect();
    let obs: Vec<Vec<crate::layout_props::CaseObs>> = chunks.par_iter().map(|c| crate::layout_props::observe_batch(c, true)).collect();
    for (chunk, os) in chunks.iter().zip(obs.iter()) {
        for (b, o) in chunk.iter().zip(os.iter()) {
            ctx.eval();
            let env = Env::new(&b.mods, b.ptrw);
            for (inst, items) in &o.by_instrument {
                for (path, def) in &env.defs {
                    if !matches!(def, crate::refprog::Def::Type { .. }) {
                        continue;
                    }
                    let Some((fs, size)) = env.vftable_block(path) else { continue };
                    let Ok(sl) = slots(fs, size) else { continue };
                    let vpath = format!("{path}Vftable");
                    let Some(comp) = items.get(&vpath) else { continue };
                    ctx.count(&format!("{inst}/tables_compared"), 1);
                    let ptrw = if inst.contains("i686") { 4 } else { 8 } as u64;
                    if comp.size != sl.len() as u64 * ptrw {
                        ctx.violation("C04/compiled-table-size", &format!("{inst}: `{vpath}` has {} slots but compiled size {}", sl.len(), comp.size), case_json(&b.mods, b.ptrw));
                    }
                    for (i, s) in sl.iter().enumerate() {
                        let name = match s {
                            crate::refprog::Slot::Func(f) => f.name.0.clone(),
                            crate::refprog::Slot::Placeholder => format!("_vfunc_{i}"),
                        };
                        match comp.fields.iter().find(|f| f.0 == name) {
                            Some((_, off, _)) => {
                                ctx.count(&format!("{inst}/slot_offsets_compared"), 1);
                                if *off != i as u64 * ptrw {
                                    ctx.violation("C04/compiled-slot-offset", &format!("{inst}: `{vpath}.{name}` is slot {i} but sits at byte {off}"), case_json(&b.mods, b.ptrw));
                                }
                            }
                            None => ctx.violation("C04/slot-missing", &format!("{inst}: `{vpath}` has no field `{name}`"), case_json(&b.mods, b.ptrw)),
                        }
                    }
                }
            }
        }
    }
}
