//! Generator of abstract modules over the *whole* grammar (C18) — every item
//! kind, attribute shape, type nesting, identifier shape — without regard to
//! whether the module is semantically meaningful.

use crate::rng::Rng;
use pyxis::grammar::*;

const PLAIN_IDENTS: &[&str] = &[
    "a", "b", "x", "y9", "field_1", "CamelCase", "_under", "__dunder", "snake_case_name", "T",
    "Vec3", "m_pNext", "health", "index", "size", "align", "address", "base", "doc", "default",
    "union", "auto", "raw", "meta", "functions", "backend", "prologue", "epilogue", "rust",
    "ünïcode", "名前", "r#type", "r#fn", "r#match", "A1", "z_", "this", "other", "unknown_1",
];

pub fn ident(rng: &mut Rng) -> Ident {
    Ident(rng.pick(PLAIN_IDENTS).to_string())
}

fn type_name(rng: &mut Rng) -> String {
    const NAMES: &[&str] = &[
        "u8", "u16", "u32", "u64", "u128", "i8", "i16", "i32", "i64", "i128", "f32", "f64", "bool",
        "void", "Foo", "Bar", "SpawnManager", "Vector3", "r#struct", "T", "名前", "meta",
        "functions", "backend", "SharedPtr<Foo>", "Map<KV>", "Outer<Inner<X>>",
    ];
    rng.pick(NAMES).to_string()
}

pub fn type_(rng: &mut Rng, depth: usize) -> Type {
    if depth == 0 {
        return if rng.chance(1, 6) {
            Type::Unknown(rng.below(300))
        } else {
            Type::Ident(Ident(type_name(rng)))
        };
    }
    match rng.below(8) {
        0 | 1 => Type::ConstPointer(Box::new(type_(rng, depth - 1))),
        2 | 3 => Type::MutPointer(Box::new(type_(rng, depth - 1))),
        4 | 5 => {
            let n = *rng.pick(&[0usize, 1, 2, 3, 4, 16, 255, 256, 1000, 65536, 1 << 31]);
            Type::Array(Box::new(type_(rng, depth - 1)), n)
        }
        _ => type_(rng, 0),
    }
}

pub fn string(rng: &mut Rng) -> String {
    const PIECES: &[&str] = &[
        "hello", " ", "world", "\"", "\\", "\n", "\t", "#", "\"#", "ünï", "名", "'", "{}", "//",
        "/*", "*/", "\r", "0x10", "", "  lead", "trail  ", "r#\"", "\u{7f}", "\0",
    ];
    let n = rng.below(5);
    let mut s = String::new();
    for _ in 0..n {
        s.push_str(*rng.pick(PIECES));
    }
    s
}

pub fn int(rng: &mut Rng) -> isize {
    const VALS: &[isize] = &[
        0,
        1,
        2,
        7,
        8,
        10,
        15,
        16,
        255,
        256,
        0x1337,
        0x7FFF_FFFF,
        0x8000_0000,
        0xFFFF_FFFF,
        0x1_0000_0000,
        isize::MAX,
        0x1400_0000,
    ];
    if rng.chance(1, 6) {
        let r = -(rng.below(100000) as isize);
        *rng.pick(&[-1isize, -2, -128, -129, -0x8000_0000, isize::MIN + 1, isize::MIN, r])
    } else if rng.chance(1, 3) {
        (rng.next_u64() >> rng.range(1, 60)) as isize
    } else {
        *rng.pick(VALS)
    }
}

pub fn expr(rng: &mut Rng) -> Expr {
    match rng.below(4) {
        0 => Expr::Ident(ident(rng)),
        1 => Expr::StringLiteral(string(rng)),
        _ => Expr::IntLiteral(int(rng)),
    }
}

pub fn doc_line(rng: &mut Rng) -> String {
    const LINES: &[&str] = &[
        " A doc comment",
        "",
        " ",
        "no leading space",
        "  two spaces",
        " with \"quotes\" and \\ backslash",
        " trailing space ",
        " ünïcode 名前",
        " `code` and <angle> & [brackets]",
        "/ slash first",
        " multi\nline",
    ];
    rng.pick(LINES).to_string()
}

pub fn attribute(rng: &mut Rng) -> Attribute {
    match rng.below(10) {
        0..=2 => Attribute::Ident(ident(rng)),
        3..=5 => {
            let n = rng.below(4);
            Attribute::Function(ident(rng), (0..n).map(|_| expr(rng)).collect())
        }
        6 => Attribute::Assign(ident(rng), expr(rng)),
        _ => Attribute::doc(&doc_line(rng)),
    }
}

pub fn attributes(rng: &mut Rng, max: usize) -> Attributes {
    let n = if rng.chance(1, 3) { 0 } else { rng.below(max + 1) };
    Attributes((0..n).map(|_| attribute(rng)).collect())
}

pub fn visibility(rng: &mut Rng) -> Visibility {
    if rng.coin() {
        Visibility::Public
    } else {
        Visibility::Private
    }
}

fn arg_name(rng: &mut Rng) -> Ident {
    loop {
        let i = ident(rng);
        if i.as_str() != "_" {
            return i;
        }
    }
}

pub fn function(rng: &mut Rng) -> Function {
    let mut arguments = vec![];
    match rng.below(3) {
        0 => arguments.push(Argument::ConstSelf),
        1 => arguments.push(Argument::MutSelf),
        _ => {}
    }
    for _ in 0..rng.below(4) {
        let d = rng.below(4);
        arguments.push(Argument::Named(arg_name(rng), type_(rng, d)));
    }
    if rng.chance(1, 10) {
        // receiver in an unusual position is still a module of the language
        rng.shuffle(&mut arguments);
    }
    let d = rng.below(4);
    Function {
        visibility: visibility(rng),
        name: ident(rng),
        attributes: attributes(rng, 3),
        arguments,
        return_type: rng.coin().then(|| type_(rng, d)),
    }
}

fn field_name(rng: &mut Rng) -> Ident {
    if rng.chance(1, 6) {
        return Ident("_".into());
    }
    loop {
        let i = ident(rng);
        if i.as_str() != "vftable" {
            return i;
        }
    }
}

pub fn type_statement(rng: &mut Rng) -> TypeStatement {
    let attributes = attributes(rng, 3);
    if rng.chance(1, 6) {
        let n = rng.below(4);
        TypeStatement {
            field: TypeField::Vftable((0..n).map(|_| function(rng)).collect()),
            attributes,
        }
    } else {
        let d = rng.below(6);
        TypeStatement {
            field: TypeField::Field(visibility(rng), field_name(rng), type_(rng, d)),
            attributes,
        }
    }
}

pub fn item_definition(rng: &mut Rng) -> ItemDefinition {
    if rng.chance(2, 3) {
        let n = if rng.chance(1, 6) { 0 } else { rng.below(6) };
        ItemDefinition {
            visibility: visibility(rng),
            name: ident(rng),
            inner: ItemDefinitionInner::Type(TypeDefinition {
                statements: (0..n).map(|_| type_statement(rng)).collect(),
                attributes: attributes(rng, 4),
            }),
        }
    } else {
        let n = rng.below(6);
        let d = rng.below(2);
        ItemDefinition {
            visibility: visibility(rng),
            name: ident(rng),
            inner: ItemDefinitionInner::Enum(EnumDefinition {
                type_: type_(rng, d),
                statements: (0..n)
                    .map(|_| EnumStatement {
                        name: ident(rng),
                        expr: rng.coin().then(|| expr(rng)),
                        attributes: attributes(rng, 2),
                    })
                    .collect(),
                attributes: attributes(rng, 4),
            }),
        }
    }
}

pub fn item_path(rng: &mut Rng) -> ItemPath {
    let n = rng.range(1, 4);
    let segs: Vec<String> = (0..n)
        .map(|k| {
            if k + 1 == n && rng.chance(1, 8) {
                "Generic<Arg>".to_string()
            } else {
                loop {
                    let i = ident(rng);
                    // `r#x` is fine; `_` is not a path segment
                    if i.as_str() != "_" {
                        break i.0;
                    }
                }
            }
        })
        .collect();
    ItemPath::from(segs.join("::").as_str())
}

pub fn backend(rng: &mut Rng) -> Backend {
    let name = Ident(rng.pick(&["rust", "cpp", "c", "json", "r#type"]).to_string());
    let text = |rng: &mut Rng| -> String {
        const SNIPPETS: &[&str] = &[
            "use std::ffi::c_void;",
            "fn main() {\n    println!(\"Hello, world!\");\n}",
            "",
            "pub const X: usize = 0x10;",
            "#include <stdint.h>\n#pragma once",
            "// \"quoted\" \\ backslash",
            "struct A;\n\n\nstruct B;",
            "const S: &str = r#\"raw\"#;",
        ];
        rng.pick(SNIPPETS).trim().to_string()
    };
    match rng.below(4) {
        0 => Backend {
            name,
            prologue: Some(text(rng)),
            epilogue: None,
        },
        1 => Backend {
            name,
            prologue: None,
            epilogue: Some(text(rng)),
        },
        2 => Backend {
            name,
            prologue: Some(text(rng)),
            epilogue: Some(text(rng)),
        },
        _ => Backend {
            name,
            prologue: None,
            epilogue: None,
        },
    }
}

pub fn module(rng: &mut Rng) -> Module {
    let small = rng.chance(1, 4);
    let cap = |rng: &mut Rng, n: usize| if small { rng.below(2) } else { rng.below(n + 1) };
    let mut m = Module::new();
    // module attributes: must be expressible as `#![..]`
    m.attributes = attributes(rng, 3);
    let n = cap(rng, 3);
    m.uses = (0..n).map(|_| item_path(rng)).collect();
    let n = cap(rng, 3);
    m.extern_types = (0..n)
        .map(|_| {
            let name = if rng.chance(1, 4) {
                Ident("SharedPtr<Foo>".into())
            } else {
                loop {
                    let i = ident(rng);
                    if i.as_str() != "_" {
                        break i;
                    }
                }
            };
            (name, attributes(rng, 3))
        })
        .collect();
    let n = cap(rng, 3);
    m.extern_values = (0..n)
        .map(|_| {
            let d = rng.below(4);
            ExternValue {
                visibility: visibility(rng),
                name: ident(rng),
                type_: type_(rng, d),
                attributes: attributes(rng, 3),
            }
        })
        .collect();
    let n = cap(rng, 4);
    m.definitions = (0..n).map(|_| item_definition(rng)).collect();
    let n = cap(rng, 3);
    m.impls = (0..n)
        .map(|_| {
            let k = rng.below(4);
            FunctionBlock {
                name: ident(rng),
                functions: (0..k).map(|_| function(rng)).collect(),
                attributes: attributes(rng, 2),
            }
        })
        .collect();
    let n = cap(rng, 3);
    m.backends = (0..n).map(|_| backend(rng)).collect();
    m
}

pub fn type_depth(t: &Type) -> usize {
    match t {
        Type::ConstPointer(i) | Type::MutPointer(i) | Type::Array(i, _) => 1 + type_depth(i),
        _ => 0,
    }
}

/// (number of item kinds present, max type nesting)
pub fn shape(m: &Module) -> (usize, usize) {
    let kinds = [
        !m.uses.is_empty(),
        !m.extern_types.is_empty(),
        !m.extern_values.is_empty(),
        !m.definitions.is_empty(),
        !m.impls.is_empty(),
        !m.backends.is_empty(),
    ]
    .iter()
    .filter(|b| **b)
    .count();
    let mut depth = 0;
    let mut see = |t: &Type| depth = depth.max(type_depth(t));
    for ev in &m.extern_values {
        see(&ev.type_);
    }
    let see_fn = |f: &Function, see: &mut dyn FnMut(&Type)| {
        for a in &f.arguments {
            if let Argument::Named(_, t) = a {
                see(t);
            }
        }
        if let Some(t) = &f.return_type {
            see(t);
        }
    };
    for d in &m.definitions {
        match &d.inner {
            ItemDefinitionInner::Type(td) => {
                for s in &td.statements {
                    match &s.field {
                        TypeField::Field(_, _, t) => see(t),
                        TypeField::Vftable(fs) => {
                            for f in fs {
                                see_fn(f, &mut see);
                            }
                        }
                    }
                }
            }
            ItemDefinitionInner::Enum(ed) => see(&ed.type_),
        }
    }
    for b in &m.impls {
        for f in &b.functions {
            see_fn(f, &mut see);
        }
    }
    (kinds, depth)
}
