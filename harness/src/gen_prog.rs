//! Generator of *accepted-by-construction* multi-module programs for the
//! layout- and execution-bearing properties (C01, C02, C04–C08, C13, C15, C20 …).
//! Fields are placed with the reference layout rules so that the description is
//! realisable at the chosen pointer width; spellings (explicit address / gap /
//! implicit) are drawn at random.

use crate::refmodel::{builtin, Sz};
use crate::rng::Rng;
use pyxis::grammar::*;

#[derive(Clone, Debug)]
pub struct Cfg {
    pub ptrw: usize,
    pub prefix: String,
    pub max_modules: usize,
    pub max_types: usize,
    pub max_fields: usize,
    pub packed: bool,
    pub bases: bool,
    pub vftables: bool,
    pub impls: bool,
    pub singletons: bool,
    pub extern_values: bool,
    pub extern_types: bool,
    pub enums: bool,
    pub docs: bool,
    /// copyable/cloneable/defaultable only where the field types allow it
    pub consistent_markers: bool,
    pub markers: bool,
    pub nested_modules: bool,
    pub backends: bool,
    pub floats_in_fns: bool,
}

impl Cfg {
    pub fn rich(ptrw: usize, prefix: &str) -> Cfg {
        Cfg {
            ptrw,
            prefix: prefix.to_string(),
            max_modules: 3,
            max_types: 5,
            max_fields: 8,
            packed: true,
            bases: true,
            vftables: true,
            impls: true,
            singletons: true,
            extern_values: true,
            extern_types: true,
            enums: true,
            docs: true,
            consistent_markers: true,
            markers: true,
            nested_modules: true,
            backends: false,
            floats_in_fns: false,
        }
    }
}

#[derive(Clone, Debug, PartialEq, Eq)]
pub enum Kind {
    Struct,
    Enum,
    Extern,
}

#[derive(Clone, Debug)]
pub struct Info {
    pub path: String,
    pub module: String,
    pub name: String,
    pub sz: Sz,
    pub kind: Kind,
    pub public: bool,
    pub copyable: bool,
    pub cloneable: bool,
    pub defaultable: bool,
    pub packed: bool,
    /// effective vftable functions (own block or inherited through first base)
    pub vft: Option<Vec<Function>>,
    pub vft_size_attr: Option<usize>,
    /// enum: listed discriminant values
    pub enum_values: Vec<i128>,
    /// names already exposed as methods (own, injected); for clash avoidance
    pub method_names: Vec<String>,
    pub has_bases: bool,
}

pub struct Generated {
    pub mods: Vec<(ItemPath, Module)>,
    pub infos: Vec<Info>,
    pub ptrw: usize,
}

struct Ctx<'r> {
    rng: &'r mut Rng,
    cfg: Cfg,
    infos: Vec<Info>,
    next_addr: usize,
    next_data: usize,
    counter: usize,
}

const INT_TYPES: &[&str] = &["u8", "u16", "u32", "u64", "i8", "i16", "i32", "i64"];
const SCALARS: &[&str] = &[
    "u8", "u16", "u32", "u64", "u128", "i8", "i16", "i32", "i64", "i128", "f32", "f64", "bool",
];

fn vis(rng: &mut Rng) -> Visibility {
    if rng.chance(3, 4) {
        Visibility::Public
    } else {
        Visibility::Private
    }
}

fn doc_attrs(rng: &mut Rng, enabled: bool) -> Vec<Attribute> {
    if !enabled || !rng.chance(1, 3) {
        return vec![];
    }
    const LINES: &[&str] = &[
        " A documented thing",
        " Second line with `code`",
        "",
        " \"quoted\" and \\ backslash",
        "no leading space",
        "  indented",
        " ünïcode 名前",
    ];
    (0..rng.range(1, 3)).map(|_| Attribute::doc(*rng.pick(LINES))).collect()
}

/// Random interleaving that keeps the relative order inside each list (doc lines
/// must stay in order; other attributes may sit anywhere between them).
fn mix_attrs(rng: &mut Rng, docs: Vec<Attribute>, others: Vec<Attribute>) -> Attributes {
    let mut a = docs.into_iter().peekable();
    let mut b = others.into_iter().peekable();
    let mut out = vec![];
    while a.peek().is_some() || b.peek().is_some() {
        let take_a = match (a.peek().is_some(), b.peek().is_some()) {
            (true, true) => rng.chance(2, 3),
            (true, false) => true,
            _ => false,
        };
        out.push(if take_a { a.next().unwrap() } else { b.next().unwrap() });
    }
    Attributes(out)
}

#[derive(Clone)]
struct Cand {
    ty: Type,
    sz: Sz,
    copy: bool,
    default: bool,
    /// a struct carrying repr(align): cannot live in a packed struct
    aligned_struct: bool,
    by_value_info: Option<usize>,
}

impl<'r> Ctx<'r> {
    fn fresh(&mut self, stem: &str) -> String {
        self.counter += 1;
        format!("{stem}{}", self.counter)
    }

    fn code_addr(&mut self) -> usize {
        let a = self.next_addr;
        self.next_addr += 0x40 * self.rng.range(1, 3);
        a + self.rng.below(8)
    }
    fn data_addr(&mut self, len: usize) -> usize {
        // pointer-aligned, 16-byte spaced, never crossing into another object
        let a = (self.next_data + 15) / 16 * 16;
        self.next_data = a + len.max(1) + 16;
        a
    }

    /// How a type at `info` is named from `module` (adds a `use` when needed).
    fn name_from(&mut self, module_uses: &mut Vec<ItemPath>, module: &str, idx: usize) -> Option<Type> {
        let info = &self.infos[idx];
        if info.module == module {
            return Some(Type::ident(&info.name));
        }
        if !info.public {
            return None;
        }
        // import by type or by module; keep binding unambiguous: names are unique
        let by_type = self.rng.coin();
        let p = if by_type {
            ItemPath::from(info.path.as_str())
        } else {
            ItemPath::from(info.module.as_str())
        };
        if !module_uses.contains(&p) {
            module_uses.push(p);
        }
        Some(Type::ident(&info.name))
    }

    fn scalar_cand(&mut self) -> Cand {
        let n = *self.rng.pick(SCALARS);
        Cand {
            ty: Type::ident(n),
            sz: builtin(n).unwrap(),
            copy: true,
            default: true,
            aligned_struct: false,
            by_value_info: None,
        }
    }

    fn pointer_cand(&mut self, uses: &mut Vec<ItemPath>, module: &str, self_name: &str) -> Cand {
        let ptrw = self.cfg.ptrw;
        let pointee = match self.rng.below(6) {
            0 => Type::ident("void"),
            1 => Type::ident(self_name),
            2 | 3 if !self.infos.is_empty() => {
                let i = self.rng.below(self.infos.len());
                self.name_from(uses, module, i).unwrap_or(Type::ident("u8"))
            }
            _ => Type::ident(*self.rng.pick(SCALARS)),
        };
        let mut t = pointee;
        for _ in 0..self.rng.range(1, 2) {
            t = if self.rng.coin() { t.const_pointer() } else { t.mut_pointer() };
        }
        Cand {
            ty: t,
            sz: Sz { size: ptrw, align: ptrw },
            copy: true,
            default: false,
            aligned_struct: false,
            by_value_info: None,
        }
    }

    fn user_cand(&mut self, uses: &mut Vec<ItemPath>, module: &str, want_struct_base: bool) -> Option<Cand> {
        let idxs: Vec<usize> = (0..self.infos.len())
            .filter(|i| {
                let inf = &self.infos[*i];
                (inf.module == module || inf.public) && (!want_struct_base || inf.kind == Kind::Struct)
            })
            .collect();
        if idxs.is_empty() {
            return None;
        }
        let i = *self.rng.pick(&idxs);
        let ty = self.name_from(uses, module, i)?;
        let inf = &self.infos[i];
        Some(Cand {
            ty,
            sz: inf.sz,
            copy: inf.copyable || inf.kind == Kind::Extern,
            default: inf.defaultable || inf.kind == Kind::Extern,
            aligned_struct: inf.kind == Kind::Struct && !inf.packed,
            by_value_info: Some(i),
        })
    }

    fn field_cand(&mut self, uses: &mut Vec<ItemPath>, module: &str, self_name: &str) -> Cand {
        let base = match self.rng.below(10) {
            0..=3 => self.scalar_cand(),
            4 | 5 => self.pointer_cand(uses, module, self_name),
            _ => self.user_cand(uses, module, false).unwrap_or_else(|| self.scalar_cand()),
        };
        if self.rng.chance(1, 4) {
            let n = self.rng.range(1, 6);
            let mut c = base;
            c.ty = c.ty.array(n);
            c.sz = Sz { size: c.sz.size * n, align: c.sz.align };
            if self.rng.chance(1, 5) {
                let k = self.rng.range(1, 3);
                c.ty = c.ty.array(k);
                c.sz.size *= k;
            }
            c
        } else {
            base
        }
    }

    fn fn_arg_type(&mut self) -> Type {
        match self.rng.below(8) {
            0 => Type::ident("bool"),
            1 => Type::ident("u8").const_pointer(),
            2 => Type::ident("void").mut_pointer(),
            3 if self.cfg.floats_in_fns => Type::ident("f32"),
            _ => Type::ident(*self.rng.pick(INT_TYPES)),
        }
    }

    fn function(&mut self, name: &str, receiver: Option<bool>, docs: bool) -> Function {
        let mut arguments = vec![];
        match receiver {
            Some(false) => arguments.push(Argument::ConstSelf),
            Some(true) => arguments.push(Argument::MutSelf),
            None => {}
        }
        let n = self.rng.below(6);
        for k in 0..n {
            arguments.push(Argument::Named(Ident(format!("a{k}")), self.fn_arg_type()));
        }
        let return_type = self.rng.coin().then(|| self.fn_arg_type());
        let mut attrs = doc_attrs(self.rng, docs);
        if self.rng.chance(1, 5) {
            let cc = *self.rng.pick(crate::refprog::CONVENTIONS);
            attrs.push(Attribute::calling_convention(cc));
        }
        Function {
            visibility: if self.rng.chance(5, 6) { Visibility::Public } else { Visibility::Private },
            name: Ident(name.to_string()),
            attributes: Attributes(attrs),
            arguments,
            return_type,
        }
    }

    fn vftable_functions(&mut self, inherited: Option<&(Vec<Function>, Option<usize>)>) -> (Vec<Function>, Option<usize>) {
        // a derived block must repeat the base table first
        let mut out: Vec<Function> = vec![];
        let mut next_slot = 0usize;
        if let Some((base_fns, base_size)) = inherited {
            out = base_fns.clone();
            next_slot = crate::refprog::slots(base_fns, base_size.map(|s| s as isize)).map(|s| s.len()).unwrap_or(base_fns.len());
            // the base's declared size padding becomes explicit index on our next function
        }
        let extra = if inherited.is_some() { self.rng.below(3) } else { self.rng.range(1, 5) };
        let mut first_extra = true;
        for _ in 0..extra {
            let name = self.fresh("vf");
            let mutable = self.rng.coin();
            let docs = self.cfg.docs;
            let mut f = self.function(&name, Some(mutable), docs);
            // index attribute: the natural slot, or a jump ahead; after an inherited
            // table with trailing padding the index must be explicit
            let natural = next_slot;
            let must_index = first_extra && inherited.is_some_and(|(fns, _)| {
                let without_size = crate::refprog::slots(fns, None).map(|s| s.len()).unwrap_or(0);
                without_size != natural
            });
            first_extra = false;
            let slot = if self.rng.chance(1, 4) { natural + self.rng.range(1, 3) } else { natural };
            if slot != natural || must_index || self.rng.chance(1, 5) {
                f.attributes.0.push(Attribute::index(slot));
            }
            next_slot = slot + 1;
            out.push(f);
        }
        let size = if self.rng.chance(1, 4) {
            Some(next_slot + self.rng.below(3))
        } else {
            None
        };
        (out, size)
    }
}

/// Place fields sequentially; returns statements + total size + max alignment.
struct Placed {
    statements: Vec<TypeStatement>,
    end: usize,
    max_align: usize,
    n_members: usize,
    sole_align: usize,
    all_copy: bool,
    all_default: bool,
}

pub fn generate(rng: &mut Rng, cfg: &Cfg) -> Generated {
    let mut cx = Ctx {
        next_addr: 0x1000_0000 + rng.below(0x400) * 0x1000,
        next_data: 0x6100_0000 + rng.below(0x100) * 0x1000,
        rng,
        cfg: cfg.clone(),
        infos: vec![],
        counter: 0,
    };
    let ptrw = cfg.ptrw;
    let nmods = cx.rng.range(1, cfg.max_modules.max(1));
    let mut mods: Vec<(ItemPath, Module)> = vec![];
    let mut mod_paths: Vec<String> = vec![];
    for mi in 0..nmods {
        let top = format!("{}m{}", cfg.prefix, mi);
        let path = if cfg.nested_modules && mi > 0 && cx.rng.chance(1, 3) {
            // nest under an earlier top-level module name or a fresh directory
            if cx.rng.coin() {
                format!("{}::sub{}", mod_paths[0].split("::").next().unwrap(), mi)
            } else {
                format!("{}d{}::inner{}", cfg.prefix, mi, mi)
            }
        } else {
            top
        };
        mod_paths.push(path);
    }

    for mpath in mod_paths.iter() {
        let mut m = Module::new();
        if cfg.docs && cx.rng.chance(1, 3) {
            m.attributes = Attributes(doc_attrs(cx.rng, true));
        }
        let mut uses: Vec<ItemPath> = vec![];

        // extern types
        if cfg.extern_types {
            for _ in 0..cx.rng.below(3) {
                let name = cx.fresh("Ext");
                let align = 1usize << cx.rng.below(5);
                let size = align * cx.rng.range(0, 4);
                m.extern_types.push((
                    Ident(name.clone()),
                    Attributes(if cx.rng.coin() {
                        vec![Attribute::size(size), Attribute::align(align)]
                    } else {
                        vec![Attribute::align(align), Attribute::size(size)]
                    }),
                ));
                cx.infos.push(Info {
                    path: format!("{mpath}::{name}"),
                    module: mpath.clone(),
                    name,
                    sz: Sz { size, align },
                    kind: Kind::Extern,
                    public: true,
                    copyable: true,
                    cloneable: true,
                    defaultable: true,
                    packed: false,
                    vft: None,
                    vft_size_attr: None,
                    enum_values: vec![],
                    method_names: vec![],
                    has_bases: false,
                });
            }
        }

        // enums
        if cfg.enums {
            for _ in 0..cx.rng.below(3) {
                let (def, info) = gen_enum(&mut cx, mpath);
                m.definitions.push(def);
                cx.infos.push(info);
            }
        }

        // types
        let ntypes = cx.rng.range(1, cfg.max_types.max(1));
        for _ in 0..ntypes {
            gen_type(&mut cx, mpath, &mut m, &mut uses);
        }

        // extern values
        if cfg.extern_values {
            for _ in 0..cx.rng.below(3) {
                let name = cx.fresh("ev").to_lowercase();
                let c = cx.field_cand(&mut uses, mpath, "u8");
                let addr = cx.data_addr(c.sz.size.max(8));
                let mut attrs = doc_attrs(cx.rng, false);
                attrs.push(Attribute::address(addr));
                m.extern_values.push(ExternValue {
                    visibility: vis(cx.rng),
                    name: Ident(name),
                    type_: c.ty,
                    attributes: Attributes(attrs),
                });
            }
        }
        if cfg.backends && cx.rng.chance(1, 2) {
            let k = cx.fresh("PRO");
            m.backends.push(Backend::new("rust").with_prologue(format!("pub const {k}: u32 = 1;")));
            if cx.rng.coin() {
                let k2 = cx.fresh("EPI");
                m.backends.push(Backend::new("rust").with_epilogue(format!("pub const {k2}: u32 = 2;")));
            }
        }
        m.uses = uses;
        if cx.rng.chance(1, 3) {
            // definition order inside a module is free
            cx.rng.shuffle(&mut m.definitions);
        }
        mods.push((ItemPath::from(mpath.as_str()), m));
    }
    Generated {
        mods,
        infos: cx.infos,
        ptrw,
    }
}

fn int_range(base: &str) -> (i128, i128) {
    match base {
        "u8" => (0, u8::MAX as i128),
        "u16" => (0, u16::MAX as i128),
        "u32" => (0, u32::MAX as i128),
        "u64" => (0, u64::MAX as i128),
        "i8" => (i8::MIN as i128, i8::MAX as i128),
        "i16" => (i16::MIN as i128, i16::MAX as i128),
        "i32" => (i32::MIN as i128, i32::MAX as i128),
        "i64" => (i64::MIN as i128, i64::MAX as i128),
        _ => (0, 0),
    }
}

fn gen_enum(cx: &mut Ctx, mpath: &str) -> (ItemDefinition, Info) {
    let name = cx.fresh("En");
    let base = *cx.rng.pick(INT_TYPES);
    let (lo, hi) = int_range(base);
    // values must also be expressible as isize literals
    let hi_lit = hi.min(isize::MAX as i128);
    let n = cx.rng.range(1, 6);
    let mut statements = vec![];
    let mut values: Vec<i128> = vec![];
    let mut next: i128 = 0;
    for k in 0..n {
        let remaining = (n - k) as i128;
        let mut explicit = cx.rng.chance(1, 3);
        let mut v = next;
        if explicit {
            v = if k == 0 && lo < 0 && cx.rng.coin() {
                lo + cx.rng.below(5) as i128
            } else if k + 1 == n && cx.rng.chance(1, 3) && hi_lit >= next {
                hi_lit
            } else {
                next + cx.rng.below(20) as i128
            };
        }
        if v > hi_lit - remaining + 1 {
            if k == 0 {
                v = hi_lit - remaining + 1;
                explicit = true;
            } else if v > hi_lit {
                break;
            }
        }
        values.push(v);
        next = v + 1;
        statements.push(EnumStatement {
            name: Ident(format!("V{k}")),
            expr: explicit.then_some(Expr::IntLiteral(v as isize)),
            attributes: Attributes(vec![]),
        });
    }
    let n = statements.len();
    let mut attrs = doc_attrs(cx.rng, cx.cfg.docs);
    let mut copyable = false;
    let mut cloneable = false;
    let mut defaultable = false;
    if cx.cfg.markers {
        if cx.rng.chance(2, 3) {
            attrs.push(Attribute::copyable());
            copyable = true;
            cloneable = true;
        } else if cx.rng.coin() {
            attrs.push(Attribute::cloneable());
            cloneable = true;
        }
        if cx.rng.coin() {
            attrs.push(Attribute::defaultable());
            defaultable = true;
            let k = cx.rng.below(n);
            statements[k].attributes.0.push(Attribute::default());
        }
    }
    let public = vis(cx.rng) == Visibility::Public;
    let info = Info {
        path: format!("{mpath}::{name}"),
        module: mpath.to_string(),
        name: name.clone(),
        sz: builtin(base).unwrap(),
        kind: Kind::Enum,
        public,
        copyable,
        cloneable,
        defaultable,
        packed: false,
        vft: None,
        vft_size_attr: None,
        enum_values: values,
        method_names: vec![],
        has_bases: false,
    };
    let def = ItemDefinition {
        visibility: if public { Visibility::Public } else { Visibility::Private },
        name: Ident(name),
        inner: ItemDefinitionInner::Enum(EnumDefinition {
            type_: Type::ident(base),
            statements,
            attributes: Attributes(attrs),
        }),
    };
    (def, info)
}

fn has_big_array(t: &Type) -> bool {
    match t {
        Type::Array(i, n) => *n > 32 || has_big_array(i),
        Type::Unknown(n) => *n > 32,
        _ => false,
    }
}

fn align_up(x: usize, a: usize) -> usize {
    (x + a - 1) / a * a
}

fn gen_type(cx: &mut Ctx, mpath: &str, m: &mut Module, uses: &mut Vec<ItemPath>) {
    let ptrw = cx.cfg.ptrw;
    let name = cx.fresh("Ty");
    let public = vis(cx.rng) == Visibility::Public;
    let packed = cx.cfg.packed && cx.rng.chance(1, 7);
    let mut statements: Vec<TypeStatement> = vec![];
    let mut placed = Placed {
        statements: vec![],
        end: 0,
        max_align: 1,
        n_members: 0,
        sole_align: 1,
        all_copy: true,
        all_default: true,
    };

    // bases first
    let mut base_infos: Vec<(String, usize)> = vec![];
    if cx.cfg.bases && !packed && cx.rng.chance(1, 3) {
        let nb = cx.rng.range(1, 3);
        for _ in 0..nb {
            if let Some(c) = cx.user_cand(uses, mpath, true) {
                let idx = c.by_value_info.unwrap();
                // documented fragment: what a public type exposes cross-module is public
                if public && !cx.infos[idx].public {
                    continue;
                }
                // a type may appear as base several times (diamond-like) — allowed
                let fname = cx.fresh("base").to_lowercase();
                base_infos.push((fname, idx));
            }
        }
    }
    let first_base_vft: Option<(Vec<Function>, Option<usize>)> = base_infos
        .first()
        .and_then(|(_, i)| cx.infos[*i].vft.clone().map(|v| (v, cx.infos[*i].vft_size_attr)));

    // vftable block?
    let mut vft: Option<Vec<Function>> = None;
    let mut vft_size: Option<usize> = None;
    let declare_block = cx.cfg.vftables && !packed && cx.rng.chance(2, 5);
    let mut own_ptr = false;
    if declare_block {
        let (mut fns, size) = cx.vftable_functions(first_base_vft.as_ref());
        if public {
            let inherited_n = first_base_vft.as_ref().map(|v| v.0.len()).unwrap_or(0);
            for f in fns.iter_mut().skip(inherited_n) {
                f.visibility = Visibility::Public;
            }
        }
        let mut st = TypeStatement::vftable(fns.clone());
        if let Some(s) = size {
            st.attributes = Attributes(vec![Attribute::size(s)]);
        }
        statements.push(st);
        vft = Some(fns);
        vft_size = size;
        own_ptr = first_base_vft.is_none();
    } else if let Some((fns, size)) = &first_base_vft {
        vft = Some(fns.clone());
        vft_size = *size;
    }
    if own_ptr {
        placed.end = ptrw;
        placed.max_align = ptrw;
        placed.n_members = 1;
        placed.sole_align = ptrw;
        placed.all_default = false; // pointer field
    }

    let mut method_names: Vec<String> = vft
        .as_ref()
        .map(|v| v.iter().map(|f| f.name.0.clone()).collect())
        .unwrap_or_default();
    // reserve placeholder names too
    if let Some(fns) = &vft {
        if let Ok(sl) = crate::refprog::slots(fns, vft_size.map(|s| s as isize)) {
            for (i, s) in sl.iter().enumerate() {
                if matches!(s, crate::refprog::Slot::Placeholder) {
                    method_names.push(format!("_vfunc_{i}"));
                }
            }
        }
    }

    let mut place = |cx: &mut Ctx, placed: &mut Placed, fname: &str, c: &Cand, is_base: bool, public: bool| {
        let a = if packed { 1 } else { c.sz.align.max(1) };
        // optional extra gap before the field
        let mut want = align_up(placed.end, a);
        if cx.rng.chance(1, 4) {
            want += a * cx.rng.range(1, 3);
        }
        let mut address = None;
        if want - placed.end > 32 {
            placed.all_default = false;
        }
        if want > placed.end {
            // realise the gap: explicit address, an unknown<N> field (which may carry a
            // visibility and documentation that mean nothing), or an anonymous array of wider
            // elements that covers part of it with an address for the rest
            let gap = want - placed.end;
            let elem = if placed.end % 4 == 0 && gap >= 4 { Some(("u32", 4)) } else if placed.end % 2 == 0 && gap >= 2 { Some(("u16", 2)) } else { None };
            match (cx.rng.below(5), elem) {
                (0, Some((ty, e))) => {
                    let k = cx.rng.range(1, gap / e);
                    placed.statements.push(crate::refmodel::field("_", Type::ident(ty).array(k), None, false));
                    if k * e < gap || cx.rng.chance(1, 4) {
                        address = Some(want);
                    }
                }
                (0, None) | (1, _) | (2, _) => address = Some(want),
                _ => {
                    let mut st = crate::refmodel::field("_", Type::Unknown(gap), None, cx.rng.chance(1, 4));
                    st.attributes = Attributes(doc_attrs(cx.rng, cx.cfg.docs));
                    placed.statements.push(st);
                }
            }
            placed.n_members += 1;
            placed.sole_align = 1;
        } else if cx.rng.chance(1, 4) {
            address = Some(want);
        }
        let zero_len = c.sz.size == 0 && matches!(c.ty, Type::Array(..));
        let mut st = crate::refmodel::field(fname, c.ty.clone(), address, public);
        let docs = doc_attrs(cx.rng, cx.cfg.docs);
        let mut others = vec![];
        if is_base {
            others.push(Attribute::base());
        }
        others.extend(st.attributes.0.clone());
        if cx.rng.coin() {
            others.reverse();
        }
        st.attributes = mix_attrs(cx.rng, docs, others);
        placed.statements.push(st);
        if !zero_len {
            placed.n_members += 1;
            placed.sole_align = c.sz.align;
        }
        placed.end = want + c.sz.size;
        placed.max_align = placed.max_align.max(a);
        placed.all_copy &= c.copy;
        placed.all_default &= c.default && !has_big_array(&c.ty);
    };

    for (fname, idx) in &base_infos {
        let inf = cx.infos[*idx].clone();
        let c = Cand {
            ty: cx.name_from(uses, mpath, *idx).unwrap(),
            sz: inf.sz,
            copy: inf.copyable,
            default: inf.defaultable,
            aligned_struct: true,
            by_value_info: Some(*idx),
        };
        // the first base carrying the vftable must sit at offset 0: no gap before it
        let is_first_vft_base = base_infos.first().map(|b| &b.0) == Some(fname) && first_base_vft.is_some();
        if is_first_vft_base {
            let mut st = crate::refmodel::field(fname, c.ty.clone(), None, true);
            let mut attrs = doc_attrs(cx.rng, cx.cfg.docs);
            attrs.push(Attribute::base());
            st.attributes = Attributes(attrs);
            placed.statements.push(st);
            placed.n_members += 1;
            placed.sole_align = c.sz.align;
            placed.end = c.sz.size;
            placed.max_align = placed.max_align.max(c.sz.align);
            placed.all_copy &= c.copy;
            placed.all_default &= c.default;
        } else {
            place(cx, &mut placed, fname, &c, true, true);
        }
    }

    let nfields = cx.rng.range(if base_infos.is_empty() && !own_ptr { 0 } else { 0 }, cx.cfg.max_fields);
    for _ in 0..nfields {
        let mut c = cx.field_cand(uses, mpath, &name);
        if packed && c.aligned_struct {
            c = cx.scalar_cand();
        }
        let fname = cx.fresh("f");
        let public = cx.rng.chance(3, 4);
        place(cx, &mut placed, &fname, &c, false, public);
    }
    statements.extend(placed.statements.clone());

    // type-level attributes
    let mut attrs = doc_attrs(cx.rng, cx.cfg.docs);
    let mut total = placed.end;
    let eff_align;
    if packed {
        attrs.push(Attribute::packed());
        eff_align = 1;
        if cx.rng.chance(1, 3) {
            total += cx.rng.below(5);
            attrs.push(Attribute::size(total));
        }
    } else {
        let mut a = placed.max_align;
        if cx.rng.chance(1, 5) && a < 16 {
            a *= 2;
        }
        if total == 0 && cx.rng.coin() {
            // an empty type may still be over-aligned; whoever embeds it has to honour that
            a = 1 << cx.rng.below(5);
        }
        // default rule: sole member's alignment, else pointer width
        let padded_total = align_up(total, a);
        let will_pad = padded_total != total;
        let members_after = placed.n_members + if will_pad { 1 } else { 0 };
        let default_align = if members_after == 1 { placed.sole_align_if_single(will_pad) } else { ptrw };
        if default_align == a && cx.rng.chance(2, 3) {
            // omit
        } else {
            attrs.push(Attribute::align(a));
        }
        eff_align = a;
        if will_pad {
            if padded_total - total > 32 {
                placed.all_default = false;
            }
            if cx.rng.coin() {
                attrs.push(Attribute::size(padded_total));
            } else {
                statements.push(crate::refmodel::field("_", Type::Unknown(padded_total - total), None, false));
            }
            total = padded_total;
        } else if cx.rng.chance(1, 4) {
            attrs.push(Attribute::size(total));
        }
    }

    // markers
    let mut copyable = false;
    let mut cloneable = false;
    let mut defaultable = false;
    if cx.cfg.markers {
        let can_copy = !cx.cfg.consistent_markers || placed.all_copy;
        let can_default = !cx.cfg.consistent_markers || (placed.all_default && !own_ptr);
        if can_copy && cx.rng.coin() {
            attrs.push(Attribute::copyable());
            copyable = true;
            cloneable = true;
        } else if can_copy && cx.rng.chance(1, 3) {
            attrs.push(Attribute::cloneable());
            cloneable = true;
        }
        if can_default && cx.rng.chance(1, 3) {
            attrs.push(Attribute::defaultable());
            defaultable = true;
        }
    }
    if cx.cfg.singletons && cx.rng.chance(1, 5) {
        let a = cx.data_addr(8);
        attrs.push(Attribute::singleton(a));
    }

    // impl block
    if cx.cfg.impls && cx.rng.chance(2, 3) {
        let mut fns = vec![];
        for _ in 0..cx.rng.range(1, 4) {
            let fname = cx.fresh("af");
            let receiver = match cx.rng.below(4) {
                0 => None,
                1 => Some(true),
                _ => Some(false),
            };
            let mut f = cx.function(&fname, receiver, cx.cfg.docs);
            let addr = cx.code_addr();
            let docs: Vec<Attribute> = f.attributes.0.iter().filter(|a| matches!(a, Attribute::Assign(..))).cloned().collect();
            let mut rest: Vec<Attribute> = f.attributes.0.iter().filter(|a| !matches!(a, Attribute::Assign(..))).cloned().collect();
            let pos = cx.rng.below(rest.len() + 1);
            rest.insert(pos, Attribute::address(addr));
            f.attributes = mix_attrs(cx.rng, docs, rest);
            method_names.push(fname);
            fns.push(f);
        }
        m.impls.push(FunctionBlock {
            name: Ident(name.clone()),
            functions: fns,
            attributes: Attributes(vec![]),
        });
    }

    m.definitions.push(ItemDefinition {
        visibility: if public { Visibility::Public } else { Visibility::Private },
        name: Ident(name.clone()),
        inner: ItemDefinitionInner::Type(TypeDefinition {
            statements,
            attributes: Attributes(attrs),
        }),
    });
    cx.infos.push(Info {
        path: format!("{mpath}::{name}"),
        module: mpath.to_string(),
        name,
        sz: Sz { size: total, align: eff_align },
        kind: Kind::Struct,
        public,
        copyable,
        cloneable,
        defaultable,
        packed,
        vft,
        vft_size_attr: vft_size,
        enum_values: vec![],
        method_names,
        has_bases: !base_infos.is_empty(),
    });
}

impl Placed {
    fn sole_align_if_single(&self, will_pad: bool) -> usize {
        if will_pad && self.n_members == 0 {
            1
        } else {
            self.sole_align
        }
    }
}
