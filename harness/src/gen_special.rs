//! Dedicated case generators for the execution-based properties (shapes the rich
//! generator reaches only rarely) and their negative cases.
//!
//! All dedicated types are built from pointer-sized members so that they are
//! realisable at either width without attributes.

use crate::drive::{self, Opts, Stage};
use crate::layout_props::case_json;
use crate::refprog;
use crate::rng::Rng;
use crate::verdict::Ctx;
use pyxis::grammar::*;
use serde_json::json;

pub type Case = (String, Vec<(ItemPath, Module)>, usize);

fn word() -> Type {
    Type::ident("u8").const_pointer()
}

#[derive(Clone)]
pub struct TB {
    pub name: String,
    pub public: bool,
    pub vft: Option<Vec<Function>>,
    pub vft_size: Option<usize>,
    pub bases: Vec<(String, String)>,
    pub nfields: usize,
    /// ordinary pointer-sized fields written before the base fields
    pub lead_fields: usize,
    pub impl_fns: Vec<Function>,
    pub attrs: Vec<Attribute>,
    /// further named fields, written after the pointer-sized ones
    pub extra_fields: Vec<(String, Type)>,
    /// an explicit (redundant) `#[address]` on the first base field
    pub first_base_address: Option<usize>,
}

impl TB {
    pub fn new(name: &str) -> TB {
        TB {
            name: name.to_string(),
            public: true,
            vft: None,
            vft_size: None,
            bases: vec![],
            nfields: 1,
            lead_fields: 0,
            impl_fns: vec![],
            attrs: vec![],
            extra_fields: vec![],
            first_base_address: None,
        }
    }
    pub fn add_to(&self, m: &mut Module) {
        let mut statements = vec![];
        if let Some(v) = &self.vft {
            let mut st = TypeStatement::vftable(v.clone());
            if let Some(s) = self.vft_size {
                st.attributes = Attributes(vec![Attribute::size(s)]);
            }
            statements.push(st);
        }
        for k in 0..self.lead_fields {
            statements.push(TypeStatement::field((Visibility::Public, format!("lead{k}").as_str()), word()));
        }
        for (k, (f, t)) in self.bases.iter().enumerate() {
            let mut attrs = vec![Attribute::base()];
            if let (0, Some(a)) = (k, self.first_base_address) {
                attrs.push(Attribute::address(a));
            }
            statements.push(TypeStatement::field((Visibility::Public, f.as_str()), Type::ident(t)).with_attributes(attrs));
        }
        for k in 0..self.nfields {
            statements.push(TypeStatement::field((Visibility::Public, format!("w{k}").as_str()), word()));
        }
        for (n, t) in &self.extra_fields {
            statements.push(TypeStatement::field((Visibility::Public, n.as_str()), t.clone()));
        }
        m.definitions.push(ItemDefinition::new(
            (if self.public { Visibility::Public } else { Visibility::Private }, self.name.as_str()),
            TypeDefinition::new(statements).with_attributes(Attributes(self.attrs.clone())),
        ));
        if !self.impl_fns.is_empty() {
            m.impls.push(FunctionBlock::new(self.name.as_str(), self.impl_fns.clone()));
        }
    }
}

const ARG_TYPES: &[&str] = &["u8", "u16", "u32", "u64", "i8", "i16", "i32", "i64", "bool"];

pub fn arg_type(rng: &mut Rng) -> Type {
    match rng.below(6) {
        0 => Type::ident("u8").const_pointer(),
        1 => Type::ident("void").mut_pointer(),
        _ => Type::ident(*rng.pick(ARG_TYPES)),
    }
}

/// receiver: Some(Some(m)) fixed, Some(None) random const/mut, None = no receiver;
/// public_in_8: chance out of 8 that the function is public
pub fn func(rng: &mut Rng, name: &str, receiver: Option<Option<bool>>, public_in_8: usize, max_args: usize) -> Function {
    let receiver = receiver.map(|r| r.unwrap_or_else(|| rng.coin()));
    let public = rng.below(8) < public_in_8;
    let mut args = vec![];
    match receiver {
        Some(false) => args.push(Argument::ConstSelf),
        Some(true) => args.push(Argument::MutSelf),
        None => {}
    }
    // now and then the parameters carry names that generated wrappers use for their own
    // locals and parameters (`f`, `_f`, `this`)
    let odd_names = rng.chance(1, 5);
    // taken in this order, so that `f` comes with `_f` (the name a wrapper falls back to)
    let mut pool: Vec<&str> = vec!["f", "_f", "__f", "this", "ptr", "r#type"];
    if rng.chance(1, 3) {
        pool.rotate_left(3);
    }
    for k in 0..rng.below(max_args + 1) {
        let name = if odd_names && !pool.is_empty() { pool.remove(0).to_string() } else { format!("a{k}") };
        args.push(Argument::Named(Ident(name), arg_type(rng)));
    }
    let mut f = Function::new((if public { Visibility::Public } else { Visibility::Private }, name), args);
    if rng.coin() {
        f.return_type = Some(arg_type(rng));
    }
    f
}

pub struct Addr(pub usize);
impl Addr {
    pub fn next(&mut self) -> usize {
        let a = self.0;
        self.0 += 0x40;
        a
    }
}

fn with_address(mut f: Function, a: usize) -> Function {
    f.attributes.0.push(Attribute::address(a));
    f
}

// ---------------------------------------------------------------------------
// C04

pub fn c04_tables(seed: u64, first_id: usize, n: usize) -> Vec<Case> {
    let mut out = vec![];
    for i in 0..n {
        let mut rng = Rng::derive(seed, 0x04AA_0000 + i as u64);
        let id = format!("k{}_", first_id + i);
        let mut m = Module::new();
        // base table: up to 24 functions with index jumps
        let hi = if rng.chance(1, 6) { 24 } else { 8 };
        let nf = rng.range(1, hi);
        let mut fns = vec![];
        let mut slot = 0usize;
        let mut gaps: Vec<usize> = vec![];
        for k in 0..nf {
            let mut f = func(&mut rng, &format!("v{k}"), Some(None), 7, 5);
            if rng.chance(1, 4) {
                let jump = rng.range(1, 3);
                gaps.extend(slot..slot + jump);
                slot += jump;
                f.attributes.0.push(Attribute::index(slot));
            } else if rng.chance(1, 5) {
                f.attributes.0.push(Attribute::index(slot));
            }
            slot += 1;
            fns.push(f);
        }
        let size = rng.chance(1, 3).then(|| slot + rng.below(4));
        gaps.extend(slot..size.unwrap_or(slot));
        if i % 5 == 2 && !gaps.is_empty() {
            // hostile: a function that carries the generated name of a placeholder slot, one
            // that is filled before or after it; whatever is accepted must still have every
            // function in its declared slot and every gap filled
            let g = *rng.pick(&gaps);
            let k = rng.below(fns.len());
            fns[k].name = Ident(format!("_vfunc_{g}"));
        }
        if i % 9 == 4 {
            // hostile: a virtual function that also claims a fixed address; if that is accepted
            // at all, the wrapper still has to go through the object's table
            let k = rng.below(fns.len());
            fns[k].attributes.0.push(Attribute::address(0x2800_0000 + i * 0x40));
        }
        let mut base = TB::new("Base");
        base.vft = Some(fns.clone());
        base.vft_size = size;
        base.nfields = rng.range(0, 3);
        base.add_to(&mut m);
        // a type inheriting the table without a block
        let mut inh = TB::new("Inherits");
        inh.bases = vec![("base".into(), "Base".into())];
        inh.nfields = rng.range(0, 2);
        inh.add_to(&mut m);
        // a type extending it
        let mut ext_fns = fns.clone();
        let total = size.unwrap_or(slot);
        let extra = rng.range(1, 3);
        for k in 0..extra {
            let mut f = func(&mut rng, &format!("x{k}"), Some(None), 8, 4);
            if k == 0 && total != refprog::slots(&fns, None).map(|s| s.len()).unwrap_or(0) {
                f.attributes.0.push(Attribute::index(total));
            }
            ext_fns.push(f);
        }
        let mut ext = TB::new("Extends");
        ext.vft = Some(ext_fns);
        ext.bases = vec![("base".into(), "Inherits".into())];
        ext.add_to(&mut m);
        out.push((id.clone(), vec![(ItemPath::from(format!("{id}t").as_str()), m)], 8));
    }
    out
}

/// Exhaustive semantic sweep: all vftable blocks with <= max_fns functions,
/// index in {-,0..6}, size in {-,0..8}. Calls `visit(functions, size)`.
pub fn c04_sweep(max_fns: usize, mut visit: impl FnMut(&[Function], Option<usize>)) {
    let idx_opts: Vec<Option<usize>> = std::iter::once(None).chain((0..=6).map(Some)).collect();
    let size_opts: Vec<Option<usize>> = std::iter::once(None).chain((0..=8).map(Some)).collect();
    for nf in 0..=max_fns {
        let total = idx_opts.len().pow(nf as u32);
        for code in 0..total {
            let mut c = code;
            let mut fns = vec![];
            for k in 0..nf {
                let io = idx_opts[c % idx_opts.len()];
                c /= idx_opts.len();
                let mut f = Function::new((Visibility::Public, format!("f{k}").as_str()), [Argument::ConstSelf]);
                if let Some(i) = io {
                    f.attributes = Attributes(vec![Attribute::index(i)]);
                }
                fns.push(f);
            }
            for s in &size_opts {
                visit(&fns, *s);
            }
        }
    }
}

// ---------------------------------------------------------------------------
// C05

fn c05_module(rng: &mut Rng, i: usize, addr0: usize, force_relink: bool) -> Module {
    let mut m = Module::new();
    let mut addr = Addr(addr0);
    let mut t = TB::new("T");
    t.nfields = rng.range(1, 3);
    for k in 0..rng.range(2, 7) {
        let recv = match rng.below(3) {
            0 => None,
            1 => Some(Some(true)),
            _ => Some(Some(false)),
        };
        let f = func(rng, &format!("f{k}"), recv, 7, 6);
        // a few addresses that cannot be mapped: judged on the emitted text only
        let a = match rng.below(12) {
            0 if !force_relink => 0x10 + k,
            1 if !force_relink => 0x7FFF_FFFF_FFFF_0000 + k * 0x40,
            2 if !force_relink => 0xFFFF_8000 + k * 0x40,
            // above 4 GiB, with leading zero digits in the low half
            3 if !force_relink => ((rng.below(0x7FFF) + 1) << 32) | (rng.below(0x0FFF_FFFF) & !0x3F) | (k * 0x40),
            4 if !force_relink => (1usize << (32 + rng.below(30))) + k * 0x40,
            _ => addr.next() + rng.below(16),
        };
        t.impl_fns.push(with_address(f, a));
    }
    if i % 4 == 1 || force_relink {
        // parameters that look like the receiver: a pointer to the type itself, named like
        // the wrapper's own first parameter
        let mutable = rng.coin();
        let own = if mutable { Type::ident("T").mut_pointer() } else { Type::ident("T").const_pointer() };
        let mut g = Function::new(
            (Visibility::Public, "relink"),
            [if mutable { Argument::MutSelf } else { Argument::ConstSelf }, Argument::named("a", Type::ident("u32")), Argument::named("this", own.clone()), Argument::named("f", own)],
        );
        if rng.coin() || force_relink {
            g.return_type = Some(Type::ident("T").const_pointer());
        }
        t.impl_fns.push(with_address(g, addr.next()));
    }
    t.add_to(&mut m);
    // several impl blocks for one type are one set of functions
    if i % 3 == 0 && m.impls.len() == 1 && m.impls[0].functions.len() >= 2 {
        let blk = m.impls.remove(0);
        let cut = rng.range(1, blk.functions.len() - 1);
        m.impls.push(FunctionBlock::new(blk.name.as_str(), blk.functions[..cut].to_vec()));
        m.impls.push(FunctionBlock::new(blk.name.as_str(), blk.functions[cut..].to_vec()));
    }
    // through the concrete syntax: any spelling of the literals
    let text = crate::render::render_random(&m, rng);
    match pyxis::parser::parse_str(&text) {
        Ok(p) => p,
        Err(_) => m,
    }
}

pub fn c05_cases(seed: u64, first_id: usize, n: usize) -> Vec<Case> {
    let mut out = vec![];
    for i in 0..n {
        let mut rng = Rng::derive(seed, 0x05AA_0000 + i as u64);
        let id = format!("k{}_", first_id + i);
        // every fifth case is a pair of modules that each define their own `T` and name it in
        // their signatures: a name means what it means in the module that writes it
        let twins = i % 5 == 2;
        let a = c05_module(&mut rng, i, 0x2000_0000 + i * 0x2000, twins);
        let mut mods = vec![(ItemPath::from(format!("{id}a").as_str()), a)];
        if twins {
            let b = c05_module(&mut rng, i, 0x2000_0000 + i * 0x2000 + 0x1000, true);
            mods.push((ItemPath::from(format!("{id}b").as_str()), b));
            if rng.coin() {
                mods.reverse();
            }
        }
        out.push((id.clone(), mods, 8));
    }
    out
}

// ---------------------------------------------------------------------------
// C06

fn vf(name: &str, mutable: bool) -> Function {
    Function::new(
        (Visibility::Public, name),
        [if mutable { Argument::MutSelf } else { Argument::ConstSelf }, Argument::named("a", Type::ident("u32"))],
    )
    .with_return_type(Type::ident("i32"))
}

/// Enumerated shapes: chain depth 1..4, 1..3 bases per type, each base with or
/// without vftable, derived with or without block; both widths.
pub fn c06_shapes(first_id: usize) -> Vec<Case> {
    let mut out = vec![];
    for ptrw in [8usize, 4] {
        for depth in 1..=4usize {
            for nbases in 1..=3usize {
                for base_mask in 0..(1u32 << nbases) {
                    for (derived_block, lead, empty_root, addr_first) in [(false, 0usize, false, false), (true, 0, false, false), (false, 1, false, false), (true, 2, false, false), (false, 0, true, false), (true, 1, true, false), (false, 0, false, true), (true, 0, false, true)] {
                        if empty_root && (base_mask & 1 == 0 || depth > 2) {
                            continue;
                        }
                        // the redundant address only where the first base really sits at 0
                        if addr_first && (base_mask & 1 == 0 || nbases < 2) {
                            continue;
                        }
                        let id = format!("k{}_", first_id + out.len());
                        let mut m = Module::new();
                        // leaf bases
                        for bi in 0..nbases {
                            let mut b = TB::new(&format!("B{bi}"));
                            if base_mask & (1 << bi) != 0 {
                                b.vft = Some(if empty_root && bi == 0 {
                                    // `vftable {}`: a table without slots is still a table
                                    vec![]
                                } else {
                                    vec![vf(&format!("b{bi}_v0"), false), vf(&format!("b{bi}_v1"), true)]
                                });
                            }
                            b.add_to(&mut m);
                        }
                        // chain D1..Ddepth: D1 has the leaf bases, Dk has Dk-1 first
                        let first_has = base_mask & 1 != 0;
                        let mut table: Vec<Function> = if first_has && !empty_root { vec![vf("b0_v0", false), vf("b0_v1", true)] } else { vec![] };
                        let mut chain_has = first_has;
                        for k in 1..=depth {
                            let mut d = TB::new(&format!("D{k}"));
                            if k == 1 {
                                d.bases = (0..nbases).map(|bi| (format!("base{bi}"), format!("B{bi}"))).collect();
                                // an ordinary field may precede the first base: it is still the first base
                                d.lead_fields = lead;
                                if addr_first {
                                    d.first_base_address = Some(0);
                                }
                            } else {
                                d.bases = vec![("base".into(), format!("D{}", k - 1))];
                            }
                            let with_block = if k == depth { derived_block } else { k % 2 == 0 };
                            if with_block {
                                table.push(vf(&format!("d{k}_v"), false));
                                d.vft = Some(table.clone());
                                chain_has = true;
                            }
                            let _ = chain_has;
                            d.add_to(&mut m);
                        }
                        out.push((id.clone(), vec![(ItemPath::from(format!("{id}s").as_str()), m)], ptrw));
                    }
                }
            }
        }
    }
    out.extend(c06_later_base_shapes(first_id + out.len()));
    out
}

/// The FIRST base decides, even when it is empty, zero-sized or merely lacks a vftable while a
/// later base has one: the derived type then has no base-supplied table; with a block of its
/// own (even one that repeats the later base's functions) it gets its own pointer at offset 0.
pub fn c06_later_base_shapes(first_id: usize) -> Vec<Case> {
    let mut out = vec![];
    for ptrw in [8usize, 4] {
        for first_kind in 0..3usize {
            for block in 0..4usize {
                for third in [false, true] {
                    let id = format!("k{}_", first_id + out.len());
                    let mut m = Module::new();
                    // first base: empty type / zero-sized (zero-length array) / plain fields, no vftable
                    let mut first = TB::new("First");
                    match first_kind {
                        0 => first.nfields = 0,
                        1 => {
                            first.nfields = 0;
                            first.extra_fields.push(("none".into(), Type::ident("u8").const_pointer().array(0)));
                        }
                        _ => first.nfields = 2,
                    }
                    first.add_to(&mut m);
                    let mut later = TB::new("Later");
                    later.vft = Some(vec![vf("l_v0", false), vf("l_v1", true)]);
                    later.nfields = 1;
                    later.add_to(&mut m);
                    let mut d = TB::new("D");
                    d.bases = vec![("first".into(), "First".into()), ("later".into(), "Later".into())];
                    if third {
                        d.bases.push(("later2".into(), "Later".into()));
                    }
                    d.vft = match block {
                        0 => None,
                        // repeats the later base's functions, then its own
                        1 => Some(vec![vf("l_v0", false), vf("l_v1", true), vf("d_v", false)]),
                        // exactly the later base's functions
                        2 => Some(vec![vf("l_v0", false), vf("l_v1", true)]),
                        _ => Some(vec![vf("d_only", true)]),
                    };
                    d.nfields = 1;
                    d.add_to(&mut m);
                    // one more level on top
                    let mut dd = TB::new("DD");
                    dd.bases = vec![("base".into(), "D".into())];
                    dd.add_to(&mut m);
                    out.push((id.clone(), vec![(ItemPath::from(format!("{id}s").as_str()), m)], ptrw));
                }
            }
        }
    }
    out
}

/// Compatible base/derived pair and every single-slot mutation of the derived table.
pub fn c06_mutants(ptrw: usize) -> Vec<(&'static str, Vec<(ItemPath, Module)>, usize)> {
    // family 0: three ordinary slots; family 1: a placeholder slot (left by an explicit index),
    // an underscore-named slot and an ordinary one
    let base_fns = |family: usize| -> Vec<Function> {
        if family == 0 {
            let mut v = vec![
                Function::new((Visibility::Public, "a"), [Argument::ConstSelf, Argument::named("x", Type::ident("u32"))]).with_return_type(Type::ident("i32")),
                Function::new((Visibility::Public, "b"), [Argument::MutSelf, Argument::named("p", Type::ident("u8").const_pointer())]),
                Function::new((Visibility::Public, "c"), [Argument::ConstSelf]).with_return_type(Type::ident("bool")),
            ];
            v[1].attributes = Attributes(vec![Attribute::calling_convention("cdecl")]);
            v
        } else if family == 2 {
            // a slot without a receiver in the middle of the table
            vec![
                Function::new((Visibility::Public, "a"), [Argument::ConstSelf, Argument::named("x", Type::ident("u32"))]).with_return_type(Type::ident("i32")),
                Function::new((Visibility::Public, "create"), [Argument::named("seed", Type::ident("u32"))]).with_return_type(Type::ident("u8").mut_pointer()),
                Function::new((Visibility::Public, "c"), [Argument::ConstSelf]).with_return_type(Type::ident("bool")),
            ]
        } else {
            let mut v = vec![
                Function::new((Visibility::Public, "a"), [Argument::ConstSelf, Argument::named("x", Type::ident("u32"))]).with_return_type(Type::ident("i32")),
                Function::new((Visibility::Public, "c"), [Argument::MutSelf, Argument::named("p", Type::ident("u8").const_pointer())]).with_return_type(Type::ident("bool")),
                Function::new((Visibility::Private, "_hidden"), [Argument::ConstSelf, Argument::named("q", Type::ident("u16"))]).with_return_type(Type::ident("u8")),
                Function::new((Visibility::Public, "_under_pub"), [Argument::MutSelf]),
                Function::new((Visibility::Public, "e"), [Argument::ConstSelf]),
            ];
            v[1].attributes = Attributes(vec![Attribute::index(2)]);
            v
        }
    };
    let mk = |family: usize, derived: Option<Vec<Function>>, depth: usize, mid_empty_block: bool| -> Vec<(ItemPath, Module)> {
        let mut m = Module::new();
        let mut b = TB::new("B");
        b.vft = Some(base_fns(family));
        b.add_to(&mut m);
        let mut prev = "B".to_string();
        for k in 1..depth {
            let mut mid = TB::new(&format!("M{k}"));
            mid.bases = vec![("base".into(), prev.clone())];
            if mid_empty_block {
                mid.vft = Some(vec![]);
            }
            mid.add_to(&mut m);
            prev = format!("M{k}");
        }
        let mut d = TB::new("D");
        d.bases = vec![("base".into(), prev)];
        d.vft = derived;
        d.lead_fields = depth % 2;
        d.add_to(&mut m);
        vec![(ItemPath::from("kmut_m"), m)]
    };
    let mut out: Vec<(&'static str, Vec<(ItemPath, Module)>, usize)> = vec![];
    for family in 0..3usize {
        for depth in 1..=3usize {
            let good = {
                let mut v = base_fns(family);
                v.push(Function::new((Visibility::Public, "d"), [Argument::ConstSelf]));
                v
            };
            let nbase = good.len() - 1;
            out.push(("compatible", mk(family, Some(good.clone()), depth, false), ptrw));
            out.push(("compatible", mk(family, Some(base_fns(family)), depth, false), ptrw));
            out.push(("compatible", mk(family, None, depth, false), ptrw));
            if family == 2 {
                // the receiver-less slot left out of the derived block
                let mut v = good.clone();
                v.remove(1);
                out.push(("mutant/receiver-less-slot-left-out", mk(family, Some(v), depth, false), ptrw));
            }
            for slot in 0..nbase {
                if !matches!(good[slot].arguments.first(), Some(Argument::ConstSelf | Argument::MutSelf)) {
                    continue;
                }
                let mut v = good.clone();
                let under = v[slot].name.0.starts_with('_');
                v[slot].name = Ident(format!("{}renamed{slot}", if under { "_" } else { "" }));
                out.push(("mutant/rename", mk(family, Some(v), depth, false), ptrw));
                if under {
                    let mut v = good.clone();
                    v[slot].name = Ident(v[slot].name.0.trim_start_matches('_').to_string());
                    out.push(("mutant/rename-drops-underscore", mk(family, Some(v), depth, false), ptrw));
                }
                let mut v = good.clone();
                v[slot].arguments[0] = if v[slot].arguments[0] == Argument::ConstSelf { Argument::MutSelf } else { Argument::ConstSelf };
                out.push(("mutant/receiver", mk(family, Some(v), depth, false), ptrw));
                // no receiver, but a first parameter spelt like the one a receiver turns into
                let mut v = good.clone();
                let mutable = v[slot].arguments[0] == Argument::MutSelf;
                let this_ty = if mutable { Type::ident("D").mut_pointer() } else { Type::ident("D").const_pointer() };
                v[slot].arguments[0] = Argument::named("this", this_ty);
                v[slot].attributes.0.retain(|a| a.function().map(|(i, _)| i.as_str() != "calling_convention").unwrap_or(true));
                let cur = crate::refmodel::attr_str(&good[slot].attributes, "calling_convention");
                v[slot].attributes.0.push(Attribute::calling_convention(cur.as_deref().unwrap_or("thiscall")));
                out.push(("mutant/receiver-replaced-by-this-parameter", mk(family, Some(v), depth, false), ptrw));
                let mut v = good.clone();
                match &v[slot].return_type {
                    Some(_) => v[slot].return_type = None,
                    None => v[slot].return_type = Some(Type::ident("u32")),
                }
                out.push(("mutant/return-added-or-removed", mk(family, Some(v), depth, false), ptrw));
                let mut v = good.clone();
                if v[slot].return_type.is_some() {
                    v[slot].return_type = Some(Type::ident("u64"));
                    out.push(("mutant/return-changed", mk(family, Some(v), depth, false), ptrw));
                }
                let mut v = good.clone();
                if v[slot].arguments.len() > 1 {
                    let pname = match &v[slot].arguments[1] {
                        Argument::Named(n, _) => n.0.clone(),
                        _ => "x".to_string(),
                    };
                    v[slot].arguments[1] = Argument::named(pname.as_str(), Type::ident("u64"));
                    out.push(("mutant/parameter-type", mk(family, Some(v), depth, false), ptrw));
                    let mut v = good.clone();
                    v[slot].arguments.pop();
                    out.push(("mutant/parameter-removed", mk(family, Some(v), depth, false), ptrw));
                }
                let mut v = good.clone();
                v[slot].arguments.push(Argument::named("extra", Type::ident("u8")));
                out.push(("mutant/parameter-added", mk(family, Some(v), depth, false), ptrw));
                let mut v = good.clone();
                let cur = crate::refmodel::attr_str(&v[slot].attributes, "calling_convention");
                v[slot].attributes.0.retain(|a| a.function().map(|(i, _)| i.as_str() != "calling_convention").unwrap_or(true));
                v[slot].attributes.0.push(Attribute::calling_convention(if cur.as_deref() == Some("cdecl") { "stdcall" } else { "cdecl" }));
                out.push(("mutant/calling-convention", mk(family, Some(v), depth, false), ptrw));
            }
            for keep in 0..nbase {
                let v: Vec<Function> = good.iter().take(keep).cloned().collect();
                out.push((if keep == 0 { "mutant/truncated-to-empty-block" } else { "mutant/truncated" }, mk(family, Some(v), depth, false), ptrw));
            }
            if depth > 1 {
                // an intermediate type with an empty block over a base with slots
                out.push(("mutant/empty-block-in-the-middle", mk(family, Some(good.clone()), depth, true), ptrw));
            }
            // swapped order of two base slots
            let mut v = good.clone();
            let (i, j) = if family == 1 { (2, 4) } else { (0, 2) };
            v.swap(i, j);
            out.push(("mutant/swapped", mk(family, Some(v), depth, false), ptrw));
            if family == 1 {
                // the base's placeholder slot filled with a real function
                let mut v = good.clone();
                v[1].attributes = Attributes(vec![]);
                v.insert(1, Function::new((Visibility::Public, "filled"), [Argument::ConstSelf]));
                out.push(("mutant/placeholder-filled", mk(family, Some(v), depth, false), ptrw));
                // the placeholder moved: c at slot 1, nothing at 2
                let mut v = good.clone();
                v[1].attributes = Attributes(vec![]);
                out.push(("mutant/placeholder-dropped", mk(family, Some(v), depth, false), ptrw));
                // a real base slot turned into a placeholder by skipping over it
                let mut v = good.clone();
                v.remove(0);
                out.push(("mutant/slot-replaced-by-placeholder", mk(family, Some(v), depth, false), ptrw));
            }
        }
    }
    out
}

// ---------------------------------------------------------------------------
// C07

pub fn c07_cases(seed: u64, first_id: usize, n: usize) -> Vec<Case> {
    let mut out = vec![];
    for i in 0..n {
        let mut rng = Rng::derive(seed, 0x07AA_0000 + i as u64);
        let id = format!("k{}_", first_id + i);
        let mut m = Module::new();
        let mut addr = Addr(0x3000_0000 + i * 0x4000);
        if i % 6 == 5 {
            // two DIFFERENT base types that share their last path segment, reached through
            // intermediates of two modules: neither occurs twice
            let mut mods = vec![];
            let same_leaf_fn = rng.coin();
            for side in ["a", "b"] {
                let mut sm = Module::new();
                let mut node = TB::new("Node");
                node.nfields = rng.range(0, 2);
                if rng.coin() {
                    node.vft = Some(vec![func(&mut rng, &format!("{side}_virt"), Some(None), 8, 2)]);
                }
                node.impl_fns.push(with_address(func(&mut rng, if same_leaf_fn { "run" } else if side == "a" { "run_a" } else { "run_b" }, Some(None), 8, 2), addr.next()));
                node.add_to(&mut sm);
                let mut wrap = TB::new(&format!("Wrap{}", side.to_uppercase()));
                wrap.nfields = rng.range(0, 2);
                wrap.bases.push(("node".into(), "Node".into()));
                wrap.add_to(&mut sm);
                mods.push((ItemPath::from(format!("{id}{side}").as_str()), sm));
            }
            let mut d = TB::new("D");
            d.bases.push(("wa".into(), "WrapA".into()));
            d.bases.push(("wb".into(), "WrapB".into()));
            if rng.coin() {
                // and a genuinely repeated one
                d.bases.push(("wa2".into(), "WrapA".into()));
            }
            d.nfields = rng.range(0, 2);
            d.add_to(&mut m);
            m.uses.push(ItemPath::from(format!("{id}a::WrapA").as_str()));
            m.uses.push(ItemPath::from(format!("{id}b::WrapB").as_str()));
            mods.push((ItemPath::from(format!("{id}h").as_str()), m));
            out.push((id.clone(), mods, 8));
            continue;
        }
        // level 0: 2-3 roots, some with vftables, with deliberately shared method names
        let nroots = rng.range(2, 3);
        let mut level: Vec<String> = vec![];
        for r in 0..nroots {
            let mut t = TB::new(&format!("R{r}"));
            if rng.chance(2, 3) {
                t.vft = Some(vec![
                    func(&mut rng, &format!("r{r}_virt"), Some(None), 7, 3),
                    func(&mut rng, "shared_virt", Some(Some(false)), 6, 2),
                ]);
            }
            t.impl_fns.push(with_address(func(&mut rng, "common", Some(None), 6, 3), addr.next()));
            t.impl_fns.push(with_address(func(&mut rng, &format!("r{r}_own"), Some(Some(false)), 6, 3), addr.next()));
            if rng.chance(1, 3) {
                t.impl_fns.push(with_address(func(&mut rng, &format!("r{r}_static"), None, 8, 2), addr.next()));
            }
            t.nfields = rng.range(0, 2);
            t.add_to(&mut m);
            level.push(format!("R{r}"));
        }
        // upper levels
        let depth = rng.range(1, 3);
        let mut all: Vec<String> = level.clone();
        for l in 1..=depth {
            let nt = rng.range(1, 2);
            let mut next = vec![];
            for k in 0..nt {
                let name = format!("L{l}_{k}");
                let mut t = TB::new(&name);
                let nb = rng.range(1, 3);
                for b in 0..nb {
                    // diamonds: the same type may be picked twice across siblings or even here
                    let pick = rng.pick(&all).clone();
                    // a base field may be called `_something`; what is re-exposed through it and
                    // has to be renamed then starts with an underscore without being internal
                    let prefix = if rng.chance(1, 4) { "_" } else { "" };
                    t.bases.push((format!("{prefix}l{l}t{k}b{b}"), pick));
                }
                if rng.chance(1, 4) {
                    // an extern type as a base: nothing to inherit from it, but it is a base
                    // sub-object like any other
                    if m.extern_types.is_empty() {
                        m.extern_types.push((Ident("XBase".into()), Attributes(vec![Attribute::size(16), Attribute::align(8)])));
                    }
                    t.bases.push((format!("l{l}t{k}x"), "XBase".into()));
                }
                t.impl_fns.push(with_address(func(&mut rng, &format!("l{l}_{k}_own"), Some(Some(false)), 8, 3), addr.next()));
                t.nfields = rng.range(0, 2);
                t.add_to(&mut m);
                next.push(name);
            }
            all.extend(next);
        }
        out.push((id.clone(), vec![(ItemPath::from(format!("{id}h").as_str()), m)], 8));
    }
    out
}

// ---------------------------------------------------------------------------
// C15

pub fn c15_cases(seed: u64, first_id: usize, n: usize) -> Vec<Case> {
    let mut out = vec![];
    for i in 0..n {
        let mut rng = Rng::derive(seed, 0x15AA_0000 + i as u64);
        let id = format!("k{}_", first_id + i);
        let mut m = Module::new();
        let base = 0x6400_0000 + i * 0x4000;
        let mut next = 0usize;
        let hi: usize = if i % 4 == 3 { (1 + i % 0x7000) << 32 } else { 0 };
        let base = if hi != 0 { hi | (0x0001_0000 + (i % 64) * 0x1000) } else { base };
        let mut data = |len: usize| {
            let a = base + next;
            next += (len + 31) / 16 * 16 + 16;
            a
        };
        // struct singleton
        let mut t = TB::new("S");
        t.nfields = rng.range(1, 3);
        t.public = rng.chance(4, 5);
        t.attrs.push(Attribute::singleton(data(8)));
        t.add_to(&mut m);
        // enum singleton (copyable so that reading it by value is possible)
        let base_ty = *rng.pick(&["u8", "u16", "u32", "u64", "i8", "i16", "i32", "i64"]);
        m.definitions.push(ItemDefinition::new(
            (Visibility::Public, "E"),
            EnumDefinition::new(
                Type::ident(base_ty),
                [
                    EnumStatement::field_with_expr("A", Expr::IntLiteral(rng.below(50) as isize)),
                    EnumStatement::field("B"),
                    EnumStatement::field_with_expr("C", Expr::IntLiteral(100 + rng.below(27) as isize)),
                ],
                [Attribute::copyable(), Attribute::singleton(data(8))],
            ),
        ));
        // extern values
        let ev_types = [
            Type::ident("u8"),
            Type::ident("u32"),
            Type::ident("u64"),
            Type::ident("f64"),
            Type::ident("bool"),
            Type::ident("u16").array(5),
            Type::ident("u8").const_pointer(),
            Type::ident("S").mut_pointer(),
            Type::ident("S"),
            Type::ident("E"),
            Type::ident("S").array(2),
            Type::ident("void").const_pointer().array(3),
        ];
        for k in 0..rng.range(2, 6) {
            let ty = rng.pick(&ev_types).clone();
            m.extern_values.push(ExternValue::new(
                if rng.chance(3, 4) { Visibility::Public } else { Visibility::Private },
                &format!("ev{k}"),
                ty,
                [Attribute::address(data(64))],
            ));
        }
        if i % 5 == 4 {
            // another module, imported as a whole, has types of the same names (other shapes):
            // the module's own S and E are the ones its extern values are declared with,
            // whichever module was added first
            let mut p = Module::new();
            let mut ps = TB::new("S");
            ps.nfields = 5;
            ps.add_to(&mut p);
            p.definitions.push(ItemDefinition::new((Visibility::Public, "E"), EnumDefinition::new(Type::ident("u64"), [EnumStatement::field("Z")], [Attribute::copyable()])));
            m.uses.push(ItemPath::from(format!("{id}p").as_str()));
            let text = crate::render::render_random(&m, &mut rng);
            let m2 = pyxis::parser::parse_str(&text).unwrap_or(m);
            let mut mods = vec![(ItemPath::from(format!("{id}p").as_str()), p), (ItemPath::from(format!("{id}g").as_str()), m2)];
            if i % 10 == 9 {
                mods.reverse();
            }
            out.push((id.clone(), mods, 8));
            continue;
        }
        let text = crate::render::render_random(&m, &mut rng);
        let m2 = pyxis::parser::parse_str(&text).unwrap_or(m);
        out.push((id.clone(), vec![(ItemPath::from(format!("{id}g").as_str()), m2)], 8));
    }
    out
}

// ---------------------------------------------------------------------------
// items named like predefined types

/// Multi-module programs in which one module defines items called `u8`, `bool`, `u64`… and at
/// the same time uses the predefined types of those names in fields, padding, arrays,
/// signatures, extern values and enum bases; a plain module uses the very same types; a third
/// imports one of the shadowing items by name.
pub fn shadow_programs(first_id: usize) -> Vec<Case> {
    let mut out = vec![];
    for ptrw in [8usize, 4] {
        for order in 0..3usize {
            let id = format!("k{}_", first_id + out.len());
            let sh = format!(
                "#[align(2)] pub type u8 {{ pub x: u16, }}\npub enum bool: u16 {{ No, Yes, }}\n#[size(16), align(8)] extern type u64;\n#[align(8)] pub type Uses {{ pub a: u32, pub b: u8, #[address(8)] pub c: u64, pub d: [u8; 4], pub e: bool, _: unknown<3>, }}\n#[align(8)] pub type Gap {{ pub a: u32, #[address(0x10)] pub b: u64, }}\nimpl Uses {{ #[address(0x1000)] pub fn f(&self, x: u8, y: *const u64) -> bool; }}\n#[address(0x6A00_7000)] pub extern g_byte: u8;\n#[address(0x6A00_7010)] pub extern g_bytes: [u8; 4];\n#[address(0x6A00_7020)] pub extern g_wide: *mut u64;\npub enum E: u8 {{ A = 1, B, }}\n#[singleton(0x6A00_7040)] pub type Solo {{ pub n: u64, }}\n"
            );
            let plain = "#[align(8)] pub type Plain { pub a: u32, pub b: u8, #[address(8)] pub c: u64, pub d: [u8; 4], pub e: bool, _: unknown<3>, }\nimpl Plain { #[address(0x1040)] pub fn f(&self, x: u8, y: *const u64) -> bool; }\n#[address(0x6A00_7100)] pub extern p_byte: u8;\n#[address(0x6A00_7110)] pub extern p_bytes: [u8; 4];\n".to_string();
            let imp = format!("use {id}sh::u8;\n#[align(4)] pub type Imp {{ pub a: u8, _: unknown<6>, #[address(0x10)] pub c: u32, pub t: [u8; 2], }}\n#[align(4)] pub type ImpAddr {{ pub a: u8, #[address(8)] pub c: u32, }}\n");
            let parse = |t: &str| pyxis::parser::parse_str(t).expect("shadow program parses");
            let mut mods = vec![
                (ItemPath::from(format!("{id}sh").as_str()), parse(&sh)),
                (ItemPath::from(format!("{id}plain").as_str()), parse(&plain)),
                (ItemPath::from(format!("{id}imp").as_str()), parse(&imp)),
            ];
            mods.rotate_left(order);
            out.push((id, mods, ptrw));
        }
    }
    out
}

// ---------------------------------------------------------------------------
// negatives

fn must_reject(ctx: &mut Ctx, prop: &str, kind: &str, mods: Vec<(ItemPath, Module)>, ptrw: usize) {
    ctx.eval();
    ctx.count("negative_cases", 1);
    let out = drive::build_modules(&mods, ptrw, Opts::default());
    let case = json!({"negative": kind, "case": case_json(&mods, ptrw)});
    ctx.nontrivial(crate::rng::fnv(format!("{kind}{:?}", mods).as_bytes()));
    match out.result {
        Ok(_) => ctx.violation(&format!("{prop}/accepted/{kind}"), "input that must be rejected was accepted and emitted", case),
        Err(e) if e.stage == Stage::Panic => ctx.violation(&format!("{prop}/panic/{kind}"), &e.msg, case),
        Err(_) => ctx.count(&format!("negatives_rejected/{kind}"), 1),
    }
    if ctx.counter(&format!("neg_sampled/{kind}")) == 0 {
        ctx.count(&format!("neg_sampled/{kind}"), 1);
        ctx.sample_phase("negative", json!({"kind": kind, "case": case_json(&mods, ptrw)}));
    }
}

pub fn negatives(ctx: &mut Ctx, prop: &str) {
    let mut rng = Rng::derive(ctx.seed, 0xBAD0);
    let n = ctx.tier.pick(30, 300);
    match prop {
        "C04" => {
            // contradicting index / size
            for i in 0..n {
                let mut m = Module::new();
                let mut t = TB::new("T");
                let nf = rng.range(2, 5);
                let mut fns: Vec<Function> = (0..nf).map(|k| func(&mut rng, &format!("v{k}"), Some(Some(false)), 8, 2)).collect();
                let kind;
                if i % 2 == 0 {
                    let victim = rng.range(1, nf - 1);
                    let idx = rng.below(victim);
                    fns[victim].attributes.0.push(Attribute::index(idx));
                    kind = "index-below-next-free-slot";
                } else {
                    t.vft_size = Some(rng.below(nf));
                    kind = "size-below-occupied-slots";
                }
                t.vft = Some(fns);
                t.add_to(&mut m);
                must_reject(ctx, prop, kind, vec![(ItemPath::from("kneg_m"), m)], *rng.pick(&[4, 8]));
            }
        }
        "C05" => {
            for i in 0..n {
                let mut m = Module::new();
                let mut t = TB::new("T");
                let mut f = func(&mut rng, "f", Some(Some(false)), 8, 3);
                let kind = match i % 8 {
                    5 => {
                        // the same name twice (with different addresses), in one or in two impl blocks
                        f.attributes.0.push(Attribute::address(0x2000_0000));
                        let mut g = f.clone();
                        g.attributes = Attributes(vec![Attribute::address(0x2000_0400)]);
                        {
                            // across two blocks (checked here), then within one (falls through)
                            let mut m2 = m.clone();
                            let mut t2 = t.clone();
                            t2.impl_fns.push(f.clone());
                            t2.add_to(&mut m2);
                            m2.impls.push(FunctionBlock::new("T", [g.clone()]));
                            must_reject(ctx, prop, "duplicate-function-across-blocks", vec![(ItemPath::from("kneg_m"), m2)], *rng.pick(&[4, 8]));
                        }
                        t.impl_fns.push(g);
                        "duplicate-function-in-one-block"
                    }
                    6 => {
                        // an impl block for something that is not a type of this module
                        f.attributes.0.push(Attribute::address(0x2000_0000));
                        let target = *rng.pick(&["Nowhere", "E", "Imported", "Ext"]);
                        m.extern_types.push((Ident("Ext".into()), Attributes(vec![Attribute::size(8), Attribute::align(8)])));
                        m.definitions.push(ItemDefinition::new((Visibility::Public, "E"), EnumDefinition::new(Type::ident("u32"), [EnumStatement::field("A")], [])));
                        m.impls.push(FunctionBlock::new(target, [f.clone()]));
                        t.add_to(&mut m);
                        let mut other = Module::new();
                        TB::new("Imported").add_to(&mut other);
                        m.uses.push(ItemPath::from("kneg_o::Imported"));
                        must_reject(ctx, prop, "impl-block-for-non-local-type", vec![(ItemPath::from("kneg_o"), other), (ItemPath::from("kneg_m"), m)], *rng.pick(&[4, 8]));
                        continue;
                    }
                    7 => {
                        f.attributes.0.push(Attribute::address(0x2000_0000));
                        f.arguments.push(Argument::named("z", Type::ident("Undefined").const_pointer().array(2)));
                        "undefined-parameter-type"
                    }
                    0 => "missing-address",
                    1 => {
                        f.attributes.0.push(Attribute::address(0x2000_0000));
                        f.arguments.push(Argument::named("z", Type::ident("Undefined")));
                        "undefined-parameter-type"
                    }
                    2 => {
                        f.attributes.0.push(Attribute::address(0x2000_0000));
                        f.return_type = Some(Type::ident("Undefined"));
                        "undefined-return-type"
                    }
                    3 => {
                        f.attributes.0.push(Attribute::address(0x2000_0000));
                        f.return_type = Some(Type::ident("Undefined").const_pointer());
                        "undefined-return-pointee"
                    }
                    _ => {
                        f.attributes.0.push(Attribute::address(0x2000_0000));
                        f.attributes.0.push(Attribute::index(rng.below(4)));
                        "index-on-non-virtual"
                    }
                };
                // the offending function sits anywhere in a block of 1..4 functions
                let n_good = rng.below(4);
                let pos = rng.below(n_good + 1);
                for k in 0..n_good {
                    let mut g = func(&mut rng, &format!("good{k}"), Some(Some(false)), 8, 2);
                    g.attributes.0.push(Attribute::address(0x2100_0000 + k * 0x40));
                    t.impl_fns.push(g);
                }
                t.impl_fns.insert(pos, f);
                t.add_to(&mut m);
                if kind.starts_with("undefined-") && (i / 8) % 2 == 1 {
                    // the name exists, and is used, in a module this one does not import: it is
                    // still undefined here, whichever module is handed over or resolved first
                    let other = pyxis::parser::parse_str("pub type Undefined { pub x: u32, }\npub type User { pub p: *const Undefined, pub q: Undefined, }\nimpl User { #[address(0x2200_0000)] pub fn take(&self, u: *const Undefined) -> *mut Undefined; }\n").expect("parses");
                    let mut mods = vec![(ItemPath::from("kneg_o"), other), (ItemPath::from("kneg_m"), m)];
                    if (i / 16) % 2 == 1 {
                        mods.reverse();
                    }
                    let ptrw = *rng.pick(&[4, 8]);
                    must_reject(ctx, prop, &format!("{kind}-defined-in-unimported-module"), mods, ptrw);
                    continue;
                }
                must_reject(ctx, prop, kind, vec![(ItemPath::from("kneg_m"), m)], *rng.pick(&[4, 8]));
            }
        }
        "C06" => {
            for ptrw in [4usize, 8] {
                // the compatible derived type of the current (family, depth): every mutant is
                // also built NEXT TO it (a sibling over the same base, named so that it sorts
                // before or after, declared before or after), several times because the order
                // in which the two are checked follows the hash order of the build
                let mut good_d: Option<ItemDefinition> = None;
                let mut prev_compatible = false;
                for (kind, mods, ptrw) in c06_mutants(ptrw) {
                    if kind == "compatible" && !prev_compatible {
                        good_d = mods[0].1.definitions.iter().find(|d| d.name.0 == "D").cloned();
                    }
                    prev_compatible = kind == "compatible";
                    if kind != "compatible" {
                        if let Some(g) = &good_d {
                            for (name, first) in [("Aaa", true), ("Zzz", false), ("Zzz", true), ("Aaa", false)] {
                                let mut sib = g.clone();
                                sib.name = Ident(name.into());
                                let mut m = mods[0].1.clone();
                                let at = if first { m.definitions.iter().position(|d| d.name.0 == "D").unwrap_or(0) } else { m.definitions.len() };
                                m.definitions.insert(at, sib);
                                for _ in 0..3 {
                                    must_reject(ctx, prop, &format!("{kind}+compatible-sibling"), vec![(mods[0].0.clone(), m.clone())], ptrw);
                                }
                            }
                        }
                    }
                    if kind == "compatible" {
                        ctx.eval();
                        let out = drive::build_modules(&mods, ptrw, Opts::default());
                        match out.result {
                            Ok(_) => ctx.count("compatible_tables_accepted", 1),
                            Err(e) if e.stage == Stage::Panic => ctx.violation("C06/panic", &e.msg, case_json(&mods, ptrw)),
                            Err(_) => ctx.count("compatible_tables_rejected", 1),
                        }
                    } else {
                        must_reject(ctx, prop, kind, mods, ptrw);
                    }
                }
            }
            if ctx.counter("compatible_tables_accepted") == 0 {
                ctx.inconclusive("no compatible derived table was accepted: the mutant rejections prove nothing");
            }
        }
        "C15" => {
            for _ in 0..n {
                let mut m = Module::new();
                // the address-less one sits anywhere among 0..3 properly addressed ones
                let n_good = rng.below(4);
                let pos = rng.below(n_good + 1);
                for k in 0..n_good {
                    m.extern_values.push(ExternValue::new(Visibility::Public, &format!("good{k}"), arg_type(&mut rng), [Attribute::address(0x6500_0000 + k * 0x40)]));
                }
                m.extern_values.insert(pos, ExternValue::new(Visibility::Public, "ev", arg_type(&mut rng), Attributes(if rng.coin() { vec![] } else { vec![Attribute::size(4)] })));
                must_reject(ctx, prop, "extern-value-without-address", vec![(ItemPath::from("kneg_m"), m)], *rng.pick(&[4, 8]));
            }
            // addresses that are no addresses, and singleton attributes in shapes nobody reads
            for (kind, text) in [
                ("extern-value-negative-address", "#[address(-16)] pub extern g: u32;"),
                ("enum-singleton-negative-address", "#[singleton(-16), copyable] pub enum E: u32 { A = 0, }"),
                ("type-singleton-negative-address", "#[singleton(-16)] pub type T { pub a: u32, }"),
                ("enum-singleton-two-arguments", "#[singleton(1, 2), copyable] pub enum E: u32 { A = 0, }"),
                ("enum-singleton-assignment", "#[singleton = 16, copyable] pub enum E: u32 { A = 0, }"),
                ("enum-singleton-string", "#[singleton(\"16\"), copyable] pub enum E: u32 { A = 0, }"),
                ("extern-value-address-string", "#[address(\"16\")] pub extern g: u32;"),
                ("extern-value-address-two-arguments", "#[address(16, 32)] pub extern g: u32;"),
                // one hex digit too many: 2^64 and beyond is not an address
                ("extern-value-address-beyond-64-bits", "#[address(0x1_0000_0000_0000_1000)] pub extern g: u32;"),
                ("extern-value-address-2-to-the-64", "#[address(18446744073709551616)] pub extern g: u32;"),
                ("type-singleton-beyond-64-bits", "#[singleton(0x1_0000_0000_0000_1000)] pub type T { pub a: u32, }"),
                ("enum-singleton-beyond-64-bits", "#[singleton(0x1_0000_0000_0000_1000), copyable] pub enum E: u32 { A = 0, }"),
                ("function-address-beyond-64-bits", "pub type T { pub a: u32, }\nimpl T { #[address(0x1_0000_0000_0000_1000)] pub fn f(&self); }"),
            ] {
                // (a parse error is a rejection as well)
                match pyxis::parser::parse_str(text) {
                    Ok(m) => must_reject(ctx, prop, kind, vec![(ItemPath::from("kneg_m"), m)], 8),
                    Err(_) => ctx.count(&format!("negatives_rejected/{kind}"), 1),
                }
            }
        }
        _ => {}
    }
}
