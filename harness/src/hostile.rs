//! Hostile perturbations of accepted-by-construction programs.
//!
//! The oracles of C01, C02, C13, C14 and C20 judge *accepted* builds. A pyxis that
//! wrongly accepts a description is only visible to them if such descriptions are
//! fed in, so a share of every workload is a valid generated program with one to
//! three small edits that usually make it unrealisable. A correct pyxis rejects
//! most of them (those are skipped and counted); whatever it accepts is judged
//! like any other accepted build.

use crate::refmodel::attr_int;
use crate::rng::Rng;
use pyxis::grammar::*;

type Mods = Vec<(ItemPath, Module)>;

fn set_int_attr(attrs: &mut Attributes, name: &str, v: Option<usize>) {
    attrs.0.retain(|a| !matches!(a, Attribute::Function(i, _) if i.as_str() == name));
    if let Some(v) = v {
        attrs.0.push(Attribute::integer_fn(name, v as isize));
    }
}

fn toggle_flag(attrs: &mut Attributes, name: &str) {
    let had = attrs.0.iter().any(|a| matches!(a, Attribute::Ident(i) if i.as_str() == name));
    attrs.0.retain(|a| !matches!(a, Attribute::Ident(i) if i.as_str() == name));
    if !had {
        attrs.0.push(Attribute::Ident(name.into()));
    }
}

fn nudge(v: usize, rng: &mut Rng) -> usize {
    let d = *rng.pick(&[1usize, 2, 3, 4, 8, 12, 16]);
    if rng.coin() {
        v + d
    } else {
        v.saturating_sub(d)
    }
}

const SCALARS: &[&str] = &["u8", "u16", "u32", "u64", "u128", "i8", "i16", "i32", "i64", "f32", "f64", "bool"];

/// One random perturbation; returns its name, or None if it did not apply.
pub fn perturb_once(mods: &mut Mods, rng: &mut Rng) -> Option<&'static str> {
    let mi = rng.below(mods.len());
    let type_names: Vec<String> = mods[mi]
        .1
        .definitions
        .iter()
        .filter(|d| matches!(d.inner, ItemDefinitionInner::Type(_)))
        .map(|d| d.name.0.clone())
        .collect();
    let m = &mut mods[mi].1;
    if m.definitions.is_empty() {
        return None;
    }
    let di = rng.below(m.definitions.len());
    let own_name = m.definitions[di].name.0.clone();
    match &mut m.definitions[di].inner {
        ItemDefinitionInner::Enum(ed) => match rng.below(4) {
            0 if ed.statements.len() >= 3 => {
                // an implicit run climbs back into an earlier explicit value: X = k, Y = 0, Z, ...
                let n = ed.statements.len();
                let k = rng.range(1, n - 1);
                ed.statements[0].expr = Some(Expr::IntLiteral(k as isize - 1 + 1));
                ed.statements[1].expr = Some(Expr::IntLiteral(0));
                for s in ed.statements.iter_mut().skip(2) {
                    s.expr = None;
                }
                Some("enum-implicit-run-collides")
            }
            1 if !ed.statements.is_empty() => {
                let j = rng.below(ed.statements.len());
                let other = rng.below(ed.statements.len());
                let v = match &ed.statements[other].expr {
                    Some(Expr::IntLiteral(v)) => *v,
                    _ => other as isize,
                };
                ed.statements[j].expr = Some(Expr::IntLiteral(v));
                Some("enum-explicit-value-collides")
            }
            2 => {
                toggle_flag(&mut ed.attributes, "defaultable");
                Some("enum-defaultable-toggled")
            }
            _ => {
                ed.type_ = Type::ident(*rng.pick(&["u8", "i8", "u16", "u32", "i64"]));
                Some("enum-base-changed")
            }
        },
        ItemDefinitionInner::Type(td) => {
            let nstmt = td.statements.len();
            match rng.below(17) {
                0 => {
                    let cur = attr_int(&td.attributes, "size").map(|v| v as usize);
                    let new = match cur {
                        Some(v) if rng.chance(3, 4) => Some(nudge(v, rng)),
                        Some(_) => None,
                        None => Some(rng.range(0, 64)),
                    };
                    set_int_attr(&mut td.attributes, "size", new);
                    Some("type-size-changed")
                }
                1 => {
                    let cur = attr_int(&td.attributes, "align").map(|v| v as usize);
                    let new = match cur {
                        Some(v) if rng.chance(2, 3) => Some(if rng.coin() { (v / 2).max(1) } else { v * 2 }),
                        Some(_) => None,
                        None => Some(1usize << rng.below(5)),
                    };
                    set_int_attr(&mut td.attributes, "align", new);
                    Some("type-align-changed")
                }
                15 => {
                    if attr_int(&td.attributes, "align").is_none() {
                        return None;
                    }
                    set_int_attr(&mut td.attributes, "align", None);
                    Some("type-align-removed")
                }
                2 => {
                    toggle_flag(&mut td.attributes, "packed");
                    if rng.coin() {
                        set_int_attr(&mut td.attributes, "align", None);
                    }
                    Some("packed-toggled")
                }
                3 | 4 if nstmt > 0 => {
                    let j = rng.below(nstmt);
                    if td.statements[j].field.is_vftable() {
                        return None;
                    }
                    let cur = attr_int(&td.statements[j].attributes, "address").map(|v| v as usize);
                    let new = match cur {
                        Some(v) => Some(nudge(v, rng)),
                        None => Some(rng.range(0, 96)),
                    };
                    set_int_attr(&mut td.statements[j].attributes, "address", new);
                    Some("field-address-changed")
                }
                5 if nstmt > 0 => {
                    let j = rng.below(nstmt);
                    if let TypeField::Field(_, n, t) = &mut td.statements[j].field {
                        if n.as_str() == "_" {
                            if let Type::Unknown(k) = t {
                                *k = nudge(*k, rng);
                                return Some("gap-size-changed");
                            }
                        }
                    }
                    None
                }
                6 if nstmt > 0 => {
                    let j = rng.below(nstmt);
                    if let TypeField::Field(_, n, _) = &td.statements[j].field {
                        if n.as_str() == "_" {
                            td.statements.remove(j);
                            return Some("gap-removed");
                        }
                    }
                    None
                }
                7 | 8 if nstmt > 0 => {
                    let j = rng.below(nstmt);
                    let is_base = td.statements[j].attributes.0.iter().any(|a| matches!(a, Attribute::Ident(i) if i.as_str() == "base"));
                    if let TypeField::Field(_, n, t) = &mut td.statements[j].field {
                        if n.as_str() != "_" && !is_base {
                            *t = match rng.below(4) {
                                0 => Type::ident(*rng.pick(SCALARS)).array(rng.range(0, 5)),
                                1 => Type::ident("u8").const_pointer(),
                                _ => Type::ident(*rng.pick(SCALARS)),
                            };
                            return Some("field-type-changed");
                        }
                    }
                    None
                }
                9 if nstmt >= 2 => {
                    let a = rng.below(nstmt);
                    let b = rng.below(nstmt);
                    if a != b && !td.statements[a].field.is_vftable() && !td.statements[b].field.is_vftable() {
                        td.statements.swap(a, b);
                        return Some("fields-swapped");
                    }
                    None
                }
                10 => {
                    // embed another user type of the module by value (also into packed types)
                    let others: Vec<&String> = type_names.iter().filter(|n| **n != own_name).collect();
                    if others.is_empty() {
                        return None;
                    }
                    let t = (*rng.pick(&others)).clone();
                    let ty = if rng.chance(1, 3) { Type::ident(&t).array(rng.range(1, 3)) } else { Type::ident(&t) };
                    let mut st = TypeStatement::field((Visibility::Public, format!("emb{}", rng.below(1000)).as_str()), ty);
                    if rng.chance(1, 4) {
                        st.attributes = Attributes(vec![Attribute::base()]);
                    }
                    let pos = rng.below(nstmt + 1).max(if td.statements.first().map(|s| s.field.is_vftable()).unwrap_or(false) { 1 } else { 0 });
                    td.statements.insert(pos.min(td.statements.len()), st);
                    Some("by-value-field-added")
                }
                11 => {
                    let which = *rng.pick(&["copyable", "cloneable", "defaultable"]);
                    toggle_flag(&mut td.attributes, which);
                    Some("marker-toggled")
                }
                12 => {
                    // vftable block edits: empty it, drop an index, add a size
                    for st in td.statements.iter_mut() {
                        let sz = attr_int(&st.attributes, "size").map(|v| v as usize);
                        if let TypeField::Vftable(fs) = &mut st.field {
                            match rng.below(4) {
                                0 => fs.clear(),
                                1 if !fs.is_empty() => {
                                    let k = rng.below(fs.len());
                                    let cur = attr_int(&fs[k].attributes, "index").map(|v| v as usize);
                                    set_int_attr(&mut fs[k].attributes, "index", match cur {
                                        Some(v) => Some(nudge(v, rng) % 12),
                                        None => Some(rng.below(8)),
                                    });
                                }
                                2 => set_int_attr(&mut st.attributes, "size", Some(sz.map(|v| nudge(v, rng) % 16).unwrap_or(rng.below(8)))),
                                _ if !fs.is_empty() => {
                                    let k = rng.below(fs.len());
                                    fs.remove(k);
                                }
                                _ => {}
                            }
                            return Some("vftable-block-edited");
                        }
                    }
                    None
                }
                13 => {
                    // an empty vftable block on a type without one
                    if td.statements.iter().any(|s| s.field.is_vftable()) {
                        return None;
                    }
                    td.statements.insert(0, TypeStatement::vftable([]));
                    Some("empty-vftable-block-added")
                }
                14 if nstmt > 0 => {
                    // an ordinary field in front of everything (also in front of bases)
                    let pos = if td.statements[0].field.is_vftable() { 1 } else { 0 };
                    td.statements.insert(pos, TypeStatement::field((Visibility::Public, format!("lead{}", rng.below(1000)).as_str()), Type::ident(*rng.pick(SCALARS))));
                    Some("leading-field-added")
                }
                _ if nstmt > 0 => {
                    let j = rng.below(nstmt);
                    if td.statements[j].field.is_vftable() {
                        return None;
                    }
                    td.statements.remove(j);
                    Some("field-removed")
                }
                _ => None,
            }
        }
    }
}

/// Apply 1..=3 perturbations; returns their names (empty = nothing applied).
pub fn perturb(mods: &mut Mods, rng: &mut Rng) -> Vec<&'static str> {
    let mut out = vec![];
    let n = rng.range(1, 3);
    let mut tries = 0;
    while out.len() < n && tries < 12 {
        tries += 1;
        if let Some(k) = perturb_once(mods, rng) {
            out.push(k);
        }
    }
    out
}
