//! Shared L2 pipeline: build generated programs with pyxis, assemble probe
//! crates around the emitted files, execute them and collect observations.

use crate::drive::{self, BuildErr, BuildOk, Opts};
use crate::emitted::{self, EFile};
use crate::gen_prog::Generated;
use crate::probe::{self, ProbeCrate, RunLog};
use crate::refmodel::attr_int;
use pyxis::grammar::{ItemPath, Module};
use std::collections::BTreeMap;

pub struct Built {
    pub id: String,
    pub mods: Vec<(ItemPath, Module)>,
    pub ptrw: usize,
    pub ok: BuildOk,
    /// module path -> parsed emitted file
    pub efiles: BTreeMap<String, EFile>,
    /// module path -> emitted text
    pub texts: BTreeMap<String, String>,
}

pub fn rel_to_module(rel: &str) -> String {
    rel.strip_suffix(".rs").unwrap_or(rel).replace('/', "::")
}

pub enum BuildOutcome {
    Built(Built),
    Rejected(BuildErr),
    /// emitted file not parsable Rust (C13 event)
    Unparsable { module: String, error: String, ok: BuildOk },
}

pub fn build_case(id: &str, gen: &Generated) -> BuildOutcome {
    build_mods(id, &gen.mods, gen.ptrw)
}

pub fn build_mods(id: &str, mods: &[(ItemPath, Module)], ptrw: usize) -> BuildOutcome {
    let out = drive::build_modules(mods, ptrw, Opts::default());
    match out.result {
        Err(e) => BuildOutcome::Rejected(e),
        Ok(ok) => {
            let mut efiles = BTreeMap::new();
            let mut texts = BTreeMap::new();
            for (rel, text) in &ok.files {
                let mp = rel_to_module(rel);
                match emitted::parse(text) {
                    Ok(f) => {
                        efiles.insert(mp.clone(), f);
                        texts.insert(mp, text.clone());
                    }
                    Err(e) => {
                        return BuildOutcome::Unparsable {
                            module: mp,
                            error: e,
                            ok,
                        }
                    }
                }
            }
            BuildOutcome::Built(Built {
                id: id.to_string(),
                mods: mods.to_vec(),
                ptrw,
                ok,
                efiles,
                texts,
            })
        }
    }
}

/// Definitions for a module's extern types, as the user of the bindings would supply them.
/// Element type whose natural alignment is `align` on the targets used here.
pub fn elem_for_align(align: i64) -> Option<(&'static str, i64)> {
    match align {
        1 => Some(("u8", 1)),
        2 => Some(("u16", 2)),
        4 => Some(("u32", 4)),
        8 => Some(("u64", 8)),
        16 => Some(("u128", 16)),
        _ => None,
    }
}

pub fn extern_defs(m: &Module) -> String {
    let mut s = String::new();
    for (name, attrs) in &m.extern_types {
        let size = attr_int(attrs, "size").unwrap_or(0).max(0) as i64;
        let align = attr_int(attrs, "align").unwrap_or(1).max(1) as i64;
        // prefer a stand-in without `repr(align)` (which a packed struct could not contain)
        match elem_for_align(align) {
            Some((elem, a)) if size % a == 0 => {
                let n = size / a;
                // full paths: the extern type itself may be named like a predefined type
                s.push_str(&format!(
                    "#[derive(Clone, Copy)]\n#[repr(C)]\npub struct {name}(pub [::core::primitive::{elem}; {n}]);\nimpl Default for {name} {{ fn default() -> Self {{ {name}([0; {n}]) }} }}\n"
                ));
            }
            _ => s.push_str(&format!(
                "#[derive(Clone, Copy)]\n#[repr(C, align({align}))]\npub struct {name}(pub [::core::primitive::u8; {size}]);\nimpl Default for {name} {{ fn default() -> Self {{ {name}([0u8; {size}]) }} }}\n"
            )),
        }
    }
    s
}

pub fn extern_list(mods: &[(ItemPath, Module)]) -> Vec<crate::layoutdump::ExternDef> {
    let mut v = vec![];
    for (p, m) in mods {
        for (name, attrs) in &m.extern_types {
            v.push((
                p.to_string(),
                name.0.clone(),
                attr_int(attrs, "size").unwrap_or(0).max(0) as usize,
                attr_int(attrs, "align").unwrap_or(1).max(1) as usize,
            ));
        }
    }
    v
}

#[derive(Clone, Debug)]
pub enum StepKind {
    StructLayout,
    EnumValues,
}

#[derive(Clone, Debug)]
pub struct StepMeta {
    pub step: u64,
    pub case: usize,
    pub module: String,
    pub item: String,
    pub kind: StepKind,
}

/// Strip `_X_size_check` functions so layout stays observable even when pyxis'
/// own assertion would not hold (C01/C02 probes).
pub fn strip_size_checks(text: &str) -> String {
    let Ok(mut file) = syn::parse_file(text) else { return text.to_string() };
    file.items.retain(|it| {
        if let syn::Item::Fn(f) = it {
            let n = f.sig.ident.to_string();
            !(n.starts_with('_') && n.ends_with("_size_check"))
        } else {
            true
        }
    });
    // keep inner attributes and items; token printing is enough for rustc
    use quote::ToTokens;
    file.to_token_stream().to_string()
}

/// Put the emitted files of `b` into the crate (host ABI strings), with extern
/// type definitions appended; does not add steps.
pub fn add_case_files(pc: &mut ProbeCrate, b: &Built, strip_checks: bool) {
    for (mp, text) in &b.texts {
        let t = if strip_checks { strip_size_checks(text) } else { text.clone() };
        let mf = pc.module(mp);
        mf.emitted = probe::abi_normalise(&t);
    }
    for (p, m) in &b.mods {
        let mp = p.to_string();
        let defs = extern_defs(m);
        if !defs.is_empty() {
            pc.module(&mp).extra.push_str(&defs);
        }
    }
}

pub fn add_layout_steps(pc: &mut ProbeCrate, b: &Built, case: usize) -> Vec<StepMeta> {
    let mut metas = vec![];
    for (mp, ef) in &b.efiles {
        for s in &ef.structs {
            let t = &s.name;
            let mut body = String::new();
            body.push_str(&format!(
                "        fn __fsz<T>(_: *const T) -> ::core::primitive::usize {{ ::std::mem::size_of::<T>() }}\n        let __u = ::std::mem::MaybeUninit::<{t}>::uninit();\n        let __q = __u.as_ptr();\n        crate::rt::val(\"size\", ::std::mem::size_of::<{t}>() as ::core::primitive::u64);\n        crate::rt::val(\"align\", ::std::mem::align_of::<{t}>() as ::core::primitive::u64);\n"
            ));
            for f in &s.fields {
                let fname = &f.name;
                body.push_str(&format!(
                    "        crate::rt::val(\"off|{fname}\", ::std::mem::offset_of!({t}, {fname}) as ::core::primitive::u64);\n        crate::rt::val(\"fsz|{fname}\", __fsz(unsafe {{ ::std::ptr::addr_of!((*__q).{fname}) }}) as ::core::primitive::u64);\n        crate::rt::val(\"addr_off|{fname}\", (unsafe {{ ::std::ptr::addr_of!((*__q).{fname}) }} as ::core::primitive::usize - __q as ::core::primitive::usize) as ::core::primitive::u64);\n"
                ));
            }
            let step = pc.add_step(mp, false, body);
            metas.push(StepMeta {
                step,
                case,
                module: mp.clone(),
                item: t.clone(),
                kind: StepKind::StructLayout,
            });
        }
        for e in &ef.enums {
            let t = &e.name;
            let mut body = String::new();
            body.push_str(&format!(
                "        crate::rt::val(\"size\", ::std::mem::size_of::<{t}>() as ::core::primitive::u64);\n        crate::rt::val(\"align\", ::std::mem::align_of::<{t}>() as ::core::primitive::u64);\n"
            ));
            for v in &e.variants {
                let vn = &v.name;
                body.push_str(&format!(
                    "        crate::rt::sval(\"var|{vn}\", {t}::{vn} as i128);\n"
                ));
            }
            if e.derives.iter().any(|d| d == "Default") {
                body.push_str(&format!(
                    "        crate::rt::sval(\"default\", <{t} as ::std::default::Default>::default() as i128);\n"
                ));
            }
            let step = pc.add_step(mp, false, body);
            metas.push(StepMeta {
                step,
                case,
                module: mp.clone(),
                item: t.clone(),
                kind: StepKind::EnumValues,
            });
        }
    }
    metas
}

#[derive(Debug, Clone, Default)]
pub struct ItemObs {
    pub size: Option<u64>,
    pub align: Option<u64>,
    /// (field name, offset_of, size of field type, executed addr_of offset)
    pub fields: Vec<(String, u64, u64, u64)>,
    pub variants: Vec<(String, i128)>,
    pub default: Option<i128>,
    pub panicked: Option<String>,
    pub complete: bool,
}

/// (case, "module::Item") -> observation
pub fn collect_layouts(log: &RunLog, metas: &[StepMeta]) -> BTreeMap<(usize, String), ItemObs> {
    let mut out = BTreeMap::new();
    for m in metas {
        let mut o = ItemObs::default();
        if let Some(st) = log.steps.get(&m.step) {
            o.complete = st.ended && st.panic.is_none();
            o.panicked = st.panic.clone();
            let mut offs: Vec<(String, u64)> = vec![];
            let mut fsz: BTreeMap<String, u64> = BTreeMap::new();
            let mut aoff: BTreeMap<String, u64> = BTreeMap::new();
            for e in &st.events {
                if e["k"] != "val" {
                    continue;
                }
                let name = e["name"].as_str().unwrap_or("");
                let vi = e["v"].as_i64().map(|x| x as i128).or_else(|| e["v"].as_u64().map(|x| x as i128)).unwrap_or(0);
                if name == "size" {
                    o.size = Some(vi as u64);
                } else if name == "align" {
                    o.align = Some(vi as u64);
                } else if name == "default" {
                    o.default = Some(vi);
                } else if let Some(f) = name.strip_prefix("off|") {
                    offs.push((f.to_string(), vi as u64));
                } else if let Some(f) = name.strip_prefix("fsz|") {
                    fsz.insert(f.to_string(), vi as u64);
                } else if let Some(f) = name.strip_prefix("addr_off|") {
                    aoff.insert(f.to_string(), vi as u64);
                } else if let Some(v) = name.strip_prefix("var|") {
                    o.variants.push((v.to_string(), vi));
                }
            }
            for (f, off) in offs {
                let s = fsz.get(&f).copied().unwrap_or(u64::MAX);
                let a = aoff.get(&f).copied().unwrap_or(u64::MAX);
                o.fields.push((f, off, s, a));
            }
        }
        out.insert((m.case, format!("{}::{}", m.module, m.item)), o);
    }
    out
}

pub struct NativeRun {
    pub log: RunLog,
    pub build_errors: Option<String>,
    pub scratch: crate::drive::Scratch,
    pub bin: std::path::PathBuf,
}

/// Write, compile natively and run. Returns Err(compile diagnostics) when rustc fails.
pub fn compile_and_run_native(pc: &ProbeCrate, label: &str) -> Result<NativeRun, (String, crate::drive::Scratch)> {
    let scratch = probe::scratch(label);
    let root = pc.write(&scratch.path);
    let bin = scratch.path.join("probe_bin");
    let r = probe::build_native(&root, &bin);
    if !r.ok {
        return Err((r.stderr, scratch));
    }
    let log = probe::run_native(&bin, pc.next_step);
    Ok(NativeRun {
        log,
        build_errors: None,
        scratch,
        bin,
    })
}
