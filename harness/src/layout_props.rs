//! C01 (declared addresses are the compiled offsets) and C02 (resolved
//! size/alignment equal the compiler's): shared workload, two oracles.
//!
//! Observed: offset_of!/size_of/align_of executed on the host (width 8) and the
//! nightly layout dump for {i686,x86_64}-pc-windows-msvc (widths 4 and 8).

use crate::drive::Stage;
use crate::gen_prog::{self, Cfg};
use crate::l2::{self, BuildOutcome, Built};
use crate::layoutdump;
use crate::probe::ProbeCrate;
use crate::refmodel::{attr_flag, attr_int};
use crate::refprog::Env;
use crate::render;
use crate::rng::{fnv, Rng};
use crate::verdict::Ctx;
use pyxis::grammar::*;
use rayon::prelude::*;
use serde_json::{json, Value};
use std::collections::BTreeMap;

#[derive(Debug, Clone, Default)]
pub struct Compiled {
    pub size: u64,
    pub align: u64,
    /// (field name, offset, size of field type)
    pub fields: Vec<(String, u64, u64)>,
    pub variants: Vec<(String, i128)>,
    pub default: Option<i128>,
}

#[derive(Default)]
pub struct CaseObs {
    /// instrument name ("host-x86_64-linux", "dump-i686-pc-windows-msvc", ...) -> item -> compiled
    pub by_instrument: BTreeMap<String, BTreeMap<String, Compiled>>,
    /// compile errors per instrument (C13 events)
    pub compile_errors: BTreeMap<String, Vec<String>>,
    pub tool_failures: Vec<String>,
}

pub fn case_json(mods: &[(ItemPath, Module)], ptrw: usize) -> Value {
    let mut m = serde_json::Map::new();
    for (p, md) in mods {
        m.insert(p.to_string(), json!(render::render_plain(md)));
    }
    json!({"ptrw": ptrw, "modules": Value::Object(m)})
}

pub fn mods_from_case(case: &Value) -> Result<(Vec<(ItemPath, Module)>, usize), String> {
    let ptrw = case["ptrw"].as_u64().unwrap_or(8) as usize;
    let mut mods = vec![];
    let Some(obj) = case["modules"].as_object() else { return Err("no modules".into()) };
    for (p, t) in obj {
        let text = t.as_str().unwrap_or("");
        let m = pyxis::parser::parse_str(text).map_err(|e| format!("{p}: {e}"))?;
        mods.push((ItemPath::from(p.as_str()), m));
    }
    Ok((mods, ptrw))
}

fn case_prefix_of(path_str: &str) -> Option<String> {
    // module files are named <module path with __>.rs; the case prefix is k<digits>_
    let file = path_str.rsplit('/').next()?;
    if !file.starts_with('k') {
        return None;
    }
    let digits: String = file[1..].chars().take_while(|c| c.is_ascii_digit()).collect();
    if digits.is_empty() {
        return None;
    }
    Some(format!("k{digits}_"))
}

/// Observe the layouts of a batch of built cases with every instrument that applies.
pub fn observe_batch(cases: &[&Built], strip_checks: bool) -> Vec<CaseObs> {
    let mut out: Vec<CaseObs> = cases.iter().map(|_| CaseObs::default()).collect();

    // host probe: width-8 cases only
    let host_idx: Vec<usize> = (0..cases.len()).filter(|i| cases[*i].ptrw == 8).collect();
    let mut active: Vec<usize> = host_idx.clone();
    for _attempt in 0..4 {
        if active.is_empty() {
            break;
        }
        let mut pc = ProbeCrate::new();
        let mut metas = vec![];
        for &i in &active {
            l2::add_case_files(&mut pc, cases[i], strip_checks);
            metas.extend(l2::add_layout_steps(&mut pc, cases[i], i));
        }
        match l2::compile_and_run_native(&pc, "lay") {
            Ok(run) => {
                if let Some(r) = &run.log.inconclusive {
                    for &i in &active {
                        out[i].tool_failures.push(format!("host probe: {r}"));
                    }
                }
                let obs = l2::collect_layouts(&run.log, &metas);
                for ((ci, item), o) in obs {
                    if !o.complete {
                        out[ci]
                            .tool_failures
                            .push(format!("host probe step for {item} incomplete: {:?}", o.panicked));
                        continue;
                    }
                    let c = Compiled {
                        size: o.size.unwrap_or(u64::MAX),
                        align: o.align.unwrap_or(u64::MAX),
                        fields: o
                            .fields
                            .iter()
                            .map(|(n, off, sz, aoff)| (n.clone(), if off == aoff { *off } else { u64::MAX - 1 }, *sz))
                            .collect(),
                        variants: o.variants.clone(),
                        default: o.default,
                    };
                    out[ci]
                        .by_instrument
                        .entry("host-x86_64-unknown-linux-gnu".into())
                        .or_default()
                        .insert(item, c);
                }
                break;
            }
            Err((stderr, _scratch)) => {
                // attribute errors to cases by file name, drop them, retry
                let mut culprits: BTreeMap<String, Vec<String>> = BTreeMap::new();
                for line in stderr.lines() {
                    if !line.contains("error") {
                        continue;
                    }
                    let file = line.split(':').next().unwrap_or("");
                    if let Some(pfx) = case_prefix_of(file) {
                        culprits.entry(pfx).or_default().push(crate::verdict::one_line(line, 300));
                    }
                }
                if culprits.is_empty() {
                    for &i in &active {
                        out[i]
                            .tool_failures
                            .push(format!("host compile failed, unattributed: {}", crate::verdict::one_line(&stderr, 300)));
                    }
                    break;
                }
                let before = active.len();
                active.retain(|&i| {
                    let pfx = &cases[i].id;
                    if let Some(errs) = culprits.get(pfx) {
                        out[i]
                            .compile_errors
                            .entry("host-x86_64-unknown-linux-gnu".into())
                            .or_default()
                            .extend(errs.iter().cloned());
                        false
                    } else {
                        true
                    }
                });
                if active.len() == before {
                    break;
                }
            }
        }
    }

    // layout dumps: per width, all cases of that width together; on errors fall back to per-case
    for ptrw in [4usize, 8] {
        let idxs: Vec<usize> = (0..cases.len()).filter(|i| cases[*i].ptrw == ptrw).collect();
        if idxs.is_empty() {
            continue;
        }
        let inst = format!("dump-{}", layoutdump::target_for(ptrw));
        let run = |sel: &[usize]| {
            let mut files = vec![];
            let mut externs = vec![];
            for &i in sel {
                for (mp, text) in &cases[i].texts {
                    // thiscall & co. exist only on 32-bit x86; the 64-bit dump is about layout only
                    let t = if ptrw == 8 { crate::probe::abi_normalise(text) } else { text.clone() };
                    files.push((mp.clone(), t));
                }
                externs.extend(l2::extern_list(&cases[i].mods));
            }
            let scratch = crate::probe::scratch("dump");
            layoutdump::dump(&files, &externs, ptrw, &scratch.path)
        };
        let whole = run(&idxs);
        let absorb = |out: &mut Vec<CaseObs>, sel: &[usize], res: &layoutdump::DumpResult| {
            for (item, o) in &res.layouts {
                // which case? by prefix of the first path segment
                let Some(&ci) = sel.iter().find(|&&i| item.starts_with(&cases[i].id)) else { continue };
                let module = crate::refprog::parent_of(item);
                let name = crate::refprog::last_of(item);
                let mut c = Compiled {
                    size: o.size,
                    align: o.align,
                    ..Default::default()
                };
                if let Some(ef) = cases[ci].efiles.get(module) {
                    if let Some(s) = ef.struct_(name) {
                        for (k, f) in s.fields.iter().enumerate() {
                            c.fields.push((
                                f.name.clone(),
                                o.offsets.get(k).copied().unwrap_or(u64::MAX),
                                o.field_sizes.get(k).copied().unwrap_or(u64::MAX),
                            ));
                        }
                    }
                }
                out[ci].by_instrument.entry(inst.clone()).or_default().insert(item.clone(), c);
            }
        };
        if whole.errors.is_empty() && whole.tool_failure.is_none() {
            absorb(&mut out, &idxs, &whole);
        } else {
            for &i in &idxs {
                let one = run(&[i]);
                if let Some(t) = &one.tool_failure {
                    out[i].tool_failures.push(format!("{inst}: {t}"));
                }
                if !one.errors.is_empty() {
                    out[i].compile_errors.entry(inst.clone()).or_default().extend(one.errors.iter().cloned());
                }
                absorb(&mut out, &[i], &one);
            }
        }
    }
    out
}

pub type Bad = (String, String);

fn gap_size(t: &Type, ptrw: usize) -> Option<u64> {
    crate::refmodel::type_sz(t, ptrw, &|_| None).map(|s| s.size as u64)
}

/// C01 oracle for one case.
pub fn judge_c01(b: &Built, obs: &CaseObs, bad: &mut Vec<Bad>, stats: &mut BTreeMap<String, u64>) {
    let env = Env::new(&b.mods, b.ptrw);
    for (inst, items) in &obs.by_instrument {
        for (mp, m) in &b.mods {
            let mps = mp.to_string();
            for d in &m.definitions {
                let ItemDefinitionInner::Type(td) = &d.inner else { continue };
                let path = format!("{mps}::{}", d.name);
                let Some(comp) = items.get(&path) else {
                    bad.push((
                        "C01/struct-not-observed".into(),
                        format!("{inst}: no compiled struct for `{path}`"),
                    ));
                    continue;
                };
                let find = |n: &str| comp.fields.iter().find(|f| f.0 == n);
                let mut cur: Option<u64> = Some(0);
                if env.gets_own_vftable_ptr(&path) {
                    match find("vftable") {
                        Some((_, off, sz)) => cur = Some(off + sz),
                        None => {
                            bad.push((
                                "C01/vftable-field-missing".into(),
                                format!("{inst}: `{path}` declares a vftable but the struct has no vftable field"),
                            ));
                            cur = None;
                        }
                    }
                }
                for st in &td.statements {
                    let TypeField::Field(_, fname, fty) = &st.field else { continue };
                    let declared = attr_int(&st.attributes, "address").map(|a| a as u64);
                    if fname.as_str() == "_" {
                        let start = declared.or(cur);
                        cur = match (start, gap_size(fty, b.ptrw)) {
                            (Some(s), Some(g)) => Some(s + g),
                            _ => None,
                        };
                        continue;
                    }
                    // zero-sized array fields are dropped by design; no property requires them to exist
                    let zero_len = matches!(fty, Type::Array(..))
                        && env.type_sz(&mps, fty).map(|s| s.size == 0).unwrap_or(false);
                    let Some((_, off, sz)) = find(fname.as_str()) else {
                        if !zero_len {
                            bad.push((
                                "C01/field-missing".into(),
                                format!("{inst}: field `{fname}` of `{path}` is not in the emitted struct"),
                            ));
                        }
                        // a dropped zero-length array occupies nothing
                        if let Some(a) = declared {
                            cur = Some(a);
                        }
                        continue;
                    };
                    if *off >= u64::MAX - 1 || *sz == u64::MAX {
                        bad.push((
                            "C01/offset-not-observable".into(),
                            format!("{inst}: `{path}.{fname}` offset_of and executed addr_of disagree or size unknown"),
                        ));
                        cur = None;
                        continue;
                    }
                    match declared {
                        Some(a) => {
                            *stats.entry(format!("{inst}/explicit_offsets_compared")).or_insert(0) += 1;
                            if *off != a {
                                bad.push((
                                    "C01/explicit-address".into(),
                                    format!("{inst}: `{path}.{fname}` declared at {a:#x} but compiled offset is {off:#x}"),
                                ));
                            }
                        }
                        None => {
                            if let Some(c) = cur {
                                *stats.entry(format!("{inst}/implicit_offsets_compared")).or_insert(0) += 1;
                                if *off != c {
                                    bad.push((
                                        "C01/implicit-placement".into(),
                                        format!("{inst}: `{path}.{fname}` has no address; previous field ends at {c:#x} but compiled offset is {off:#x}"),
                                    ));
                                }
                            }
                        }
                    }
                    cur = Some(off + sz);
                }
            }
        }
    }
}

/// C02 oracle for one case.
pub fn judge_c02(b: &Built, obs: &CaseObs, bad: &mut Vec<Bad>, stats: &mut BTreeMap<String, u64>) {
    let state_guard = b.ok.state.lock().unwrap();
    let reg = state_guard.type_registry();
    // declared attributes by item path
    let mut declared: BTreeMap<String, (Option<isize>, Option<isize>, bool)> = BTreeMap::new();
    for (mp, m) in &b.mods {
        for d in &m.definitions {
            if let ItemDefinitionInner::Type(td) = &d.inner {
                declared.insert(
                    format!("{mp}::{}", d.name),
                    (
                        attr_int(&td.attributes, "size"),
                        attr_int(&td.attributes, "align"),
                        attr_flag(&td.attributes, "packed"),
                    ),
                );
            }
        }
    }
    for (inst, items) in &obs.by_instrument {
        for (mp, ef) in &b.efiles {
            let names = ef.structs.iter().map(|s| s.name.clone()).chain(ef.enums.iter().map(|e| e.name.clone()));
            for name in names {
                let path = format!("{mp}::{name}");
                let Some(comp) = items.get(&path) else {
                    bad.push(("C02/item-not-observed".into(), format!("{inst}: no compiled layout for `{path}`")));
                    continue;
                };
                let item = reg.get(&ItemPath::from(path.as_str()));
                let (rs, ra) = match item {
                    Some(i) => (i.size().map(|x| x as u64), i.alignment().map(|x| x as u64)),
                    None => (None, None),
                };
                *stats.entry(format!("{inst}/items_compared")).or_insert(0) += 1;
                if rs != Some(comp.size) {
                    bad.push((
                        "C02/resolved-size".into(),
                        format!("{inst}: `{path}` resolved size {rs:?} but compiled size is {}", comp.size),
                    ));
                }
                if ra != Some(comp.align) {
                    bad.push((
                        "C02/resolved-alignment".into(),
                        format!("{inst}: `{path}` resolved alignment {ra:?} but compiled alignment is {}", comp.align),
                    ));
                }
                if let Some((ds, da, packed)) = declared.get(&path) {
                    if let Some(ds) = ds {
                        *stats.entry(format!("{inst}/declared_sizes_compared")).or_insert(0) += 1;
                        if *ds as u64 != comp.size {
                            bad.push((
                                "C02/declared-size".into(),
                                format!("{inst}: `{path}` declares #[size({ds})] but compiled size is {}", comp.size),
                            ));
                        }
                    }
                    if let Some(da) = da {
                        *stats.entry(format!("{inst}/declared_aligns_compared")).or_insert(0) += 1;
                        if *da as u64 != comp.align {
                            bad.push((
                                "C02/declared-align".into(),
                                format!("{inst}: `{path}` declares #[align({da})] but compiled alignment is {}", comp.align),
                            ));
                        }
                    }
                    if *packed && comp.align != 1 {
                        bad.push((
                            "C02/packed-align".into(),
                            format!("{inst}: `{path}` is packed but compiled alignment is {}", comp.align),
                        ));
                    }
                }
                // the emitted size check literal is pyxis' own claim of the size
                for f in &ef.fns {
                    if let crate::emitted::FnKind::SizeCheck { ty, size, array_len } = &f.kind {
                        if ty == &name {
                            *stats.entry(format!("{inst}/size_check_literals_compared")).or_insert(0) += 1;
                            if *size as u64 != comp.size || array_len != size {
                                bad.push((
                                    "C02/size-check-literal".into(),
                                    format!("{inst}: `{path}` size check uses {size:#x}/{array_len:#x} but compiled size is {:#x}", comp.size),
                                ));
                            }
                        }
                    }
                }
            }
        }
    }
}

fn nontrivial_c01(b: &Built) -> bool {
    b.mods.iter().any(|(_, m)| {
        m.definitions.iter().any(|d| {
            if let ItemDefinitionInner::Type(td) = &d.inner {
                let named = td
                    .statements
                    .iter()
                    .filter(|s| matches!(&s.field, TypeField::Field(_, n, _) if n.as_str() != "_"))
                    .count();
                let placed = td.statements.iter().any(|s| {
                    attr_int(&s.attributes, "address").is_some()
                        || matches!(&s.field, TypeField::Field(_, n, _) if n.as_str() == "_")
                });
                named >= 2 && placed
            } else {
                false
            }
        })
    })
}

fn nontrivial_c02(b: &Built) -> bool {
    let items: usize = b.efiles.values().map(|f| f.structs.len() + f.enums.len()).sum();
    let env = Env::new(&b.mods, b.ptrw);
    let embeds = b.mods.iter().any(|(mp, m)| {
        m.definitions.iter().any(|d| {
            if let ItemDefinitionInner::Type(td) = &d.inner {
                td.statements.iter().any(|s| {
                    if let TypeField::Field(_, _, t) = &s.field {
                        let mut inner = t;
                        while let Type::Array(i, _) = inner {
                            inner = i;
                        }
                        if let Type::Ident(id) = inner {
                            return matches!(env.bind(&mp.to_string(), id.as_str()), Some(crate::refprog::Bound::Item(_)));
                        }
                    }
                    false
                })
            } else {
                false
            }
        })
    });
    items >= 2 && embeds
}

pub fn structural_hash(mods: &[(ItemPath, Module)], id: &str) -> u64 {
    // case prefix removed so that the same shape under two ids counts once
    let mut s = String::new();
    for (p, m) in mods {
        s.push_str(&p.to_string().replace(id, "K_"));
        s.push_str(&format!("{m:?}").replace(id, "K_"));
    }
    fnv(s.as_bytes())
}

pub struct RunCfg {
    pub n_cases: usize,
    pub batch: usize,
}

/// Exhaustive small space for C01: all types with <= 3 fields over a 6-type
/// alphabet x address set that pyxis accepts (at the given width).
pub fn exhaustive_small(ptrw: usize, stride: usize, offset: usize) -> Vec<(Vec<(ItemPath, Module)>, usize)> {
    use pyxis::grammar::{Attribute, Attributes, TypeDefinition};
    let tys = [
        Type::ident("u8"),
        Type::ident("u16"),
        Type::ident("u32"),
        Type::ident("u64"),
        Type::ident("u8").const_pointer(),
        Type::ident("u16").array(3),
    ];
    let addrs: [Option<usize>; 9] = [None, Some(0), Some(1), Some(2), Some(4), Some(8), Some(12), Some(16), Some(24)];
    let mut out = vec![];
    let mut k = 0usize;
    for nf in 1..=3usize {
        let per = tys.len() * addrs.len();
        let total = per.pow(nf as u32);
        for idx in 0..total {
            let mut i = idx;
            let mut fields = vec![];
            for _ in 0..nf {
                let c = i % per;
                i /= per;
                fields.push((addrs[c % addrs.len()], tys[c / addrs.len()].clone()));
            }
            // quick realisability pre-filter with the reference model using align 8/size padding
            let mut statements = vec![];
            for (j, (a, t)) in fields.iter().enumerate() {
                statements.push(crate::refmodel::field(&format!("f{j}"), t.clone(), *a, true));
            }
            let mut td = TypeDefinition { statements, attributes: Attributes(vec![]) };
            // choose align = max field align and pad size up via #[size]
            let probe = crate::refmodel::layout_type(
                &TypeDefinition { statements: td.statements.clone(), attributes: Attributes(vec![Attribute::packed()]) },
                ptrw,
                false,
                &|_| None,
            );
            let Ok(pl) = probe else { continue };
            let max_align = fields
                .iter()
                .map(|(_, t)| crate::refmodel::type_sz(t, ptrw, &|_| None).unwrap().align)
                .max()
                .unwrap_or(1);
            let size = (pl.size + max_align - 1) / max_align * max_align;
            td.attributes = Attributes(vec![Attribute::align(max_align), Attribute::size(size)]);
            if crate::refmodel::layout_type(&td, ptrw, false, &|_| None).is_err() {
                continue;
            }
            k += 1;
            if (k + offset) % stride != 0 {
                continue;
            }
            let id = format!("k{}_", out.len());
            let m = crate::refmodel::single_type_module("T", td, true);
            out.push((vec![(ItemPath::from(format!("{id}x").as_str()), m)], ptrw));
        }
    }
    out
}

/// Types whose fields want more alignment than a pointer, declared without (or with too small
/// an) `align`, and embedded at offsets that are pointer-aligned only. A realisable layout does
/// not exist for most of them; whatever is accepted is judged like any other accepted build.
pub fn under_aligned_cases(first: usize) -> Vec<(String, Vec<(ItemPath, Module)>, usize)> {
    let mut out = vec![];
    for ptrw in [4usize, 8] {
        let wides: &[(&str, usize)] = if ptrw == 8 { &[("u128", 16), ("i128", 16)] } else { &[("u64", 8), ("i64", 8), ("f64", 8), ("u128", 16)] };
        let word = if ptrw == 8 { "u64" } else { "u32" };
        for (wide, wsz) in wides {
            for inner_shape in 0..8usize {
                for inner_align in [None, Some(ptrw), Some(*wsz)] {
                    for outer_shape in 0..5usize {
                        for outer_align in [None, Some(*wsz)] {
                            let id = format!("k{}_", first + out.len());
                            let mut m = Module::new();
                            let mut defs = vec![];
                            // Inner: two regions, one of them wide
                            let inner_fields = match inner_shape {
                                0 => vec![crate::refmodel::field("a", Type::ident(wide), None, true), crate::refmodel::field("b", Type::ident(wide), None, true)],
                                1 => vec![crate::refmodel::field("a", Type::ident(wide), None, true), crate::refmodel::field("p", Type::ident("u8").const_pointer().array(wsz / ptrw), None, true)],
                                2 => {
                                    defs.push(ItemDefinition::new((Visibility::Public, "W"), EnumDefinition::new(Type::ident(if *wide == "f64" { "u64" } else { wide }), [EnumStatement::field("A")], [Attribute::copyable()])));
                                    vec![crate::refmodel::field("e", Type::ident("W"), None, true), crate::refmodel::field("f", Type::ident("W"), Some(*wsz), true)]
                                }
                                3 => vec![crate::refmodel::field("arr", Type::ident(wide).array(2), None, true), crate::refmodel::field("_", Type::Unknown(*wsz), None, false)],
                                // zero-sized, but as aligned as its declaration says / as its only field
                                4 => vec![],
                                5 => vec![crate::refmodel::field("none", Type::ident(wide).array(0), None, true)],
                                // a declared size that suits the fields but not the type's alignment
                                _ => vec![crate::refmodel::field("a", Type::ident("u32"), None, true), crate::refmodel::field("b", Type::ident("u32"), None, true), crate::refmodel::field("c", Type::ident("u32"), None, true)],
                            };
                            let mut inner = TypeDefinition::new(inner_fields);
                            let mut inner_attrs = vec![];
                            if let Some(a) = inner_align {
                                inner_attrs.push(Attribute::align(a));
                            }
                            if inner_shape >= 6 {
                                inner_attrs.push(Attribute::size(if inner_shape == 6 { 12 } else { 20 }));
                            }
                            if !inner_attrs.is_empty() {
                                inner = inner.with_attributes(Attributes(inner_attrs));
                            }
                            defs.push(ItemDefinition::new((Visibility::Public, "Inner"), inner));
                            let outer_fields = match outer_shape {
                                0 => vec![crate::refmodel::field("x", Type::ident(word), None, true), crate::refmodel::field("inner", Type::ident("Inner"), None, true), crate::refmodel::field("y", Type::ident(word), None, true)],
                                1 => vec![crate::refmodel::field("x", Type::ident(word), None, true), crate::refmodel::field("inner", Type::ident("Inner"), Some(ptrw), true), crate::refmodel::field("y", Type::ident(word), Some(ptrw + 2 * wsz), true)],
                                2 => vec![crate::refmodel::field("x", Type::ident(word), None, true), crate::refmodel::field("inners", Type::ident("Inner").array(2), None, true), crate::refmodel::field("y", Type::ident(word), None, true)],
                                3 => {
                                    let mut b = crate::refmodel::field("base", Type::ident("Inner"), None, true);
                                    b.attributes.0.push(Attribute::base());
                                    vec![crate::refmodel::field("x", Type::ident(word), None, true), b, crate::refmodel::field("y", Type::ident(word), None, true)]
                                }
                                _ => vec![crate::refmodel::field("x", Type::ident(word).array(3), None, true), crate::refmodel::field("inner", Type::ident("Inner"), Some(3 * ptrw), true), crate::refmodel::field("y", Type::ident(word).array(1), None, true)],
                            };
                            let mut outer = TypeDefinition::new(outer_fields);
                            if let Some(a) = outer_align {
                                outer = outer.with_attributes([Attribute::align(a)]);
                            }
                            defs.push(ItemDefinition::new((Visibility::Public, "Outer"), outer));
                            m = m.with_definitions(defs);
                            out.push((id.clone(), vec![(ItemPath::from(format!("{id}ua").as_str()), m)], ptrw));
                        }
                    }
                }
            }
        }
    }
    out
}

pub fn run(ctx: &mut Ctx, which: &str) {
    let quick = ctx.tier == crate::verdict::Tier::Quick;
    ctx.rule = if which == "C01" {
        "random accepted multi-module programs (0-8 fields per type mixing explicit addresses, implicit placement, unknown<N> gaps, pointers, arrays incl. nested and of user types, nested/extern/enum-typed fields, own vftable pointer, 0-3 base sub-objects, packed, align) generated per pointer width, plus the exhaustive space of all <=3-field types over {u8,u16,u32,u64,*const u8,[u16;3]} x address {-,0,1,2,4,8,12,16,24} that are realisable (strided in quick); every named field's compiled offset (offset_of! and an executed addr_of on the host at width 8; nightly layout dump for i686/x86_64-pc-windows-msvc at widths 4/8) is compared with the declared address or with the compiled end of the previous field. non-trivial = accepted case with a type having >=2 named fields and >=1 explicit address or gap; distinct by structural hash with the case prefix removed".into()
    } else {
        "same workload as C01 (multi-module programs with by-value embedding, arrays of types, enums over every integer base, extern types, empty types, vftable structs with placeholder slots); for every emitted struct/enum/vftable struct the resolved (size, alignment) in the registry, the declared #[size]/#[align]/#[packed] and the literal in the emitted size check are compared with size_of/align_of as compiled on the host (width 8) and by the nightly layout dump for *-pc-windows-msvc (widths 4/8). non-trivial = accepted case with >=2 emitted items and >=1 by-value embedding of a user item; distinct by structural hash".into()
    };
    ctx.assumptions.push("rustc's layout computation (host and windows-msvc dump) is the ground truth; the msvc dump equals what MSVC-built targets use for repr(C)".into());

    let n_cases: usize = ctx.tier.pick(700, 12_000);
    let batch = 32usize;
    let seed = ctx.seed;

    // generate + build in parallel
    let mut inputs: Vec<(String, Vec<(ItemPath, Module)>, usize)> = (0..n_cases)
        .into_par_iter()
        .map(|i| {
            let mut rng = Rng::derive(seed, 0x0100_0000 + i as u64);
            let ptrw = if i % 2 == 0 { 8 } else { 4 };
            let id = format!("k{i}_");
            let mut cfg = Cfg::rich(ptrw, &id);
            cfg.backends = false;
            let g = gen_prog::generate(&mut rng, &cfg);
            (id, g.mods, ptrw)
        })
        .collect();
    // hostile share: valid programs with 1-3 small edits that usually make them unrealisable;
    // whatever pyxis still accepts is judged like any other accepted build
    let n_hostile = n_cases;
    let hostile: Vec<(String, Vec<(ItemPath, Module)>, usize, Vec<&'static str>)> = (0..n_hostile)
        .into_par_iter()
        .map(|i| {
            let mut rng = Rng::derive(seed, 0x0180_0000 + i as u64);
            let ptrw = if i % 2 == 0 { 8 } else { 4 };
            let id = format!("k{}_", n_cases + i);
            let mut cfg = Cfg::rich(ptrw, &id);
            cfg.max_modules = 2;
            cfg.max_types = 3;
            cfg.impls = false;
            cfg.docs = false;
            let mut g = gen_prog::generate(&mut rng, &cfg);
            let edits = crate::hostile::perturb(&mut g.mods, &mut rng);
            (id, g.mods, ptrw, edits)
        })
        .collect();
    let first_hostile = inputs.len();
    for (id, mods, ptrw, _) in hostile {
        inputs.push((id, mods, ptrw));
    }
    // hierarchies in which a later base, not the first, has a vftable (own pointer at offset 0
    // or none at all: every implicit field's offset depends on getting that right)
    let lb = crate::gen_special::c06_later_base_shapes(inputs.len());
    ctx.count("later_base_vftable_cases", lb.len() as u64);
    inputs.extend(lb);
    // items named like predefined types next to uses of the predefined types themselves
    let sp = crate::gen_special::shadow_programs(inputs.len());
    ctx.count("shadowed_predefined_name_cases", sp.len() as u64);
    inputs.extend(sp);
    let ua = under_aligned_cases(inputs.len());
    ctx.count("under_aligned_embedding_cases", ua.len() as u64);
    inputs.extend(ua);
    let last_hostile = inputs.len();
    // exhaustive small space
    let stride = if quick { 23 } else { 1 };
    let mut ex_total = 0usize;
    for ptrw in [4usize, 8] {
        let ex = exhaustive_small(ptrw, stride, (seed as usize) % stride);
        ex_total += ex.len();
        for (mods, ptrw) in ex.into_iter() {
            let id = format!("k{}_", inputs.len());
            let mods = mods.into_iter().map(|(_, m)| (ItemPath::from(format!("{id}x").as_str()), m)).collect();
            inputs.push((id, mods, ptrw));
        }
    }
    ctx.count("exhaustive_small_cases", ex_total as u64);
    ctx.extra.insert("exhaustive_small".into(), json!({"stride": stride, "complete": stride == 1, "cases": ex_total}));

    // an attribute that says where a field is (C01) or how large/aligned a type is (C02) in a
    // shape pyxis does not read — a string, two arguments, none, an assignment — must not be
    // skipped silently: the description would be accepted with the field or size elsewhere
    {
        let shapes = |name: &str, v: usize| -> Vec<String> { vec![format!("{name}(\"{v}\")"), format!("{name}({v}, 1)"), format!("{name}()"), format!("{name} = {v}"), format!("{name}(x{v})")] };
        let mut texts: Vec<(String, String)> = vec![];
        if which == "C01" {
            for sh in shapes("address", 8) {
                texts.push(("field-address".into(), format!("#[align(4)] pub type T {{ pub a: u32, #[{sh}] pub b: u32, }}")));
                texts.push(("base-address".into(), format!("#[align(4)] pub type B {{ pub x: u32, }}\n#[align(4)] pub type T {{ pub a: u32, #[base, {sh}] pub b: B, }}")));
            }
        } else {
            for sh in shapes("size", 16) {
                texts.push(("type-size".into(), format!("#[{sh}, align(4)] pub type T {{ pub a: u32, }}")));
                texts.push(("extern-size".into(), format!("#[{sh}, align(4)] extern type X;\npub type T {{ pub x: X, }}")));
            }
            // layout attributes on an enum: its size and alignment are those of its base type
            for attr in ["size(8)", "align(16)", "packed", "size(4), align(4)"] {
                texts.push(("enum-layout-attribute".into(), format!("#[{attr}] pub enum E: u32 {{ A, B, }}\n#[align(16)] pub type T {{ pub e: E, pub pad: [u8; 12], }}")));
            }
            for sh in shapes("align", 16) {
                texts.push(("type-align".into(), format!("#[{sh}] pub type T {{ pub a: u32, pub b: u32, pub c: u64, }}")));
                texts.push(("extern-align".into(), format!("#[size(4), {sh}] extern type X;\npub type T {{ pub x: X, }}")));
            }
        }
        for (kind, text) in texts {
            ctx.eval();
            let Ok(m) = pyxis::parser::parse_str(&text) else {
                ctx.count("malformed_attribute_shapes_rejected_by_the_parser", 1);
                continue;
            };
            let mods = vec![(ItemPath::from("km_attr"), m)];
            ctx.nontrivial(crate::rng::fnv(text.as_bytes()));
            match crate::drive::build_modules(&mods, 8, crate::drive::Opts::default()).result {
                Ok(_) => ctx.violation(&format!("{which}/malformed-attribute-ignored/{kind}"), &format!("accepted, the attribute was skipped: {text}"), case_json(&mods, 8)),
                Err(e) if e.stage == Stage::Panic => ctx.violation(&format!("{which}/panic"), &e.msg, case_json(&mods, 8)),
                Err(_) => ctx.count("malformed_attribute_shapes_rejected", 1),
            }
        }
    }
    // declared sizes and alignments of types WITHOUT a body (`type X;`, the opaque form), fed to
    // pyxis as text: what the registry holds must be what was declared (C02); a field after such
    // a type sits where the declared size puts it (C01)
    for (size, align) in [(0x20usize, 16usize), (8, 8), (24, 4), (3, 1), (0, 32), (64, 64)] {
        for ptrw in [4usize, 8] {
            ctx.eval();
            let text = format!(
                "#[size({size}), align({align})] pub type Opaque;\n#[align({a})] pub type Holder {{ pub head: Opaque, pub pair: [Opaque; 2], #[address({end})] pub tail: u32, _: unknown<{pad}>, }}\n",
                a = align.max(4),
                end = 3 * size,
                pad = (align.max(4) - (3 * size + 4) % align.max(4)) % align.max(4)
            );
            let out = crate::drive::build_texts(&[("kq_opaque.pyxis".to_string(), text.clone())], ptrw, crate::drive::Opts::default());
            ctx.nontrivial(crate::rng::fnv(format!("opaque{size}{align}{ptrw}").as_bytes()));
            let case = json!({"ptrw": ptrw, "modules": {"kq_opaque": text}});
            match out.result {
                Err(e) if e.stage == Stage::Panic => ctx.violation(&format!("{which}/panic"), &e.msg, case),
                Err(_) => ctx.count("opaque_type_cases_rejected", 1),
                Ok(ok) => {
                    ctx.count("opaque_type_cases_accepted", 1);
                    let state_guard = ok.state.lock().unwrap();
                    let reg = state_guard.type_registry();
                    let got = reg.get(&ItemPath::from("kq_opaque::Opaque")).map(|i| (i.size(), i.alignment()));
                    let holder = reg.get(&ItemPath::from("kq_opaque::Holder")).and_then(|i| i.size());
                    let want_holder = 3 * size + 4 + (align.max(4) - (3 * size + 4) % align.max(4)) % align.max(4);
                    if which == "C02" && got != Some((Some(size), Some(align))) {
                        ctx.violation("C02/declared-attributes-of-a-bodyless-type", &format!("`#[size({size}), align({align})] type Opaque;` resolved to {got:?}"), case);
                    } else if which == "C01" && holder != Some(want_holder) {
                        ctx.violation("C01/field-after-a-bodyless-type", &format!("Holder (three Opaque of {size} bytes, then `tail` at {:#x}) resolved to size {holder:?}, expected {want_holder}", 3 * size), case);
                    }
                }
            }
        }
    }
    let built: Vec<(usize, BuildOutcome)> = inputs
        .par_iter()
        .enumerate()
        .map(|(i, (id, mods, ptrw))| (i, l2::build_mods(id, mods, *ptrw)))
        .collect();
    let mut accepted: Vec<Built> = vec![];
    for (i, o) in built {
        ctx.eval();
        match o {
            BuildOutcome::Built(b) => {
                if i >= first_hostile && i < last_hostile {
                    ctx.count("hostile_variants_accepted", 1);
                }
                accepted.push(b)
            }
            BuildOutcome::Rejected(e) => {
                if i >= first_hostile && i < last_hostile {
                    ctx.count("hostile_variants_rejected", 1);
                } else {
                    ctx.count("rejected_by_pyxis", 1);
                }
                if e.stage == Stage::Panic {
                    ctx.count("pyxis_panicked", 1);
                }
                if ctx.counter("rejected_samples") < 3 {
                    ctx.count("rejected_samples", 1);
                    let first = crate::verdict::one_line(&e.msg, 160);
                    ctx.extra.insert(format!("rejected_example_{}", i), json!(first));
                }
            }
            BuildOutcome::Unparsable { module, error, .. } => {
                ctx.count("emitted_unparsable", 1);
                let (_, mods, ptrw) = &inputs[i];
                if which == "C01" || which == "C02" {
                    // a C13 matter; recorded, makes the case inconclusive here
                    let _ = (module, error, mods, ptrw);
                }
            }
        }
    }
    ctx.count("accepted", accepted.len() as u64);

    // observe in batches
    let chunks: Vec<&[Built]> = accepted.chunks(batch).collect();
    let observed: Vec<Vec<CaseObs>> = chunks
        .par_iter()
        .map(|chunk| {
            let refs: Vec<&Built> = chunk.iter().collect();
            observe_batch(&refs, true)
        })
        .collect();

    let mut stats: BTreeMap<String, u64> = BTreeMap::new();
    let mut sampled = 0;
    for (chunk, obs) in chunks.iter().zip(observed.iter()) {
        for (b, o) in chunk.iter().zip(obs.iter()) {
            let mut bad: Vec<Bad> = vec![];
            for t in &o.tool_failures {
                ctx.count("tool_failures", 1);
                if ctx.counter("tool_failures") <= 3 {
                    eprintln!("tool failure: {t}");
                }
            }
            for (inst, errs) in &o.compile_errors {
                ctx.count(&format!("compile_errors/{inst}"), errs.len() as u64);
                for e in errs {
                    let code = e.split("error[").nth(1).and_then(|x| x.split(']').next()).map(|x| x.to_string())
                        .unwrap_or_else(|| e.split_whitespace().next().unwrap_or("").to_string());
                    let key = format!("compile_error_kind/{inst}/{code}");
                    if ctx.counter(&key) == 0 {
                        eprintln!("first {key}: case {} {}", b.id, crate::verdict::one_line(e, 400));
                    }
                    ctx.count(&key, 1);
                }
                if ctx.counter("compile_error_examples") < 3 {
                    ctx.count("compile_error_examples", 1);
                    eprintln!("compile error ({inst}) in case {}: {}", b.id, errs.first().cloned().unwrap_or_default());
                }
            }
            if o.by_instrument.is_empty() {
                ctx.count("cases_without_observation", 1);
                continue;
            }
            ctx.count("cases_observed", 1);
            for inst in o.by_instrument.keys() {
                ctx.count(&format!("cases_observed/{inst}"), 1);
            }
            if which == "C01" {
                judge_c01(b, o, &mut bad, &mut stats);
                if nontrivial_c01(b) {
                    ctx.nontrivial(structural_hash(&b.mods, &b.id));
                }
            } else {
                judge_c02(b, o, &mut bad, &mut stats);
                if nontrivial_c02(b) {
                    ctx.nontrivial(structural_hash(&b.mods, &b.id));
                }
            }
            if sampled < 2 && b.mods.len() >= 1 && bad.is_empty() {
                sampled += 1;
                ctx.sample(json!({"case": case_json(&b.mods, b.ptrw), "instruments": o.by_instrument.keys().collect::<Vec<_>>()}));
            }
            let mut seen = std::collections::BTreeSet::new();
            for (sig, detail) in bad {
                if seen.insert(sig.clone()) {
                    ctx.violation(&sig, &detail, case_json(&b.mods, b.ptrw));
                }
            }
        }
    }
    for (k, v) in stats {
        ctx.count(&k, v);
    }
    let floor = ctx.tier.pick(if which == "C01" { 150 } else { 100 }, 1500);
    if ctx.distinct_count() < floor {
        ctx.inconclusive(format!("only {} distinct non-trivial cases (< {floor})", ctx.distinct_count()));
    }
    let observed_cases = ctx.counter("cases_observed");
    if observed_cases * 10 < ctx.counter("accepted") * 9 {
        ctx.inconclusive(format!(
            "only {observed_cases} of {} accepted cases could be observed",
            ctx.counter("accepted")
        ));
    }
}

pub fn replay(ctx: &mut Ctx, which: &str, case: &Value) {
    let (mods, ptrw) = match mods_from_case(case) {
        Ok(x) => x,
        Err(e) => {
            eprintln!("replay: {e}");
            ctx.inconclusive("replay case does not parse");
            return;
        }
    };
    // recover the case id from the first module path
    let first = mods.first().map(|m| m.0.to_string()).unwrap_or_default();
    let id = case_prefix_of(&first).unwrap_or_else(|| "k0_".into());
    ctx.eval();
    match l2::build_mods(&id, &mods, ptrw) {
        BuildOutcome::Built(b) => {
            let obs = observe_batch(&[&b], true);
            let mut bad = vec![];
            let mut stats = BTreeMap::new();
            if which == "C01" {
                judge_c01(&b, &obs[0], &mut bad, &mut stats);
            } else {
                judge_c02(&b, &obs[0], &mut bad, &mut stats);
            }
            for (sig, detail) in bad {
                ctx.violation(&sig, &detail, case.clone());
            }
        }
        BuildOutcome::Rejected(e) => println!("replay: rejected by pyxis: {}", e.msg),
        BuildOutcome::Unparsable { error, .. } => println!("replay: emitted file unparsable: {error}"),
    }
}
