//! Layout observation for `*-pc-windows-msvc` at pointer widths 4 and 8:
//! the struct/enum definitions of emitted files are compiled by the nightly
//! compiler as a `#![no_core]` crate and `#[rustc_dump_layout(debug)]` prints
//! size, alignment and field offsets as computed by rustc for that target.

use crate::probe::{run_tool, ToolResult};
use quote::ToTokens;
use serde_json::Value;
use std::collections::BTreeMap;
use std::path::Path;
use std::process::Command;
use std::time::Duration;

#[derive(Debug, Clone)]
pub struct Observed {
    pub size: u64,
    pub align: u64,
    /// field offsets in declaration order (structs only)
    pub offsets: Vec<u64>,
    /// size of each field's type in declaration order (structs only; u64::MAX if unknown)
    pub field_sizes: Vec<u64>,
}

#[derive(Debug, Default)]
pub struct DumpResult {
    /// "module::path::Item" -> layout
    pub layouts: BTreeMap<String, Observed>,
    /// compiler errors other than the layout dumps
    pub errors: Vec<String>,
    /// "<module>::<Enum>::<Variant>=<value as written>" whose compiled value differs
    pub discriminant_mismatches: Vec<String>,
    pub tool_failure: Option<String>,
}

const PRELUDE: &str = r#"#![feature(no_core, lang_items, rustc_attrs, abi_vectorcall, auto_traits)]
#![no_core]
#![allow(dead_code, non_camel_case_types, non_snake_case, improper_ctypes_definitions, internal_features, unused)]
#[lang = "pointee_sized"] pub trait PointeeSized {}
#[lang = "meta_sized"] pub trait MetaSized: PointeeSized {}
#[lang = "sized"] pub trait Sized: MetaSized {}
#[lang = "copy"] pub trait Copy {}
#[lang = "freeze"] unsafe auto trait Freeze {}
impl Copy for u8 {} impl Copy for u16 {} impl Copy for u32 {} impl Copy for u64 {} impl Copy for u128 {}
impl Copy for i8 {} impl Copy for i16 {} impl Copy for i32 {} impl Copy for i64 {} impl Copy for i128 {}
impl Copy for f32 {} impl Copy for f64 {} impl Copy for bool {} impl Copy for usize {} impl Copy for isize {}
impl<T: PointeeSized> Copy for *const T {} impl<T: PointeeSized> Copy for *mut T {}
#[lang = "neg"] pub trait Neg { type Output; fn neg(self) -> Self::Output; }
impl Neg for isize { type Output = isize; fn neg(self) -> isize { -self } }
impl Neg for i8 { type Output = i8; fn neg(self) -> i8 { -self } }
impl Neg for i16 { type Output = i16; fn neg(self) -> i16 { -self } }
impl Neg for i32 { type Output = i32; fn neg(self) -> i32 { -self } }
impl Neg for i64 { type Output = i64; fn neg(self) -> i64 { -self } }
impl Neg for i128 { type Output = i128; fn neg(self) -> i128 { -self } }
#[repr(u8)] pub enum __c_void { __A = 0, __B = 1 }
pub mod __prim {
    pub type p_u8 = u8; pub type p_u16 = u16; pub type p_u32 = u32; pub type p_u64 = u64; pub type p_u128 = u128;
    pub type p_i8 = i8; pub type p_i16 = i16; pub type p_i32 = i32; pub type p_i64 = i64; pub type p_i128 = i128;
    pub type p_f32 = f32; pub type p_f64 = f64; pub type p_bool = bool;
}
"#;

/// `::core::primitive::u32` (written by pyxis where a module's own item shadows the name) has
/// no meaning without core: the crate-level aliases stand in for it.
fn without_core_paths(s: &str) -> String {
    s.replace(":: core :: primitive :: ", "crate::__prim::p_").replace("::core::primitive::", "crate::__prim::p_")
}

#[derive(Default)]
struct ModNode {
    items: Vec<String>,
    children: BTreeMap<String, ModNode>,
}

fn insert<'a>(root: &'a mut ModNode, path: &str) -> &'a mut ModNode {
    let mut cur = root;
    for seg in path.split("::").filter(|s| !s.is_empty()) {
        cur = cur.children.entry(seg.to_string()).or_default();
    }
    cur
}

fn render(node: &ModNode, out: &mut String) {
    for it in &node.items {
        out.push_str(it);
        out.push('\n');
    }
    for (name, child) in &node.children {
        out.push_str(&format!("pub mod {name} {{\n"));
        render(child, out);
        out.push_str("}\n");
    }
}

fn strip_attrs(attrs: &mut Vec<syn::Attribute>) {
    attrs.retain(|a| a.path().is_ident("repr"));
}

/// Extra definitions (extern types) per module: (module path, name, size, align)
pub type ExternDef = (String, String, usize, usize);

/// Build the no_core crate text. Returns (text, line number -> item path or "ty:<type tokens>",
/// item path -> field type token strings).
#[allow(clippy::type_complexity)]
pub fn build_crate(files: &[(String, String)], externs: &[ExternDef]) -> Result<(String, BTreeMap<usize, String>, BTreeMap<String, Vec<String>>), String> {
    let mut root = ModNode::default();
    let mut aliases: Vec<(String, String)> = vec![]; // (module path, item name)
    let mut field_types: BTreeMap<String, Vec<String>> = BTreeMap::new();
    let mut type_set: Vec<String> = vec![];
    let mut discr: Vec<(String, String, String, String, i128)> = vec![];
    for (mpath, text) in files {
        let file = syn::parse_file(text).map_err(|e| format!("{mpath}: {e}"))?;
        let node = insert(&mut root, mpath);
        for item in file.items {
            match item {
                syn::Item::Struct(mut s) => {
                    strip_attrs(&mut s.attrs);
                    s.vis = syn::parse_quote!(pub);
                    for f in s.fields.iter_mut() {
                        f.attrs.clear();
                        f.vis = syn::parse_quote!(pub);
                    }
                    let name = s.ident.to_string();
                    let mut ftys = vec![];
                    for f in s.fields.iter() {
                        let t = f.ty.to_token_stream().to_string()
                            .replace(":: std :: ffi :: c_void", "crate::__c_void")
                            .replace("::std::ffi::c_void", "crate::__c_void");
                        if !type_set.contains(&t) {
                            type_set.push(t.clone());
                        }
                        ftys.push(t);
                    }
                    field_types.insert(format!("{mpath}::{name}"), ftys.iter().map(|t| without_core_paths(t)).collect());
                    for t in type_set.iter_mut() {
                        *t = without_core_paths(t);
                    }
                    node.items.push(without_core_paths(&s.to_token_stream().to_string()));
                    aliases.push((mpath.clone(), name));
                }
                syn::Item::Enum(mut e) => {
                    strip_attrs(&mut e.attrs);
                    e.vis = syn::parse_quote!(pub);
                    for v in e.variants.iter_mut() {
                        v.attrs.clear();
                    }
                    let name = e.ident.to_string();
                    // the integer type of the enum and the value each variant is written with
                    let mut base = None;
                    for a in &e.attrs {
                        if a.path().is_ident("repr") {
                            let _ = a.parse_nested_meta(|m| {
                                if let Some(i) = m.path.get_ident() {
                                    let i = i.to_string();
                                    if crate::c08::int_range(&i).is_some() {
                                        base = Some(i);
                                    }
                                }
                                Ok(())
                            });
                        }
                    }
                    if let Some(base) = base {
                        for v in &e.variants {
                            if let Some((_, d)) = &v.discriminant {
                                if let (Some(val), Some((lo, hi))) = (crate::emitted::int_of(d), crate::c08::int_range(&base)) {
                                    if val >= lo && val <= hi {
                                        discr.push((mpath.clone(), name.clone(), v.ident.to_string(), base.clone(), val));
                                    }
                                }
                            }
                        }
                    }
                    node.items.push(e.to_token_stream().to_string());
                    aliases.push((mpath.clone(), name));
                }
                _ => {}
            }
        }
    }
    for (mpath, name, size, align) in externs {
        let node = insert(&mut root, mpath);
        match crate::l2::elem_for_align((*align).max(1) as i64) {
            Some((elem, a)) if (*size as i64) % a == 0 => node.items.push(format!(
                "#[repr(C)] pub struct {name} {{ pub __elems: [crate::__prim::p_{elem}; {}] }}",
                *size as i64 / a
            )),
            _ => node.items.push(format!(
                "#[repr(C, align({}))] pub struct {name} {{ pub __bytes: [crate::__prim::p_u8; {size}] }}",
                (*align).max(1)
            )),
        }
    }
    let mut text = String::from(PRELUDE);
    let mut body = String::new();
    render(&root, &mut body);
    // `::std::ffi::c_void` has no meaning without std
    let body = body
        .replace(":: std :: ffi :: c_void", "crate::__c_void")
        .replace("::std::ffi::c_void", "crate::__c_void");
    text.push_str(&body);
    let mut lines: BTreeMap<usize, String> = BTreeMap::new();
    let mut line = text.lines().count() + 1;
    for (i, (mpath, name)) in aliases.iter().enumerate() {
        text.push_str(&format!(
            "#[rustc_dump_layout(debug)] type __L{i} = crate::{mpath}::{name};\n"
        ));
        lines.insert(line, format!("{mpath}::{name}"));
        line += 1;
    }
    for (i, t) in type_set.iter().enumerate() {
        text.push_str(&format!("#[rustc_dump_layout(debug)] type __F{i} = {t};\n"));
        lines.insert(line, format!("ty:{t}"));
        line += 1;
    }
    // the value each variant has AS COMPILED for the target must be the one it was written
    // with: an array length that depends on it turns a difference into a type error
    for (mpath, name, variant, base, val) in &discr {
        let lit = if *val < 0 { format!("-{}{base}", val.unsigned_abs()) } else { format!("{val}{base}") };
        text.push_str(&format!(
            "const _: [u8; 1] = [0u8; match crate::{mpath}::{name}::{variant} as {base} {{ {lit} => 1, _ => 2 }}];\n"
        ));
        lines.insert(line, format!("discr:{mpath}::{name}::{variant}={val}"));
        line += 1;
    }
    Ok((text, lines, field_types))
}

fn parse_size(s: &str, key: &str) -> Option<u64> {
    // first occurrence of `<key>(N bytes)`
    let i = s.find(key)?;
    let rest = &s[i + key.len()..];
    let j = rest.find(" bytes")?;
    rest[..j].trim().parse().ok()
}

fn parse_layout(msg: &str) -> Option<Observed> {
    let size = parse_size(msg, "size: Size(")?;
    let align = parse_size(msg, "abi: Align(")?;
    let mut offsets = vec![];
    if let Some(i) = msg.find("offsets: [") {
        let rest = &msg[i..];
        let end = rest.find(']').unwrap_or(rest.len());
        let mut seg = &rest[..end];
        while let Some(k) = seg.find("Size(") {
            let r = &seg[k + 5..];
            let j = r.find(" bytes")?;
            offsets.push(r[..j].trim().parse().ok()?);
            seg = &r[j..];
        }
    }
    Some(Observed { size, align, offsets, field_sizes: vec![] })
}

pub fn target_for(ptrw: usize) -> &'static str {
    if ptrw == 4 {
        "i686-pc-windows-msvc"
    } else {
        "x86_64-pc-windows-msvc"
    }
}

pub fn dump(files: &[(String, String)], externs: &[ExternDef], ptrw: usize, work: &Path) -> DumpResult {
    let mut res = DumpResult::default();
    let (text, lines, field_types) = match build_crate(files, externs) {
        Ok(x) => x,
        Err(e) => {
            res.errors.push(format!("emitted file does not parse: {e}"));
            return res;
        }
    };
    let src = work.join(format!("layout_{ptrw}.rs"));
    std::fs::write(&src, &text).unwrap();
    let make = || {
        let mut c = Command::new("rustc");
        c.env("RUSTUP_TOOLCHAIN", "nightly")
            .arg("--edition=2021")
            .arg("--target")
            .arg(target_for(ptrw))
            .arg("--crate-type=lib")
            .arg("--emit=metadata")
            .arg("--error-format=json")
            .arg("--out-dir")
            .arg(work)
            .arg(&src);
        c
    };
    // the dump always "fails" (the layouts are error diagnostics); repeat only when the
    // compiler produced no JSON diagnostics at all
    let mut r: ToolResult = run_tool(&mut make(), Duration::from_secs(300));
    for attempt in 0..3u64 {
        if r.timed_out || r.stderr.contains("\"message\"") || lines.is_empty() {
            break;
        }
        std::thread::sleep(Duration::from_millis(500 * (attempt + 1)));
        r = run_tool(&mut make(), Duration::from_secs(300));
    }
    if r.timed_out {
        res.tool_failure = Some("rustc timed out".into());
        return res;
    }
    let mut saw_any = false;
    for line in r.stderr.lines() {
        let Ok(v) = serde_json::from_str::<Value>(line) else { continue };
        if v["level"] != "error" {
            continue;
        }
        let msg = v["message"].as_str().unwrap_or("");
        let ln = v["spans"][0]["line_start"].as_u64().unwrap_or(0) as usize;
        if msg.starts_with("layout_of(") {
            saw_any = true;
            if let (Some(o), Some(name)) = (parse_layout(msg), lines.get(&ln)) {
                res.layouts.insert(name.clone(), o);
            } else {
                res.errors.push(format!("unparsable layout dump at line {ln}"));
            }
        } else if msg.starts_with("aborting due to") {
        } else {
            let code = v["code"]["code"].as_str().unwrap_or("");
            if let Some(d) = lines.get(&ln).and_then(|l| l.strip_prefix("discr:")) {
                res.discriminant_mismatches.push(format!("{d} ({code} {})", crate::verdict::one_line(msg, 120)));
                continue;
            }
            let src_line = text.lines().nth(ln.saturating_sub(1)).unwrap_or("");
            res.errors.push(format!("{code} {msg} @ line {ln}: {}", crate::verdict::one_line(src_line, 200)));
        }
    }
    // attach field sizes
    let ty_sizes: BTreeMap<String, u64> = res
        .layouts
        .iter()
        .filter_map(|(k, v)| k.strip_prefix("ty:").map(|t| (t.to_string(), v.size)))
        .collect();
    res.layouts.retain(|k, _| !k.starts_with("ty:"));
    for (item, tys) in &field_types {
        if let Some(o) = res.layouts.get_mut(item) {
            o.field_sizes = tys.iter().map(|t| ty_sizes.get(t).copied().unwrap_or(u64::MAX)).collect();
        }
    }
    if !saw_any && res.errors.is_empty() && !lines.is_empty() {
        res.tool_failure = Some(format!(
            "no layout output: code {:?} stderr {}",
            r.code,
            crate::verdict::one_line(&r.stderr, 400)
        ));
    }
    res
}
