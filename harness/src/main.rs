//! pvh — runtime-monitoring harness for philpax/pyxis.
//!
//! usage: pvh <Cxx> <quick|thorough> [--replay <file>]
//! env:   VERIF_SEED (default 1), VERIF_ROOT (default /verif)

mod c03;
mod c08;
mod c09;
mod c12;
mod c13;
mod c18;
mod drive;
mod emitted;
mod exec;
mod exec_props;
mod gen_special;
mod hostile;
mod gen_ast;
mod gen_prog;
mod l2;
mod layout_props;
mod layoutdump;
mod meta_props;
mod probe;
mod refprog;
mod refmodel;
mod render;
mod resolve_props;
mod rng;
mod static_props;
mod verdict;

use verdict::{Ctx, Tier};

#[global_allocator]
static GLOBAL: c12::Counting = c12::Counting;

fn main() {
    // anyhow captures a backtrace per error when RUST_BACKTRACE is set; that takes a
    // global lock and serialises the sweeps. The monitors never look at backtraces.
    std::env::set_var("RUST_LIB_BACKTRACE", "0");
    let args: Vec<String> = std::env::args().collect();
    if args.len() < 3 {
        eprintln!("usage: pvh <Cxx> <quick|thorough> [--replay <file>]");
        std::process::exit(2);
    }
    if args[1] == "c12-worker" {
        drive::install_panic_hook();
        std::process::exit(c12::worker(&args[2..]));
    }
    if args[1] == "child-build" {
        drive::install_panic_hook();
        std::process::exit(c09::child_build(&args[2..]));
    }
    if args[1] == "debug-emitted" {
        let text = std::fs::read_to_string(&args[2]).unwrap();
        println!("{:#?}", emitted::parse(&text));
        return;
    }
    let prop = args[1].as_str();
    let tier = match args[2].as_str() {
        "quick" => Tier::Quick,
        "thorough" => Tier::Thorough,
        other => {
            eprintln!("unknown tier {other}");
            std::process::exit(2);
        }
    };
    let seed: u64 = std::env::var("VERIF_SEED")
        .ok()
        .and_then(|s| s.trim().parse::<i64>().ok())
        .map(|v| v as u64)
        .unwrap_or(1);
    let replay = args
        .iter()
        .position(|a| a == "--replay")
        .and_then(|i| args.get(i + 1))
        .cloned();

    drive::install_panic_hook();
    drive::start_call_watchdog(prop.to_string());
    let threads = std::thread::available_parallelism().map(|n| n.get()).unwrap_or(4);
    rayon::ThreadPoolBuilder::new()
        .num_threads(threads)
        .stack_size(64 << 20)
        .build_global()
        .ok();

    let mut ctx = Ctx::new(prop, tier, seed);
    if let Some(path) = replay {
        let text = std::fs::read_to_string(&path).unwrap_or_else(|e| {
            eprintln!("cannot read replay file {path}: {e}");
            std::process::exit(2);
        });
        let v: serde_json::Value = serde_json::from_str(&text).unwrap_or_else(|e| {
            eprintln!("replay file does not parse: {e}");
            std::process::exit(2);
        });
        let case = if v.get("case").is_some() { v["case"].clone() } else { v };
        match prop {
            "C01" | "C02" => layout_props::replay(&mut ctx, prop, &case),
            "C03" => c03::replay(&mut ctx, &case),
            "C04" => exec_props::replay(&mut ctx, "C04", &case),
            "C05" => exec_props::replay(&mut ctx, "C05", &case),
            "C06" => exec_props::replay(&mut ctx, "C06", &case),
            "C07" => exec_props::replay(&mut ctx, "C07", &case),
            "C15" => exec_props::replay(&mut ctx, "C15", &case),
            "C08" => c08::replay(&mut ctx, &case),
            "C09" => c09::replay(&mut ctx, &case),
            "C10" | "C11" => resolve_props::replay(&mut ctx, prop, &case),
            "C12" => c12::replay(&mut ctx, &case),
            "C13" => c13::replay(&mut ctx, &case),
            "C14" | "C16" | "C17" => static_props::replay(&mut ctx, prop, &case),
            "C18" => c18::replay(&mut ctx, &case),
            "C19" | "C20" => meta_props::replay(&mut ctx, prop, &case),
            _ => {
                eprintln!("no replay for {prop}");
                std::process::exit(2);
            }
        }
        let n = ctx.total_violation_count();
        println!("replay: {} violation(s)", n);
        std::process::exit(if n > 0 { 1 } else { 0 });
    }
    // A bug in the harness itself must never look like a verdict about pyxis.
    let ran = std::panic::catch_unwind(std::panic::AssertUnwindSafe(|| {
    match prop {
            "C01" | "C02" => layout_props::run(&mut ctx, prop),
            "C03" => c03::run(&mut ctx),
            "C04" => exec_props::run(&mut ctx, "C04"),
            "C05" => exec_props::run(&mut ctx, "C05"),
            "C06" => exec_props::run(&mut ctx, "C06"),
            "C07" => exec_props::run(&mut ctx, "C07"),
            "C15" => exec_props::run(&mut ctx, "C15"),
            "C08" => c08::run(&mut ctx),
            "C09" => c09::run(&mut ctx),
            "C10" => resolve_props::run_c10(&mut ctx),
            "C11" => resolve_props::run_c11(&mut ctx),
            "C12" => c12::run(&mut ctx),
            "C13" => c13::run(&mut ctx),
            "C14" => static_props::run_c14(&mut ctx),
            "C16" => static_props::run_c16(&mut ctx),
            "C17" => static_props::run_c17(&mut ctx),
            "C18" => c18::run(&mut ctx),
            "C19" => meta_props::run_c19(&mut ctx),
            "C20" => meta_props::run_c20(&mut ctx),
            _ => {
                eprintln!("unknown property {prop}");
                std::process::exit(2);
            }
        }
    }));
    if let Err(e) = ran {
        let msg = e
            .downcast_ref::<String>()
            .cloned()
            .or_else(|| e.downcast_ref::<&str>().map(|s| s.to_string()))
            .unwrap_or_else(|| "panic".into());
        ctx.inconclusive(format!("harness panicked: {}", verdict::one_line(&msg, 200)));
    }
    std::process::exit(ctx.finish());
}
