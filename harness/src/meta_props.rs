//! Metamorphic properties over whole builds: C20 (equivalent descriptions give
//! identical bindings) and C19 (a module's bindings do not depend on unrelated
//! definitions). Observed: bytes of the output files of two real builds.

use crate::drive::{self, Opts, Stage};
use crate::gen_prog::{self, Cfg};
use crate::layout_props::{case_json, mods_from_case, structural_hash};
use crate::refmodel::{attr_int, MemberKind};
use crate::refprog::{self, Env, Slot};
use crate::rng::Rng;
use crate::verdict::Ctx;
use pyxis::grammar::*;
use rayon::prelude::*;
use serde_json::{json, Value};
use std::collections::BTreeMap;

type Mods = Vec<(ItemPath, Module)>;

fn build_files(mods: &Mods, ptrw: usize) -> Result<BTreeMap<String, String>, drive::BuildErr> {
    drive::build_modules(mods, ptrw, Opts::default()).result.map(|ok| ok.files)
}

fn first_diff(a: &BTreeMap<String, String>, b: &BTreeMap<String, String>) -> Option<String> {
    let ka: Vec<&String> = a.keys().collect();
    let kb: Vec<&String> = b.keys().collect();
    if ka != kb {
        return Some(format!("file sets differ: {ka:?} vs {kb:?}"));
    }
    for (k, va) in a {
        let vb = &b[k];
        if va != vb {
            let (la, lb): (Vec<&str>, Vec<&str>) = (va.lines().collect(), vb.lines().collect());
            for i in 0..la.len().max(lb.len()) {
                let x = la.get(i).copied().unwrap_or("<eof>");
                let y = lb.get(i).copied().unwrap_or("<eof>");
                if x != y {
                    return Some(format!("{k} line {}: `{}` vs `{}`", i + 1, x.trim(), y.trim()));
                }
            }
            return Some(format!("{k}: differs in line endings"));
        }
    }
    None
}

// ---------------------------------------------------------------------------
// C20 rewrites

#[derive(Clone, Copy, Debug, PartialEq, Eq)]
pub enum Rewrite {
    ExplicitAddress,
    GapToAddress,
    AddressToGap,
    NaturalSize,
    NaturalIndex,
    ExplicitEnumValue,
    ReorderDefinitions,
    Respell,
}
pub const REWRITES: &[Rewrite] = &[
    Rewrite::ExplicitAddress,
    Rewrite::GapToAddress,
    Rewrite::AddressToGap,
    Rewrite::NaturalSize,
    Rewrite::NaturalIndex,
    Rewrite::ExplicitEnumValue,
    Rewrite::ReorderDefinitions,
    Rewrite::Respell,
];

fn set_address(st: &mut TypeStatement, a: usize) {
    st.attributes.0.retain(|x| !matches!(x, Attribute::Function(i, _) if i.as_str() == "address"));
    st.attributes.0.push(Attribute::address(a));
}
fn clear_address(st: &mut TypeStatement) {
    st.attributes.0.retain(|x| !matches!(x, Attribute::Function(i, _) if i.as_str() == "address"));
}

/// Apply one rewrite at (up to) one random applicable site per type/enum, or at
/// every applicable site when `everywhere`. Returns the number of sites changed.
pub fn apply(mods: &mut Mods, ptrw: usize, rw: Rewrite, rng: &mut Rng, everywhere: bool) -> usize {
    let snapshot = mods.clone();
    let env = Env::new(&snapshot, ptrw);
    let mut changed = 0;
    for (mp, m) in mods.iter_mut() {
        let mps = mp.to_string();
        if rw == Rewrite::ReorderDefinitions {
            if m.definitions.len() >= 2 {
                let before = m.definitions.clone();
                rng.shuffle(&mut m.definitions);
                if m.definitions != before {
                    changed += 1;
                }
            }
            continue;
        }
        for d in m.definitions.iter_mut() {
            let path = format!("{mps}::{}", d.name);
            match &mut d.inner {
                ItemDefinitionInner::Enum(ed) => {
                    if rw != Rewrite::ExplicitEnumValue {
                        continue;
                    }
                    let mut next: Option<isize> = Some(0);
                    let mut sites = vec![];
                    let mut vals = vec![];
                    for (i, st) in ed.statements.iter().enumerate() {
                        let v = match &st.expr {
                            Some(Expr::IntLiteral(v)) => Some(*v),
                            Some(_) => None,
                            None => next,
                        };
                        if st.expr.is_none() && v.is_some() {
                            sites.push(i);
                        }
                        vals.push(v);
                        next = v.and_then(|v| v.checked_add(1));
                    }
                    if sites.is_empty() {
                        continue;
                    }
                    let chosen: Vec<usize> = if everywhere { sites } else { vec![*rng.pick(&sites)] };
                    for i in chosen {
                        if let Some(v) = vals[i] {
                            ed.statements[i].expr = Some(Expr::IntLiteral(v));
                            changed += 1;
                        }
                    }
                }
                ItemDefinitionInner::Type(td) => {
                    let Ok(lay) = env.layout(&path) else { continue };
                    match rw {
                        Rewrite::ExplicitAddress => {
                            let sites: Vec<(usize, usize)> = lay
                                .members
                                .iter()
                                .filter_map(|mb| match mb.kind {
                                    MemberKind::Field(i) if attr_int(&td.statements[i].attributes, "address").is_none() => Some((i, mb.offset)),
                                    _ => None,
                                })
                                .collect();
                            if sites.is_empty() {
                                continue;
                            }
                            let chosen: Vec<(usize, usize)> = if everywhere { sites } else { vec![*rng.pick(&sites)] };
                            for (i, off) in chosen {
                                set_address(&mut td.statements[i], off);
                                changed += 1;
                            }
                        }
                        Rewrite::GapToAddress => {
                            // `_: unknown<N>` (no address) directly followed by a named field without address
                            let mut sites = vec![];
                            for i in 0..td.statements.len().saturating_sub(1) {
                                let (TypeField::Field(_, n0, Type::Unknown(_)), TypeField::Field(_, n1, _)) = (&td.statements[i].field, &td.statements[i + 1].field) else { continue };
                                if n0.as_str() == "_"
                                    && n1.as_str() != "_"
                                    && attr_int(&td.statements[i].attributes, "address").is_none()
                                    && attr_int(&td.statements[i + 1].attributes, "address").is_none()
                                {
                                    if let Some(mb) = lay.members.iter().find(|mb| mb.kind == MemberKind::Field(i + 1)) {
                                        sites.push((i, mb.offset));
                                    }
                                }
                            }
                            if sites.is_empty() {
                                continue;
                            }
                            let (i, off) = *rng.pick(&sites);
                            set_address(&mut td.statements[i + 1], off);
                            td.statements.remove(i);
                            changed += 1;
                        }
                        Rewrite::AddressToGap => {
                            // named field with explicit address and a non-empty gap before it
                            let mut sites = vec![];
                            for (k, mb) in lay.members.iter().enumerate() {
                                if let MemberKind::Field(i) = mb.kind {
                                    if attr_int(&td.statements[i].attributes, "address").is_some() && k > 0 {
                                        let prev = &lay.members[k - 1];
                                        // `Gap` members are the ones the layout rule inserted for an address
                                        // (a dropped zero-sized array statement right before would own the gap instead)
                                        let prev_stmt_has_member = i == 0
                                            || td.statements[i - 1].field.is_vftable()
                                            || lay.members.iter().any(|m| m.kind == MemberKind::Field(i - 1));
                                        let is_synth_gap = prev.kind == MemberKind::Gap && prev.offset + prev.size == mb.offset && prev_stmt_has_member;
                                        if is_synth_gap {
                                            sites.push((i, prev.size));
                                        }
                                    }
                                }
                            }
                            if sites.is_empty() {
                                continue;
                            }
                            let (i, gap) = *rng.pick(&sites);
                            clear_address(&mut td.statements[i]);
                            td.statements.insert(i, crate::refmodel::field("_", Type::Unknown(gap), None, false));
                            changed += 1;
                        }
                        Rewrite::NaturalSize => {
                            if attr_int(&td.attributes, "size").is_none() {
                                td.attributes.0.push(Attribute::size(lay.size));
                                changed += 1;
                            }
                        }
                        Rewrite::NaturalIndex => {
                            let Some(vs) = td.statements.iter_mut().find(|s| s.field.is_vftable()) else { continue };
                            let size = attr_int(&vs.attributes, "size");
                            let TypeField::Vftable(fs) = &mut vs.field else { continue };
                            let Ok(sl) = refprog::slots(fs, size) else { continue };
                            let mut natural: Vec<(String, usize)> = vec![];
                            for (i, s) in sl.iter().enumerate() {
                                if let Slot::Func(f) = s {
                                    natural.push((f.name.0.clone(), i));
                                }
                            }
                            let sites: Vec<usize> = (0..fs.len()).filter(|k| attr_int(&fs[*k].attributes, "index").is_none()).collect();
                            if sites.is_empty() {
                                continue;
                            }
                            let chosen: Vec<usize> = if everywhere { sites } else { vec![*rng.pick(&sites)] };
                            for k in chosen {
                                let idx = natural[k].1;
                                fs[k].attributes.0.push(Attribute::index(idx));
                                changed += 1;
                            }
                        }
                        _ => {}
                    }
                }
            }
        }
    }
    changed
}

pub fn run_c20(ctx: &mut Ctx) {
    ctx.rule = "accepted programs from the rich generator (fields placed by explicit address / implicit / gap, vftable indices, enums) are rewritten by each applicable rewrite of the listed family — explicit address the field already had; unknown<N> gap -> address on the following field and the reverse; #[size] equal to the natural size; #[index] equal to the natural slot; explicit enum value equal to the implicit one; numbers re-spelt (text path with random bases/separators); type definitions of a module reordered — singly at a random site, at every site, and in random combinations; both builds must be accepted with byte-identical output files. non-trivial = pair (D, D') both accepted with D' != D as ASTs (or as texts for re-spelling); distinct by hash of (D, rewrite list)".into();
    ctx.assumptions.push("the reference layout (refprog::Env::layout) supplies the address a field already has and the natural size; cases where it cannot lay the type out are skipped, not judged".into());
    let seed = ctx.seed;
    // reordering definitions whose names are "equal" under some looser comparison (case,
    // leading zeros of a digit run, raw prefix, a trailing underscore): any order of the same
    // definitions gives the same bytes
    {
        let defs: Vec<&str> = vec![
            "pub type Unk1 { pub a: u32, }",
            "#[align(4)] pub type Unk01 { pub a: u16, pub b: u16, }",
            "#[align(4)] pub type Unk001 { pub a: u8, pub b: u8, pub c: u16, }",
            "pub type Unk10 { pub u: *const Unk9, pub a: u32, pub b: u32, }",
            "pub type Unk9 { pub a: u32, }",
            "pub type unk1 { pub a: u32, }",
            "pub type UNK1 { pub u: *const unk1, pub a: u32, pub b: u32, }",
            "pub enum Kind2: u8 { A, }",
            "pub enum Kind02: u16 { A, }",
            "pub type Slot7 { vftable { pub fn f(&self); }, }",
            "pub type Slot007 { vftable { pub fn f(&self); pub fn g(&self); }, }",
            "pub type Tail_ { pub a: u32, }",
            "pub type Tail { pub a: u32, }",
            "#[size(4), align(4)] extern type Ext1;",
            "#[size(8), align(4)] extern type Ext01;",
        ];
        let mut rng = Rng::derive(seed, 0x20DD);
        let rounds = ctx.tier.pick(40, 400);
        for ptrw in [4usize, 8] {
            let build = |order: &[usize]| -> Result<BTreeMap<String, String>, drive::BuildErr> {
                let text: String = order.iter().map(|k| defs[*k]).collect::<Vec<_>>().join("\n");
                let m = pyxis::parser::parse_str(&text).expect("C20 name family parses");
                build_files(&vec![(ItemPath::from("kq_names"), m)], ptrw)
            };
            let base_order: Vec<usize> = (0..defs.len()).collect();
            ctx.eval();
            let Ok(base) = build(&base_order) else {
                ctx.inconclusive("the name-family description was rejected".to_string());
                continue;
            };
            for round in 0..rounds {
                let mut order = base_order.clone();
                if round == 0 {
                    order.reverse();
                } else if round % 3 == 1 {
                    // a single adjacent swap
                    let k = rng.below(order.len() - 1);
                    order.swap(k, k + 1);
                } else {
                    for i in (1..order.len()).rev() {
                        let j = rng.below(i + 1);
                        order.swap(i, j);
                    }
                }
                ctx.eval();
                ctx.nontrivial(crate::rng::fnv(format!("names{ptrw}{order:?}").as_bytes()));
                match build(&order) {
                    Err(e) => ctx.violation("C20/rewritten-rejected/ReorderDefinitions", &format!("reordered name family rejected: {}", crate::verdict::one_line(&e.msg, 200)), json!({"ptrw": ptrw, "order": order})),
                    Ok(o) => {
                        ctx.count("pairs_compared/ReorderDefinitions/similar-names", 1);
                        if o != base {
                            ctx.violation(
                                "C20/output-differs/ReorderDefinitions/similar-names",
                                &format!("definitions in the order {order:?}: {}", first_diff(&base, &o).unwrap_or_default()),
                                json!({"ptrw": ptrw, "order": order, "definitions": defs}),
                            );
                            break;
                        }
                    }
                }
            }
        }
    }
    let n = ctx.tier.pick(700usize, 12_000);
    struct R {
        evals: u64,
        pairs: Vec<u64>,
        bad: Vec<(String, String, Value)>,
        per_rewrite: BTreeMap<String, u64>,
        rewritten_rejected: u64,
        sample: Option<Value>,
    }
    let results: Vec<R> = (0..n)
        .into_par_iter()
        .map(|i| {
            let mut rng = Rng::derive(seed, 0x2000_0000 + i as u64);
            let ptrw = if i % 2 == 0 { 8 } else { 4 };
            let id = format!("k{i}_");
            let cfg = Cfg::rich(ptrw, &id);
            let mut g = gen_prog::generate(&mut rng, &cfg);
            if i % 40 == 13 {
                // a description in which a module imports an item called `u8` and has gaps
                let sp = crate::gen_special::shadow_programs(i);
                g.mods = sp[(i / 40) % sp.len()].1.clone();
            }
            if i % 3 == 2 {
                // hostile original: if pyxis accepts it, its rewrites must behave all the same
                crate::hostile::perturb(&mut g.mods, &mut rng);
            }
            let mut r = R {
                evals: 1,
                pairs: vec![],
                bad: vec![],
                per_rewrite: BTreeMap::new(),
                rewritten_rejected: 0,
                sample: None,
            };
            let Ok(base) = build_files(&g.mods, ptrw) else { return r };
            let mut variants: Vec<(Vec<Rewrite>, Mods, Option<Vec<(String, String)>>)> = vec![];
            for rw in REWRITES {
                if *rw == Rewrite::Respell {
                    let files: Vec<(String, String)> = g
                        .mods
                        .iter()
                        .map(|(p, m)| (format!("{}.pyxis", p.to_string().replace("::", "/")), crate::render::render_random(m, &mut rng)))
                        .collect();
                    variants.push((vec![*rw], g.mods.clone(), Some(files)));
                    continue;
                }
                for everywhere in [false, true] {
                    let mut m2 = g.mods.clone();
                    if apply(&mut m2, ptrw, *rw, &mut rng, everywhere) > 0 && m2 != g.mods {
                        variants.push((vec![*rw], m2, None));
                    }
                }
            }
            // random combinations
            for _ in 0..3 {
                let mut m2 = g.mods.clone();
                let mut list = vec![];
                for _ in 0..rng.range(2, 5) {
                    let rw = *rng.pick(&REWRITES[..7]);
                    let everywhere = rng.coin();
                    if apply(&mut m2, ptrw, rw, &mut rng, everywhere) > 0 {
                        list.push(rw);
                    }
                }
                if list.len() >= 2 && m2 != g.mods {
                    variants.push((list, m2, None));
                }
            }
            for (list, m2, files) in variants {
                r.evals += 1;
                let out = match &files {
                    Some(f) => drive::build_texts(f, ptrw, Opts::default()).result.map(|ok| ok.files),
                    None => build_files(&m2, ptrw),
                };
                let label = list.iter().map(|x| format!("{x:?}")).collect::<Vec<_>>().join("+");
                let case = || match &files {
                    Some(f) => json!({"original": case_json(&g.mods, ptrw), "rewrites": label, "rewritten_texts": f}),
                    None => json!({"original": case_json(&g.mods, ptrw), "rewrites": label, "rewritten": case_json(&m2, ptrw)}),
                };
                match out {
                    Err(e) => {
                        if e.stage == Stage::Panic {
                            r.bad.push(("C20/panic".into(), e.msg, case()));
                        } else {
                            r.bad.push((format!("C20/rewritten-rejected/{label}"), format!("the rewritten description is rejected: {}", e.msg), case()));
                            r.rewritten_rejected += 1;
                        }
                    }
                    Ok(o2) => {
                        *r.per_rewrite.entry(label.clone()).or_insert(0) += 1;
                        r.pairs.push(crate::rng::fnv(format!("{:?}{label}", structural_hash(&g.mods, &id)).as_bytes()));
                        if let Some(d) = first_diff(&base, &o2) {
                            r.bad.push((format!("C20/output-differs/{}", if list.len() == 1 { label.clone() } else { "combination".into() }), d, case()));
                        } else if r.sample.is_none() && list.len() == 1 && i < 40 {
                            r.sample = Some(case());
                        }
                    }
                }
            }
            r
        })
        .collect();
    let mut agg: BTreeMap<String, u64> = BTreeMap::new();
    for r in results {
        ctx.evals(r.evals);
        for p in r.pairs {
            ctx.nontrivial(p);
        }
        for (k, v) in r.per_rewrite {
            let key = if k.contains('+') { "combination".to_string() } else { k };
            *agg.entry(key).or_insert(0) += v;
        }
        if let Some(s) = r.sample {
            ctx.sample(s);
        }
        for (sig, detail, case) in r.bad {
            ctx.violation(&sig, &detail, case);
        }
    }
    for (k, v) in agg {
        ctx.count(&format!("identical_outputs/{k}"), v);
    }
    if ctx.distinct_count() < ctx.tier.pick(300, 3000) {
        ctx.inconclusive(format!("only {} distinct accepted (D, D') pairs", ctx.distinct_count()));
    }
}

// ---------------------------------------------------------------------------
// C19

fn reachable(mods: &Mods, start: usize) -> Vec<usize> {
    // closure over `use` paths: a use of module P or of a type P::T reaches module P
    let paths: Vec<String> = mods.iter().map(|(p, _)| p.to_string()).collect();
    let mut seen = vec![start];
    let mut todo = vec![start];
    while let Some(i) = todo.pop() {
        for u in &mods[i].1.uses {
            let us = u.to_string();
            for (j, p) in paths.iter().enumerate() {
                if (&us == p || us.starts_with(&format!("{p}::"))) && !seen.contains(&j) {
                    seen.push(j);
                    todo.push(j);
                }
            }
        }
    }
    seen
}

pub fn run_c19(ctx: &mut Ctx) {
    ctx.rule = "accepted multi-module input sets S from the rich generator with an observed module M and its reachable closure R (via use paths, transitively); variants S' add, remove or replace modules outside R: removal of all unrelated modules, a regenerated replacement, a clone of M's own definitions under another path with changed sizes (same short names, vftable-bearing types whose generated items could leak), a module nested under M's path, and 40 extra filler types to change hash-map capacity; whenever S' is still accepted, the files of M and of R must be byte-identical. non-trivial = pair (S, S') both accepted where S' adds or edits >=1 vftable-bearing or same-named type outside the closure; distinct by hash of (S, variant)".into();
    let seed = ctx.seed;
    let n = ctx.tier.pick(500usize, 8000);
    struct R {
        evals: u64,
        pairs: Vec<u64>,
        bad: Vec<(String, String, Value)>,
        skipped: u64,
        per_variant: BTreeMap<&'static str, u64>,
        sample: Option<Value>,
    }
    let results: Vec<R> = (0..n)
        .into_par_iter()
        .map(|i| {
            let mut rng = Rng::derive(seed, 0x1900_0000 + i as u64);
            let ptrw = if i % 2 == 0 { 8 } else { 4 };
            let id = format!("k{i}_");
            let mut cfg = Cfg::rich(ptrw, &id);
            cfg.max_modules = 4;
            let g = gen_prog::generate(&mut rng, &cfg);
            let mut r = R {
                evals: 1,
                pairs: vec![],
                bad: vec![],
                skipped: 0,
                per_variant: BTreeMap::new(),
                sample: None,
            };
            let Ok(base) = build_files(&g.mods, ptrw) else { return r };
            // observed module: any; closure by uses
            let mi = rng.below(g.mods.len());
            let closure = reachable(&g.mods, mi);
            let closure_files: Vec<String> = closure.iter().map(|j| format!("{}.rs", g.mods[*j].0.to_string().replace("::", "/"))).collect();
            let related: Mods = closure.iter().map(|j| g.mods[*j].clone()).collect();
            // modules that do not (transitively) matter to M; they may themselves use M
            let unrelated: Mods = (0..g.mods.len()).filter(|j| !closure.contains(j)).map(|j| g.mods[j].clone()).collect();
            let mpath = g.mods[mi].0.to_string();
            let mut variants: Vec<(&'static str, Mods)> = vec![];
            if !unrelated.is_empty() {
                variants.push(("remove-unrelated", related.clone()));
            }
            // regenerated replacement under a fresh prefix
            {
                let mut cfg2 = Cfg::rich(ptrw, &format!("{id}alt_"));
                cfg2.max_modules = 2;
                let g2 = gen_prog::generate(&mut rng, &cfg2);
                let mut v = related.clone();
                v.extend(g2.mods);
                variants.push(("replace-unrelated", v));
            }
            // same short names elsewhere, different sizes, vftables that generate items
            {
                let mut clone = g.mods[mi].1.clone();
                clone.uses.clear();
                clone.impls.clear();
                clone.extern_values.clear();
                clone.backends.clear();
                for d in clone.definitions.iter_mut() {
                    if let ItemDefinitionInner::Type(td) = &mut d.inner {
                        td.statements = vec![
                            TypeStatement::vftable([Function::new((Visibility::Public, "leak"), [Argument::ConstSelf])]),
                            TypeStatement::field((Visibility::Public, "w"), Type::ident("u8").const_pointer().array(3 + rng.below(3))),
                        ];
                        td.attributes = Attributes(vec![]);
                    }
                }
                clone.extern_types.iter_mut().for_each(|(_, a)| *a = Attributes(vec![Attribute::size(64), Attribute::align(16)]));
                let mut v = g.mods.clone();
                v.push((ItemPath::from(format!("{id}shadow").as_str()), clone.clone()));
                variants.push(("same-names-elsewhere", v));
                // the same module added BEFORE everything else, its extern types of the same
                // names shrunk to one alignment unit or emptied (what M embeds by value must
                // keep the size M's own declaration gives it, whoever declared the name first)
                let mut small = clone.clone();
                small.definitions.clear();
                for (k, (_, a)) in small.extern_types.iter_mut().enumerate() {
                    let orig = &g.mods[mi].1.extern_types[k].1;
                    let al = crate::refmodel::attr_int(orig, "align").unwrap_or(1).max(1) as usize;
                    let sz = crate::refmodel::attr_int(orig, "size").unwrap_or(0).max(0) as usize;
                    *a = Attributes(vec![Attribute::size(if sz > al { al } else if sz == al { 0 } else { al }), Attribute::align(al)]);
                }
                if !small.extern_types.is_empty() {
                    let mut v = g.mods.clone();
                    v.insert(0, (ItemPath::from(format!("{id}aaa_first").as_str()), small));
                    variants.push(("same-extern-names-declared-earlier-elsewhere", v));
                }
                let mut v = g.mods.clone();
                v.push((ItemPath::from(format!("{mpath}::nested_shadow").as_str()), clone));
                variants.push(("same-names-nested-under-M", v));
            }
            // same short names in an *ancestor* of the observed module (not imported by it)
            if mpath.contains("::") {
                let parent = refprog::parent_of(&mpath).to_string();
                if !g.mods.iter().any(|(p, _)| p.to_string() == parent) {
                    // names M may reach through its module imports
                    let mut shadow = Module::new();
                    for j in &closure {
                        for d in &g.mods[*j].1.definitions {
                            if let ItemDefinitionInner::Type(_) = &d.inner {
                                if !shadow.definitions.iter().any(|x| x.name == d.name) {
                                    shadow.definitions.push(ItemDefinition::new(
                                        (Visibility::Public, d.name.as_str()),
                                        TypeDefinition::new([TypeStatement::field((Visibility::Public, "w"), Type::ident("u8").const_pointer().array(7))]),
                                    ));
                                }
                            }
                        }
                        for (n, _) in &g.mods[*j].1.extern_types {
                            if !shadow.extern_types.iter().any(|x| &x.0 == n) {
                                shadow.extern_types.push((n.clone(), Attributes(vec![Attribute::size(128), Attribute::align(16)])));
                            }
                        }
                    }
                    let mut v = g.mods.clone();
                    v.push((ItemPath::from(parent.as_str()), shadow.clone()));
                    variants.push(("same-names-in-ancestor-of-M", v));
                    // ... and a type in that ancestor whose path IS the observed module's path
                    let last = mpath.rsplit("::").next().unwrap_or("").to_string();
                    if !shadow.definitions.iter().any(|d| d.name.as_str() == last) {
                        shadow.definitions.push(ItemDefinition::new(
                            (Visibility::Public, last.as_str()),
                            TypeDefinition::new([TypeStatement::field((Visibility::Public, "w"), Type::ident("u8").const_pointer().array(9))]),
                        ));
                        let mut v = g.mods.clone();
                        v.push((ItemPath::from(parent.as_str()), shadow));
                        variants.push(("type-at-the-path-of-M", v));
                    }
                }
            }
            // a module whose path is that of a TYPE the observed module imports by name; it
            // defines every short name the observed module mentions
            {
                let item_paths: Vec<String> = g.mods.iter().flat_map(|(p, m)| m.definitions.iter().map(move |d| format!("{p}::{}", d.name))).collect();
                let imported: Vec<String> = g.mods[mi].1.uses.iter().map(|u| u.to_string()).filter(|u| item_paths.contains(u)).collect();
                if let Some(target) = imported.first() {
                    let mut names: Vec<String> = vec![];
                    for d in &g.mods[mi].1.definitions {
                        if let ItemDefinitionInner::Type(td) = &d.inner {
                            for st in &td.statements {
                                if let TypeField::Field(_, _, t) = &st.field {
                                    refprog::Env::names_in(t, &mut names);
                                }
                            }
                        }
                    }
                    names.sort();
                    names.dedup();
                    let mut squat = Module::new();
                    for n in names.iter().filter(|n| crate::refmodel::builtin(n).is_none()) {
                        squat.definitions.push(ItemDefinition::new(
                            (Visibility::Public, n.as_str()),
                            TypeDefinition::new([TypeStatement::field((Visibility::Public, "w"), Type::ident("u8").const_pointer().array(5))]),
                        ));
                    }
                    if !squat.definitions.is_empty() && !g.mods.iter().any(|(p, _)| &p.to_string() == target) {
                        let mut v = g.mods.clone();
                        v.push((ItemPath::from(target.as_str()), squat));
                        variants.push(("module-at-the-path-of-an-imported-type", v));
                    }
                }
            }
            // a module that the observed module knows nothing about exposes the observed module's
            // private types in its own public fields
            {
                let private: Vec<String> = g.mods[mi].1.definitions.iter().filter(|d| d.visibility == Visibility::Private).map(|d| d.name.to_string()).collect();
                if !private.is_empty() {
                    let mut exposer = Module::new();
                    let mut fields = vec![];
                    for (k, n) in private.iter().enumerate() {
                        exposer.uses.push(ItemPath::from(format!("{mpath}::{n}").as_str()));
                        fields.push(TypeStatement::field((Visibility::Public, format!("p{k}").as_str()), Type::ident(n).mut_pointer()));
                        fields.push(TypeStatement::field((Visibility::Public, format!("a{k}").as_str()), Type::ident(n).const_pointer().array(2)));
                    }
                    exposer.definitions.push(ItemDefinition::new((Visibility::Public, "Exposer"), TypeDefinition::new(fields)));
                    let mut v = g.mods.clone();
                    v.push((ItemPath::from(format!("{id}exposer").as_str()), exposer));
                    variants.push(("private-types-exposed-by-another-module", v));
                }
            }
            // an unrelated module whose items are named like predefined types, written before
            // and after the observed module
            {
                let legacy = pyxis::parser::parse_str("#[align(2)] pub type u16 { pub x: u8, pub y: u8, }\n#[size(4), align(4)] extern type u8;\npub enum bool: u32 { A, }\n#[align(8)] pub type Old { pub a: u16, pub b: u8, pub c: bool, pub d: u32, pub e: u64, pub f: f32, pub g: u32, }").expect("legacy module parses");
                let mut v = g.mods.clone();
                v.push((ItemPath::from(format!("{id}legacy").as_str()), legacy.clone()));
                variants.push(("predefined-names-shadowed-elsewhere/after", v));
                let mut v = g.mods.clone();
                v.insert(0, (ItemPath::from(format!("{id}legacy").as_str()), legacy));
                variants.push(("predefined-names-shadowed-elsewhere/before", v));
            }
            // a module whose path differs from the observed one's only in `-` for `_` (a file
            // `gfx-types.pyxis` next to `gfx_types.pyxis`), written after and before it
            if mpath.contains('_') {
                let mut twin = Module::new();
                for d in &g.mods[mi].1.definitions {
                    if let ItemDefinitionInner::Type(_) = &d.inner {
                        twin.definitions.push(ItemDefinition::new(
                            (Visibility::Public, d.name.as_str()),
                            TypeDefinition::new([TypeStatement::field((Visibility::Public, "w"), Type::ident("u8").const_pointer().array(11))]),
                        ));
                    }
                }
                let twin_path = mpath.replacen('_', "-", 1);
                let mut v = g.mods.clone();
                v.push((ItemPath::from(twin_path.as_str()), twin.clone()));
                variants.push(("module-path-differing-by-a-dash/after", v));
                let mut v = g.mods.clone();
                v.insert(0, (ItemPath::from(twin_path.as_str()), twin));
                variants.push(("module-path-differing-by-a-dash/before", v));
            }
            // filler to change hash-map capacity
            {
                let mut filler = Module::new();
                for k in 0..40 {
                    filler.definitions.push(ItemDefinition::new(
                        (Visibility::Public, format!("Filler{k}").as_str()),
                        TypeDefinition::new([TypeStatement::field((Visibility::Public, "w"), Type::ident("u8").const_pointer())]),
                    ));
                }
                let mut v = g.mods.clone();
                v.push((ItemPath::from(format!("{id}filler").as_str()), filler));
                variants.push(("forty-filler-types", v));
            }
            for (kind, v) in variants {
                r.evals += 1;
                match build_files(&v, ptrw) {
                    Err(e) if e.stage == Stage::Panic => r.bad.push(("C19/panic".into(), e.msg, json!({"S": case_json(&g.mods, ptrw), "S_prime": case_json(&v, ptrw)}))),
                    Err(_) => r.skipped += 1,
                    Ok(o2) => {
                        *r.per_variant.entry(kind).or_insert(0) += 1;
                        r.pairs.push(crate::rng::fnv(format!("{}{kind}", structural_hash(&g.mods, &id)).as_bytes()));
                        for f in &closure_files {
                            if base.get(f) != o2.get(f) {
                                let a: BTreeMap<String, String> = base.iter().filter(|(k, _)| *k == f).map(|(k, v)| (k.clone(), v.clone())).collect();
                                let b: BTreeMap<String, String> = o2.iter().filter(|(k, _)| *k == f).map(|(k, v)| (k.clone(), v.clone())).collect();
                                let d = first_diff(&a, &b).unwrap_or_default();
                                r.bad.push((
                                    format!("C19/output-changed/{kind}"),
                                    format!("observed module `{mpath}` (file {f}): {d}"),
                                    json!({"observed_module": mpath, "variant": kind, "S": case_json(&g.mods, ptrw), "S_prime": case_json(&v, ptrw)}),
                                ));
                                break;
                            }
                        }
                        if r.sample.is_none() && i < 20 && kind == "same-names-elsewhere" {
                            r.sample = Some(json!({"observed_module": mpath, "variant": kind, "S": case_json(&g.mods, ptrw), "S_prime_adds": v.last().map(|m| m.0.to_string())}));
                        }
                    }
                }
            }
            r
        })
        .collect();
    // siblings of an imported item: the observed module imports one type of another module
    // (or the whole module); definitions are added to that other module which neither the
    // observed module nor the imported type mentions, with names the observed module uses for
    // its OWN types and for the vftable structs generated for them
    {
        let ui = |style: usize| -> String {
            let uses = match style {
                0 => "use gfx::Color;\n",
                1 => "use gfx;\n",
                _ => "use gfx;\nuse gfx::Color;\n",
            };
            format!(
                "{uses}pub type Widget {{ vftable {{ pub fn draw(&self, c: *const Color); }}, pub c: *const Color, }}\npub type PanelVftable {{ pub x: u32, }}\npub type Holder {{ pub t: *const WidgetVftable, pub w: *mut Widget, pub p: *const PanelVftable, pub col: Color, pub pad: u32, }}\nimpl Holder {{ #[address(0x1000)] pub fn table(&self) -> *const WidgetVftable; #[address(0x1040)] pub fn panel(&self, p: *mut PanelVftable); }}\n#[address(0x7000)] pub extern g_table: *const WidgetVftable;\n"
            )
        };
        let gfx_base = "pub type Color { pub rgba: u32, }\n";
        let additions: Vec<(&str, &str)> = vec![
            ("type-Widget-with-vftable", "pub type Widget { vftable { pub fn other(&self); pub fn more(&self); }, pub big: [u64; 4], }\n"),
            ("type-WidgetVftable", "pub type WidgetVftable { pub big: [u64; 5], }\n"),
            ("type-PanelVftable", "pub type PanelVftable { pub big: [u64; 3], }\n"),
            ("type-Panel-with-vftable", "pub type Panel { vftable { pub fn p(&self); }, }\n"),
            ("type-Holder", "pub type Holder { pub big: [u64; 7], }\n"),
            ("enum-Widget", "pub enum Widget: u8 { A, }\n"),
            ("extern-type-WidgetVftable", "#[size(24), align(8)] extern type WidgetVftable;\n"),
            ("fresh-type-with-vftable", "pub type Fresh { vftable { pub fn f(&self); }, }\npub type FreshUser { pub t: *const FreshVftable, }\n"),
        ];
        let mut compared = 0u64;
        let mut skipped = 0u64;
        for style in 0..3usize {
            for ptrw in [4usize, 8] {
                for gfx_first in [true, false] {
                    let parse = |t: &str| pyxis::parser::parse_str(t).expect("C19 sibling case parses");
                    let mk = |gfx_text: &str| -> Mods {
                        let mut v = vec![(ItemPath::from("ks_gfx"), parse(gfx_text)), (ItemPath::from("ks_ui"), parse(&ui(style).replace("gfx", "ks_gfx")))];
                        if !gfx_first {
                            v.reverse();
                        }
                        v
                    };
                    let s0 = mk(gfx_base);
                    ctx.eval();
                    let Ok(base) = build_files(&s0, ptrw) else {
                        ctx.inconclusive("the base input of the sibling family was rejected".to_string());
                        continue;
                    };
                    for a in 0..additions.len() {
                        for b in a..additions.len() {
                            let mut text = String::from(gfx_base);
                            text.push_str(additions[a].1);
                            if b != a {
                                text.push_str(additions[b].1);
                            }
                            let s1 = mk(&text);
                            ctx.eval();
                            match build_files(&s1, ptrw) {
                                Err(e) if e.stage == Stage::Panic => ctx.violation("C19/panic", &e.msg, json!({"S": case_json(&s0, ptrw), "S_prime": case_json(&s1, ptrw)})),
                                Err(_) => skipped += 1,
                                Ok(o2) => {
                                    compared += 1;
                                    ctx.nontrivial(crate::rng::fnv(format!("sibling{style}{ptrw}{gfx_first}{a}{b}").as_bytes()));
                                    if base.get("ks_ui.rs") != o2.get("ks_ui.rs") {
                                        let x: BTreeMap<String, String> = base.iter().filter(|(k, _)| *k == "ks_ui.rs").map(|(k, v)| (k.clone(), v.clone())).collect();
                                        let y: BTreeMap<String, String> = o2.iter().filter(|(k, _)| *k == "ks_ui.rs").map(|(k, v)| (k.clone(), v.clone())).collect();
                                        ctx.violation(
                                            "C19/output-changed/sibling-of-imported-item",
                                            &format!("adding {} (+{}) to the imported module changed the importer's file: {}", additions[a].0, additions[b].0, first_diff(&x, &y).unwrap_or_default()),
                                            json!({"observed_module": "ks_ui", "S": case_json(&s0, ptrw), "S_prime": case_json(&s1, ptrw)}),
                                        );
                                    }
                                }
                            }
                        }
                    }
                }
            }
        }
        // hand-written pairs (S, S') with the observed module's file
        {
            let pairs: Vec<(&str, Vec<(&str, &str)>, Vec<(&str, &str)>, &str)> = vec![
                (
                    "type-at-the-path-of-the-observed-module",
                    vec![("kz_a::Foo", "pub type Foo { pub y: u64, }\npub type Bar { pub f: *mut Foo, }")],
                    vec![("kz_a", "pub type Foo { pub x: u32, }")],
                    "kz_a/Foo.rs",
                ),
                (
                    "module-added-under-the-empty-path",
                    vec![("kz_m", "pub type Foo { pub x: u32, }\npub type Bar { pub f: Foo, }")],
                    vec![("", "pub type Foo { pub y: u64, }")],
                    "kz_m.rs",
                ),
                (
                    "type-at-the-path-of-an-imported-module",
                    vec![("kz_b::Inner", "pub type Item { pub y: u64, }"), ("kz_c", "use kz_b::Inner;\npub type Holder { pub i: *const Item, }")],
                    vec![("kz_b", "pub type Inner { pub x: u32, }\npub type Item { pub z: u16, }")],
                    "kz_c.rs",
                ),
            ];
            for (name, base_mods, added, file) in pairs {
                for ptrw in [4usize, 8] {
                    let parse = |t: &str| pyxis::parser::parse_str(t).expect("C19 pair parses");
                    let s0: Mods = base_mods.iter().map(|(p, t)| (if p.is_empty() { ItemPath::empty() } else { ItemPath::from(*p) }, parse(t))).collect();
                    let mut s1 = s0.clone();
                    s1.extend(added.iter().map(|(p, t)| (if p.is_empty() { ItemPath::empty() } else { ItemPath::from(*p) }, parse(t))));
                    ctx.eval();
                    let Ok(base) = build_files(&s0, ptrw) else {
                        ctx.inconclusive(format!("the base input of the pair {name} was rejected"));
                        continue;
                    };
                    for order in 0..2 {
                        let mut v = s1.clone();
                        if order == 1 {
                            v.reverse();
                        }
                        ctx.eval();
                        match build_files(&v, ptrw) {
                            Err(e) if e.stage == Stage::Panic => ctx.violation("C19/panic", &e.msg, json!({"S": case_json(&s0, ptrw), "S_prime": case_json(&v, ptrw)})),
                            Err(_) => skipped += 1,
                            Ok(o2) => {
                                compared += 1;
                                ctx.nontrivial(crate::rng::fnv(format!("pair{name}{ptrw}{order}").as_bytes()));
                                if base.get(file) != o2.get(file) {
                                    let x: BTreeMap<String, String> = base.iter().filter(|(k, _)| k.as_str() == file).map(|(k, v)| (k.clone(), v.clone())).collect();
                                    let y: BTreeMap<String, String> = o2.iter().filter(|(k, _)| k.as_str() == file).map(|(k, v)| (k.clone(), v.clone())).collect();
                                    ctx.violation(
                                        &format!("C19/output-changed/{name}"),
                                        &format!("adding a module the observed one neither imports nor references changed `{file}`: {}", first_diff(&x, &y).unwrap_or_default()),
                                        json!({"observed_file": file, "S": case_json(&s0, ptrw), "S_prime": case_json(&v, ptrw)}),
                                    );
                                }
                            }
                        }
                    }
                }
            }
        }
        ctx.count("pairs_compared/sibling-of-imported-item", compared);
        ctx.count("variants_rejected_skipped", skipped);
        if compared < 100 {
            ctx.inconclusive(format!("only {compared} sibling pairs were accepted"));
        }
    }
    let mut agg: BTreeMap<&'static str, u64> = BTreeMap::new();
    for r in results {
        ctx.evals(r.evals);
        ctx.count("variants_rejected_skipped", r.skipped);
        for p in r.pairs {
            ctx.nontrivial(p);
        }
        for (k, v) in r.per_variant {
            *agg.entry(k).or_insert(0) += v;
        }
        if let Some(s) = r.sample {
            ctx.sample(s);
        }
        for (sig, detail, case) in r.bad {
            ctx.violation(&sig, &detail, case);
        }
    }
    for (k, v) in agg {
        ctx.count(&format!("pairs_compared/{k}"), v);
    }
    if ctx.distinct_count() < ctx.tier.pick(60, 600) {
        ctx.inconclusive(format!("only {} accepted (S, S') pairs", ctx.distinct_count()));
    }
}

pub fn replay(ctx: &mut Ctx, which: &str, case: &Value) {
    ctx.eval();
    let (ka, kb) = if which == "C20" { ("original", "rewritten") } else { ("S", "S_prime") };
    let Ok((a, ptrw)) = mods_from_case(&case[ka]) else {
        ctx.inconclusive("replay case does not parse");
        return;
    };
    let fa = build_files(&a, ptrw);
    let fb = if let Some(texts) = case["rewritten_texts"].as_array() {
        let files: Vec<(String, String)> = texts
            .iter()
            .filter_map(|p| Some((p[0].as_str()?.to_string(), p[1].as_str()?.to_string())))
            .collect();
        drive::build_texts(&files, ptrw, Opts::default()).result.map(|ok| ok.files)
    } else {
        match mods_from_case(&case[kb]) {
            Ok((b, _)) => build_files(&b, ptrw),
            Err(_) => {
                ctx.inconclusive("replay case does not parse");
                return;
            }
        }
    };
    match (fa, fb) {
        (Ok(x), Ok(y)) => {
            if which == "C20" {
                if let Some(d) = first_diff(&x, &y) {
                    ctx.violation("C20/output-differs/replay", &d, case.clone());
                }
            } else {
                let m = case["observed_module"].as_str().unwrap_or("");
                let f = format!("{}.rs", m.replace("::", "/"));
                if x.get(&f) != y.get(&f) {
                    ctx.violation("C19/output-changed/replay", &f, case.clone());
                }
            }
        }
        (Ok(_), Err(e)) if which == "C20" => ctx.violation("C20/rewritten-rejected/replay", &e.msg, case.clone()),
        _ => println!("replay: one of the builds is rejected"),
    }
}
