//! Probe crates (layer L2): emitted files + appended probe code + runtime,
//! compiled with the real compiler and executed natively / under valgrind /
//! ASan / Miri; the JSONL observation log is parsed back.

use crate::drive::Scratch;
use serde_json::Value;
use std::collections::BTreeMap;
use std::path::{Path, PathBuf};
use std::process::{Command, Stdio};
use std::time::{Duration, Instant};

pub const RT_SRC: &str = include_str!("../../probe_rt/rt.rs");

/// Host rustc rejects thiscall/stdcall/fastcall/vectorcall (E0570/E0658) on
/// x86_64-linux: for host builds every ABI string becomes "C". The original
/// text is what C16 inspects.
pub fn abi_normalise(text: &str) -> String {
    let mut out = text.to_string();
    for cc in ["thiscall", "stdcall", "fastcall", "vectorcall", "cdecl", "system"] {
        out = out.replace(&format!("extern \"{cc}\""), "extern \"C\"");
    }
    out
}

#[derive(Default)]
pub struct ModuleFile {
    /// emitted text (ABI-normalised by the caller when building for the host)
    pub emitted: String,
    /// extra items appended inside the module (extern type definitions, stubs)
    pub extra: String,
    /// numbered probe steps: (step id, native only, body)
    pub steps: Vec<(u64, bool, String)>,
}

pub struct ProbeCrate {
    pub modules: BTreeMap<String, ModuleFile>,
    pub next_step: u64,
    /// when false no `main`, no runtime: a lib crate for type-checking only
    pub with_runtime: bool,
}

#[derive(Debug, Clone)]
pub struct ToolResult {
    pub ok: bool,
    pub code: Option<i32>,
    pub signal: Option<i32>,
    pub stdout: String,
    pub stderr: String,
    pub timed_out: bool,
    pub wall: f64,
}

pub fn run_tool(cmd: &mut Command, timeout: Duration) -> ToolResult {
    use std::io::Read;
    use std::os::unix::process::ExitStatusExt;
    let start = Instant::now();
    cmd.stdin(Stdio::null()).stdout(Stdio::piped()).stderr(Stdio::piped());
    let mut child = match cmd.spawn() {
        Ok(c) => c,
        Err(e) => {
            return ToolResult {
                ok: false,
                code: None,
                signal: None,
                stdout: String::new(),
                stderr: format!("spawn failed: {e}"),
                timed_out: false,
                wall: 0.0,
            }
        }
    };
    let mut so = child.stdout.take().unwrap();
    let mut se = child.stderr.take().unwrap();
    let t1 = std::thread::spawn(move || {
        let mut b = Vec::new();
        let _ = so.read_to_end(&mut b);
        b
    });
    let t2 = std::thread::spawn(move || {
        let mut b = Vec::new();
        let _ = se.read_to_end(&mut b);
        b
    });
    let mut timed_out = false;
    let status = loop {
        match child.try_wait() {
            Ok(Some(s)) => break Some(s),
            Ok(None) => {
                if start.elapsed() > timeout {
                    let _ = child.kill();
                    timed_out = true;
                    break child.wait().ok();
                }
                std::thread::sleep(Duration::from_millis(5));
            }
            Err(_) => break None,
        }
    };
    let stdout = String::from_utf8_lossy(&t1.join().unwrap_or_default()).into_owned();
    let stderr = String::from_utf8_lossy(&t2.join().unwrap_or_default()).into_owned();
    ToolResult {
        ok: status.map(|s| s.success()).unwrap_or(false) && !timed_out,
        code: status.and_then(|s| s.code()),
        signal: status.and_then(|s| s.signal()),
        stdout,
        stderr,
        timed_out,
        wall: start.elapsed().as_secs_f64(),
    }
}

impl ProbeCrate {
    pub fn new() -> ProbeCrate {
        ProbeCrate {
            modules: BTreeMap::new(),
            next_step: 1,
            with_runtime: true,
        }
    }

    pub fn module(&mut self, path: &str) -> &mut ModuleFile {
        self.modules.entry(path.to_string()).or_default()
    }

    pub fn add_step(&mut self, module: &str, native_only: bool, body: String) -> u64 {
        let n = self.next_step;
        self.next_step += 1;
        self.module(module).steps.push((n, native_only, body));
        n
    }

    /// Write the crate to `dir` (src/main.rs or src/lib.rs + module files).
    pub fn write(&self, dir: &Path) -> PathBuf {
        let src = dir.join("src");
        std::fs::create_dir_all(&src).unwrap();
        // make sure every ancestor module exists
        let mut all: BTreeMap<String, String> = BTreeMap::new();
        for (path, mf) in &self.modules {
            let mut text = mf.emitted.clone();
            text.push_str("\n// ---- appended by the probe builder ----\n");
            text.push_str(&mf.extra);
            if self.with_runtime {
                text.push_str("\n#[allow(unused, clippy::all)]\npub fn __probe_steps(__start: ::core::primitive::u64) {\n");
                for (n, native_only, body) in &mf.steps {
                    text.push_str(&format!(
                        "    crate::rt::step({n}, __start, {native_only}, || {{\n{body}\n    }});\n"
                    ));
                }
                text.push_str("}\n");
            }
            all.insert(path.clone(), text);
            let mut p = path.as_str();
            while let Some(i) = p.rfind("::") {
                p = &p[..i];
                all.entry(p.to_string()).or_insert_with(|| {
                    let mut t = String::from("#![allow(warnings)]\n");
                    if self.with_runtime {
                        t.push_str("pub fn __probe_steps(__start: ::core::primitive::u64) {}\n");
                    }
                    t
                });
            }
        }
        // children declarations
        let paths: Vec<String> = all.keys().cloned().collect();
        let file_of = |p: &str| src.join(format!("{}.rs", p.replace("::", "__")));
        for p in &paths {
            if let Some(i) = p.rfind("::") {
                let parent = &p[..i];
                let child = &p[i + 2..];
                let decl = format!("\n#[path = {:?}]\npub mod {};\n", file_of(p).display().to_string(), child);
                all.get_mut(parent).unwrap().push_str(&decl);
            }
        }
        for (p, text) in &all {
            std::fs::write(file_of(p), text).unwrap();
        }
        let mut root = String::from("#![allow(warnings)]\n#![allow(clippy::all)]\n");
        for p in paths.iter().filter(|p| !p.contains("::")) {
            root.push_str(&format!("#[path = {:?}]\npub mod {};\n", file_of(p).display().to_string(), p));
        }
        let root_path;
        if self.with_runtime {
            std::fs::write(src.join("rt.rs"), RT_SRC).unwrap();
            root.push_str("pub mod rt;\n");
            root.push_str("fn main() {\n    rt::init();\n    let start = rt::start_arg();\n");
            // deterministic order: by first step id
            let mut order: Vec<(&String, u64)> = self
                .modules
                .iter()
                .map(|(p, m)| (p, m.steps.first().map(|s| s.0).unwrap_or(u64::MAX)))
                .collect();
            order.sort_by_key(|x| x.1);
            for (p, _) in order {
                root.push_str(&format!("    crate::{}::__probe_steps(start);\n", p));
            }
            root.push_str("    rt::out(\"{\\\"k\\\":\\\"done\\\"}\");\n}\n");
            root_path = src.join("main.rs");
        } else {
            root_path = src.join("lib.rs");
        }
        std::fs::write(&root_path, root).unwrap();
        std::fs::write(
            dir.join("Cargo.toml"),
            format!(
                "[package]\nname = \"probe\"\nversion = \"0.0.0\"\nedition = \"2021\"\n\n[workspace]\n\n[profile.dev]\ndebug = 0\n{}",
                if self.with_runtime { "" } else { "[lib]\npath = \"src/lib.rs\"\n" }
            ),
        )
        .unwrap();
        root_path
    }
}

/// Run a compiler command; a failure that carries no diagnostic at all (killed, empty
/// stderr: seen on a heavily loaded machine) is repeated up to three times.
pub fn run_compiler(mut make: impl FnMut() -> Command, timeout: Duration) -> ToolResult {
    let mut r = run_tool(&mut make(), timeout);
    for attempt in 0..3u64 {
        let spurious = !r.ok && !r.timed_out && (r.signal.is_some() || !r.stderr.contains("error"));
        if !spurious {
            break;
        }
        std::thread::sleep(Duration::from_millis(500 * (attempt + 1)));
        r = run_tool(&mut make(), timeout);
    }
    r
}

pub fn rustc_stable() -> Command {
    let mut c = Command::new("rustc");
    c.env("RUSTUP_TOOLCHAIN", "stable");
    c
}

/// Type-check only (C13 stage A): `rustc --emit=metadata`.
pub fn check_metadata(root: &Path, out_dir: &Path, lib: bool) -> ToolResult {
    run_compiler(
        || {
            let mut c = rustc_stable();
            c.arg("--edition=2021")
                .arg("--emit=metadata")
                .arg("--crate-type")
                .arg(if lib { "lib" } else { "bin" })
                .arg("--crate-name=probe")
                .arg("-Awarnings")
                .arg("--error-format=short")
                .arg("--out-dir")
                .arg(out_dir)
                .arg(root);
            c
        },
        Duration::from_secs(300),
    )
}

/// Native debug build with overflow and alignment checks on.
pub fn build_native(root: &Path, out: &Path) -> ToolResult {
    run_compiler(
        || {
            let mut c = rustc_stable();
            c.arg("--edition=2021")
                .arg("--crate-type=bin")
                .arg("--crate-name=probe")
                .arg("-Copt-level=0")
                .arg("-Cdebug-assertions=on")
                .arg("-Coverflow-checks=on")
                .arg("-Cdebuginfo=1")
                .arg("-Awarnings")
                .arg("--error-format=short")
                .arg("-o")
                .arg(out)
                .arg(root);
            c
        },
        Duration::from_secs(600),
    )
}

pub fn build_asan(root: &Path, out: &Path) -> ToolResult {
    let mut c = Command::new("rustc");
    c.env("RUSTUP_TOOLCHAIN", "nightly");
    c.arg("--edition=2021")
        .arg("--crate-type=bin")
        .arg("--crate-name=probe")
        .arg("-Copt-level=0")
        .arg("-Cdebug-assertions=on")
        .arg("-Zsanitizer=address")
        .arg("-Cforce-frame-pointers=yes")
        .arg("--target=x86_64-unknown-linux-gnu")
        .arg("-Awarnings")
        .arg("--error-format=short")
        .arg("-o")
        .arg(out)
        .arg(root);
    run_tool(&mut c, Duration::from_secs(600))
}

#[derive(Debug, Clone, Default)]
pub struct StepLog {
    pub began: bool,
    pub ended: bool,
    pub panic: Option<String>,
    pub events: Vec<Value>,
}

#[derive(Debug, Clone, Default)]
pub struct RunLog {
    pub steps: BTreeMap<u64, StepLog>,
    /// steps during which the process died: (step, description)
    pub crashes: Vec<(u64, String)>,
    pub done: bool,
    /// raw stderr of each run (attribution markers `@@step N` included)
    pub tool_reports: Vec<String>,
    /// (step the report belongs to, report text) after tool-specific parsing
    pub reports: Vec<(Option<u64>, String)>,
    pub restarts: usize,
    pub inconclusive: Option<String>,
    pub wall: f64,
}

fn absorb(log: &mut RunLog, stdout: &str) -> Option<u64> {
    // returns the last step that began without ending
    let mut open: Option<u64> = None;
    for line in stdout.lines() {
        let Ok(v) = serde_json::from_str::<Value>(line) else { continue };
        let k = v["k"].as_str().unwrap_or("");
        if k == "done" {
            log.done = true;
            continue;
        }
        let Some(step) = v["step"].as_u64() else { continue };
        let e = log.steps.entry(step).or_default();
        match k {
            "begin" => {
                e.began = true;
                open = Some(step);
            }
            "end" => {
                e.ended = true;
                open = None;
            }
            "panic" => {
                e.panic = Some(v["msg"].as_str().unwrap_or("").to_string());
                e.ended = true;
                open = None;
            }
            _ => e.events.push(v),
        }
    }
    open
}

/// Run a probe binary to completion, restarting after the step that killed it.
pub fn run_probe(mut make_cmd: impl FnMut(u64) -> Command, last_step: u64, per_run_timeout: Duration) -> RunLog {
    let mut log = RunLog::default();
    let mut start = 0u64;
    let t0 = Instant::now();
    for _ in 0..200 {
        let mut cmd = make_cmd(start);
        let r = run_tool(&mut cmd, per_run_timeout);
        let open = absorb(&mut log, &r.stdout);
        if !r.stderr.trim().is_empty() {
            // sanitizer / valgrind reports arrive on stderr
            log.tool_reports.push(r.stderr.clone());
        }
        if r.timed_out {
            match open {
                Some(s) => {
                    log.crashes.push((s, "watchdog timeout".into()));
                    log.inconclusive = Some(format!("watchdog fired in step {s}"));
                }
                None => log.inconclusive = Some("watchdog fired".into()),
            }
            break;
        }
        if log.done {
            break;
        }
        match open {
            Some(s) => {
                log.crashes.push((
                    s,
                    format!("process died: code {:?} signal {:?}", r.code, r.signal),
                ));
                log.restarts += 1;
                start = s + 1;
                if start > last_step {
                    break;
                }
            }
            None => {
                log.inconclusive = Some(format!(
                    "probe ended without done marker: code {:?} signal {:?} stderr {}",
                    r.code,
                    r.signal,
                    crate::verdict::one_line(&r.stderr, 300)
                ));
                break;
            }
        }
    }
    log.wall = t0.elapsed().as_secs_f64();
    log
}

pub fn run_native(bin: &Path, last_step: u64) -> RunLog {
    let b = bin.to_path_buf();
    run_probe(
        move |start| {
            let mut c = Command::new(&b);
            c.arg(start.to_string());
            c
        },
        last_step,
        Duration::from_secs(120),
    )
}

pub fn run_valgrind(bin: &Path, last_step: u64) -> RunLog {
    let b = bin.to_path_buf();
    let mut log = run_probe(
        move |start| {
            let mut c = Command::new("valgrind");
            c.arg("--tool=memcheck")
                .arg("--error-exitcode=0")
                .arg("--leak-check=no")
                .arg("--smc-check=all")
                .arg("-q")
                .arg(&b)
                .arg(start.to_string());
            c
        },
        last_step,
        Duration::from_secs(600),
    );
    // keep only genuine memcheck error blocks, attributed to the step marker before them
    let joined = log.tool_reports.join("\n");
    log.reports = memcheck_errors(&joined);
    log
}

pub fn memcheck_errors(stderr: &str) -> Vec<(Option<u64>, String)> {
    let mut out: Vec<(Option<u64>, String)> = vec![];
    let mut cur: Option<(Option<u64>, String)> = None;
    let mut step: Option<u64> = None;
    for line in stderr.lines() {
        if let Some(n) = line.strip_prefix("@@step ") {
            if let Some(c) = cur.take() {
                out.push(c);
            }
            step = n.trim().parse().ok();
            continue;
        }
        let Some(rest) = line.strip_prefix("==") else { continue };
        let Some(idx) = rest.find("== ") else {
            // "==123==" alone ends a block
            if let Some(c) = cur.take() {
                out.push(c);
            }
            continue;
        };
        let body = &rest[idx + 3..];
        let is_head = body.starts_with("Invalid ")
            || body.starts_with("Conditional jump")
            || body.starts_with("Use of uninitialised")
            || body.starts_with("Syscall param")
            || body.starts_with("Jump to the invalid address")
            || body.starts_with("Process terminating")
            || body.starts_with("Mismatched free")
            || body.starts_with("Source and destination overlap")
            || body.starts_with("Argument ");
        if is_head {
            if let Some(c) = cur.take() {
                out.push(c);
            }
            cur = Some((step, body.to_string()));
        } else if let Some(c) = cur.as_mut() {
            if c.1.len() < 1500 {
                c.1.push('\n');
                c.1.push_str(body);
            }
        }
    }
    if let Some(c) = cur.take() {
        out.push(c);
    }
    out
}

fn last_step_before(text: &str, pos: usize) -> Option<u64> {
    let head = &text[..pos.min(text.len())];
    let i = head.rfind("@@step ")?;
    head[i + 7..].lines().next()?.trim().parse().ok()
}

pub fn run_asan(bin: &Path, last_step: u64) -> RunLog {
    let b = bin.to_path_buf();
    let mut log = run_probe(
        move |start| {
            let mut c = Command::new(&b);
            c.env("ASAN_OPTIONS", "halt_on_error=1:abort_on_error=0:detect_leaks=0:exitcode=99");
            c.arg(start.to_string());
            c
        },
        last_step,
        Duration::from_secs(300),
    );
    let joined = log.tool_reports.join("\n");
    let mut pos = 0usize;
    for block in joined.split("=================================================================") {
        if block.contains("ERROR: AddressSanitizer") {
            log.reports.push((last_step_before(&joined, pos), crate::verdict::one_line(block.trim(), 1500)));
        }
        pos += block.len() + 65;
    }
    log
}

static MIRI_SLOTS: std::sync::Mutex<usize> = std::sync::Mutex::new(0);
static MIRI_CV: std::sync::Condvar = std::sync::Condvar::new();
const MIRI_MAX_PARALLEL: usize = 6;

/// `cargo +nightly miri run` in the crate directory. At most MIRI_MAX_PARALLEL run at a
/// time; a run that produced no step at all (tool start-up failure under load) is
/// repeated once before it counts as inconclusive.
pub fn run_miri(crate_dir: &Path, last_step: u64, target_dir: &Path) -> RunLog {
    {
        let mut n = MIRI_SLOTS.lock().unwrap();
        while *n >= MIRI_MAX_PARALLEL {
            n = MIRI_CV.wait(n).unwrap();
        }
        *n += 1;
    }
    let mut log = run_miri_once(crate_dir, last_step, target_dir);
    for attempt in 0..3 {
        if !(log.steps.is_empty() && log.reports.is_empty() && log.inconclusive.is_some()) {
            break;
        }
        std::thread::sleep(Duration::from_secs(2 + attempt * 3));
        log = run_miri_once(crate_dir, last_step, target_dir);
    }
    {
        let mut n = MIRI_SLOTS.lock().unwrap();
        *n -= 1;
        MIRI_CV.notify_one();
    }
    log
}

fn run_miri_once(crate_dir: &Path, last_step: u64, target_dir: &Path) -> RunLog {
    let d = crate_dir.to_path_buf();
    let td = target_dir.to_path_buf();
    let mut log = run_probe(
        move |start| {
            let mut c = Command::new("cargo");
            c.current_dir(&d)
                .env("RUSTUP_TOOLCHAIN", "nightly")
                .env("CARGO_NET_OFFLINE", "true")
                .env("CARGO_TARGET_DIR", &td)
                .env(
                    "MIRIFLAGS",
                    "-Zmiri-symbolic-alignment-check -Zmiri-disable-isolation",
                )
                .env("RUSTFLAGS", "-Awarnings")
                .arg("miri")
                .arg("run")
                .arg("--offline")
                .arg("-q")
                .arg("--")
                .arg(start.to_string());
            c
        },
        last_step,
        Duration::from_secs(1800),
    );
    let joined = log.tool_reports.join("\n");
    let mut pos = 0usize;
    for (i, block) in joined.split("\nerror").enumerate() {
        if i > 0
            && (block.contains("Undefined Behavior")
                || block.contains("unsupported operation")
                || block.contains("memory leaked")
                || block.contains("post-monomorphization")
                || block.contains("the evaluated program"))
        {
            log.reports.push((last_step_before(&joined, pos), crate::verdict::one_line(&format!("error{block}"), 1500)));
        }
        pos += block.len() + 6;
    }
    if log.reports.is_empty() && !log.done && log.inconclusive.is_none() && log.crashes.is_empty() {
        log.inconclusive = Some(format!("miri did not finish: {}", crate::verdict::one_line(&joined, 400)));
    }
    log
}

pub fn scratch(label: &str) -> Scratch {
    Scratch::new(label)
}

/// Numeric events of one step by name.
pub fn vals(step: &StepLog) -> BTreeMap<String, i128> {
    let mut m = BTreeMap::new();
    for e in &step.events {
        if e["k"] == "val" {
            if let Some(n) = e["name"].as_str() {
                let v = e["v"].as_i64().map(|x| x as i128).or_else(|| e["v"].as_u64().map(|x| x as i128));
                if let Some(v) = v {
                    m.insert(n.to_string(), v);
                }
            }
        }
    }
    m
}
