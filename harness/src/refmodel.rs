//! Independent reference semantics, written from the property statements.
//!
//! Layout: fields are laid out at their declared address or directly after their
//! predecessor; the realisability predicate of C03; sizes of built-ins, pointers
//! and arrays. Nothing in here calls into pyxis' semantic layer.

use pyxis::grammar::{self, Attribute, Attributes, Expr, Type, TypeDefinition, TypeField};

#[derive(Clone, Copy, Debug, PartialEq, Eq)]
pub struct Sz {
    pub size: usize,
    pub align: usize,
}

pub fn builtin(name: &str) -> Option<Sz> {
    let s = match name {
        "void" => return Some(Sz { size: 0, align: 1 }),
        "bool" | "u8" | "i8" => 1,
        "u16" | "i16" => 2,
        "u32" | "i32" | "f32" => 4,
        "u64" | "i64" | "f64" => 8,
        "u128" | "i128" => 16,
        _ => return None,
    };
    Some(Sz { size: s, align: s })
}

pub const BUILTIN_NAMES: &[&str] = &[
    "void", "bool", "u8", "u16", "u32", "u64", "u128", "i8", "i16", "i32", "i64", "i128", "f32", "f64",
];

/// Size/alignment of a type expression. `names` resolves by-value user names.
pub fn type_sz(t: &Type, ptrw: usize, names: &dyn Fn(&str) -> Option<Sz>) -> Option<Sz> {
    match t {
        Type::ConstPointer(_) | Type::MutPointer(_) => Some(Sz {
            size: ptrw,
            align: ptrw,
        }),
        Type::Array(inner, n) => {
            let e = type_sz(inner, ptrw, names)?;
            Some(Sz {
                size: e.size.checked_mul(*n)?,
                align: e.align,
            })
        }
        // the resolver knows the scoping rules (a type imported by name beats a built-in); the
        // built-in table is the fallback for callers without one
        Type::Ident(id) => names(id.as_str()).or_else(|| builtin(id.as_str())),
        Type::Unknown(n) => Some(Sz { size: *n, align: 1 }),
    }
}

pub fn attr_int(attrs: &Attributes, name: &str) -> Option<isize> {
    let mut out = None;
    for a in attrs {
        if let Attribute::Function(id, args) = a {
            if id.as_str() == name {
                if let [Expr::IntLiteral(v)] = args.as_slice() {
                    out = Some(*v);
                }
            }
        }
    }
    out
}

pub fn attr_flag(attrs: &Attributes, name: &str) -> bool {
    attrs
        .into_iter()
        .any(|a| matches!(a, Attribute::Ident(id) if id.as_str() == name))
}

pub fn attr_str(attrs: &Attributes, name: &str) -> Option<String> {
    let mut out = None;
    for a in attrs {
        if let Attribute::Function(id, args) = a {
            if id.as_str() == name {
                if let [Expr::StringLiteral(v)] = args.as_slice() {
                    out = Some(v.clone());
                }
            }
        }
    }
    out
}

#[derive(Clone, Debug, PartialEq, Eq)]
pub enum MemberKind {
    VftablePtr,
    Gap,
    /// index into the type's statement list
    Field(usize),
}

#[derive(Clone, Debug, PartialEq, Eq)]
pub struct Member {
    pub kind: MemberKind,
    pub name: Option<String>,
    pub offset: usize,
    pub size: usize,
    pub align: usize,
}

#[derive(Clone, Debug, PartialEq, Eq)]
pub enum Reject {
    Overlap { field: String, address: usize, end: usize },
    PackedAndAlign,
    AlignNotPow2(usize),
    AlignTooSmall { align: usize, needed: usize },
    Misaligned { field: String, offset: usize, align: usize },
    SizeNotMultiple { size: usize, align: usize },
    SizeExceeded { size: usize, declared: usize },
    Unresolvable(String),
    NegativeAttr(&'static str),
}

impl Reject {
    pub fn class(&self) -> &'static str {
        match self {
            Reject::Overlap { .. } => "overlap",
            Reject::PackedAndAlign => "packed-and-align",
            Reject::AlignNotPow2(_) => "align-not-pow2",
            Reject::AlignTooSmall { .. } => "align-too-small",
            Reject::Misaligned { .. } => "misaligned-field",
            Reject::SizeNotMultiple { .. } => "size-not-multiple-of-align",
            Reject::SizeExceeded { .. } => "size-exceeded",
            Reject::Unresolvable(_) => "unresolvable",
            Reject::NegativeAttr(_) => "negative-attr",
        }
    }
}

#[derive(Clone, Debug, PartialEq, Eq)]
pub struct Layout {
    pub size: usize,
    pub align: usize,
    pub packed: bool,
    pub members: Vec<Member>,
}

/// The realisability predicate of C03 / the reference layout.
///
/// `vftable_ptr`: the type gets its own pointer-sized vftable field at offset 0
/// (declares a vftable block and no first base supplies one).
pub fn layout_type(
    td: &TypeDefinition,
    ptrw: usize,
    vftable_ptr: bool,
    names: &dyn Fn(&str) -> Option<Sz>,
) -> Result<Layout, Reject> {
    let mut cur = 0usize;
    let mut members: Vec<Member> = vec![];
    if vftable_ptr {
        members.push(Member {
            kind: MemberKind::VftablePtr,
            name: Some("vftable".into()),
            offset: 0,
            size: ptrw,
            align: ptrw,
        });
        cur = ptrw;
    }
    for (idx, st) in td.statements.iter().enumerate() {
        let TypeField::Field(_, name, ty) = &st.field else {
            continue;
        };
        let address = match attr_int(&st.attributes, "address") {
            Some(a) if a < 0 => return Err(Reject::NegativeAttr("address")),
            Some(a) => Some(a as usize),
            None => None,
        };
        let sz = type_sz(ty, ptrw, names).ok_or_else(|| Reject::Unresolvable(name.0.clone()))?;
        if let Some(a) = address {
            if a < cur {
                return Err(Reject::Overlap {
                    field: name.0.clone(),
                    address: a,
                    end: cur,
                });
            }
            if a > cur {
                members.push(Member {
                    kind: MemberKind::Gap,
                    name: None,
                    offset: cur,
                    size: a - cur,
                    align: 1,
                });
                cur = a;
            }
        }
        let zero_len_array = sz.size == 0 && matches!(ty, Type::Array(..) | Type::Unknown(_));
        if !zero_len_array {
            members.push(Member {
                // `Gap` is reserved for padding the layout rule itself inserts
                kind: MemberKind::Field(idx),
                name: (name.as_str() != "_").then(|| name.0.clone()),
                offset: cur,
                size: sz.size,
                align: sz.align,
            });
        }
        cur += sz.size;
    }
    let declared_size = match attr_int(&td.attributes, "size") {
        Some(v) if v < 0 => return Err(Reject::NegativeAttr("size")),
        Some(v) => Some(v as usize),
        None => None,
    };
    if let Some(n) = declared_size {
        if cur > n {
            return Err(Reject::SizeExceeded {
                size: cur,
                declared: n,
            });
        }
        if cur < n {
            members.push(Member {
                kind: MemberKind::Gap,
                name: None,
                offset: cur,
                size: n - cur,
                align: 1,
            });
            cur = n;
        }
    }
    let size = cur;
    let packed = attr_flag(&td.attributes, "packed");
    let declared_align = match attr_int(&td.attributes, "align") {
        Some(v) if v < 0 => return Err(Reject::NegativeAttr("align")),
        Some(v) => Some(v as usize),
        None => None,
    };
    if packed {
        if declared_align.is_some() {
            return Err(Reject::PackedAndAlign);
        }
        return Ok(Layout {
            size,
            align: 1,
            packed: true,
            members,
        });
    }
    let eff = declared_align.unwrap_or_else(|| {
        if members.len() == 1 {
            members[0].align
        } else {
            ptrw
        }
    });
    if eff == 0 || !eff.is_power_of_two() {
        return Err(Reject::AlignNotPow2(eff));
    }
    let needed = members.iter().map(|m| m.align).max().unwrap_or(1);
    if eff < needed {
        return Err(Reject::AlignTooSmall { align: eff, needed });
    }
    for m in &members {
        if m.offset % m.align != 0 {
            return Err(Reject::Misaligned {
                field: m.name.clone().unwrap_or_default(),
                offset: m.offset,
                align: m.align,
            });
        }
    }
    if size % eff != 0 {
        return Err(Reject::SizeNotMultiple { size, align: eff });
    }
    Ok(Layout {
        size,
        align: eff,
        packed: false,
        members,
    })
}

pub fn has_vftable_block(td: &TypeDefinition) -> bool {
    td.statements.iter().any(|s| s.field.is_vftable())
}

// ---------------------------------------------------------------------------
// small AST builders shared by generators

pub fn field(name: &str, ty: Type, address: Option<usize>, public: bool) -> grammar::TypeStatement {
    let mut st = grammar::TypeStatement::field(
        (
            if public { grammar::Visibility::Public } else { grammar::Visibility::Private },
            name,
        ),
        ty,
    );
    if let Some(a) = address {
        st.attributes = Attributes(vec![Attribute::address(a)]);
    }
    st
}

pub fn single_type_module(name: &str, td: TypeDefinition, public: bool) -> grammar::Module {
    grammar::Module::new().with_definitions([grammar::ItemDefinition::new(
        (
            if public { grammar::Visibility::Public } else { grammar::Visibility::Private },
            name,
        ),
        td,
    )])
}
