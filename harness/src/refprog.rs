//! Reference semantics for whole programs (several modules): name binding per
//! the scoping rules (C11), by-value size resolution with cycle detection (C10),
//! vftable ownership and slots (C04/C06), exposed method sets (C07).
//! Written from the property statements; independent of pyxis' semantic layer.

use crate::refmodel::{self, attr_flag, attr_int, builtin, Layout, Reject, Sz};
use pyxis::grammar::{
    Argument, EnumDefinition, Function, ItemDefinitionInner, ItemPath, Module, Type, TypeDefinition, TypeField,
    Visibility,
};
use std::cell::RefCell;
use std::collections::{BTreeMap, BTreeSet};

#[derive(Clone, Debug)]
pub enum Def<'a> {
    Type { td: &'a TypeDefinition, public: bool },
    Enum { ed: &'a EnumDefinition, public: bool },
    Extern { size: Option<isize>, align: Option<isize> },
}

pub struct Env<'a> {
    pub ptrw: usize,
    /// module path string -> module
    pub modules: BTreeMap<String, &'a Module>,
    /// full item path string -> definition (last declaration wins, duplicates recorded)
    pub defs: BTreeMap<String, Def<'a>>,
    pub duplicates: Vec<String>,
    sz_cache: RefCell<BTreeMap<String, Result<Sz, Unres>>>,
}

#[derive(Clone, Debug, PartialEq, Eq)]
pub enum Unres {
    /// a name in some field's type expression has no definition
    Undefined(String),
    /// by-value cycle
    Cycle(String),
    /// extern type without usable size/align
    BadExtern(String),
    /// layout itself rejected
    Layout(String),
}

#[derive(Clone, Debug, PartialEq, Eq)]
pub enum Bound {
    Builtin(String),
    Item(String),
}
impl Bound {
    pub fn path(&self) -> &str {
        match self {
            Bound::Builtin(s) | Bound::Item(s) => s,
        }
    }
}

pub fn join(module: &str, name: &str) -> String {
    if module.is_empty() {
        name.to_string()
    } else {
        format!("{module}::{name}")
    }
}

pub fn parent_of(path: &str) -> &str {
    match path.rfind("::") {
        Some(i) => &path[..i],
        None => "",
    }
}
pub fn last_of(path: &str) -> &str {
    match path.rfind("::") {
        Some(i) => &path[i + 2..],
        None => path,
    }
}

impl<'a> Env<'a> {
    pub fn new(mods: &'a [(ItemPath, Module)], ptrw: usize) -> Env<'a> {
        let mut modules = BTreeMap::new();
        let mut defs: BTreeMap<String, Def<'a>> = BTreeMap::new();
        let mut duplicates = vec![];
        for (path, m) in mods {
            let mp = path.to_string();
            modules.insert(mp.clone(), m);
            for d in &m.definitions {
                let full = join(&mp, d.name.as_str());
                let public = d.visibility == Visibility::Public;
                let def = match &d.inner {
                    ItemDefinitionInner::Type(td) => Def::Type { td, public },
                    ItemDefinitionInner::Enum(ed) => Def::Enum { ed, public },
                };
                if defs.insert(full.clone(), def).is_some() {
                    duplicates.push(full);
                }
            }
            for (name, attrs) in &m.extern_types {
                let full = join(&mp, name.as_str());
                let def = Def::Extern {
                    size: attr_int(attrs, "size"),
                    align: attr_int(attrs, "align"),
                };
                if defs.insert(full.clone(), def).is_some() {
                    duplicates.push(full);
                }
            }
        }
        Env {
            ptrw,
            modules,
            defs,
            duplicates,
            sz_cache: RefCell::new(BTreeMap::new()),
        }
    }

    /// The scoping rule of C11.
    pub fn bind(&self, module: &str, name: &str) -> Option<Bound> {
        let m = self.modules.get(module)?;
        // 1. imported by name with `use path::Type` — the last such import wins
        for u in m.uses.iter().rev() {
            let us = u.to_string();
            if self.defs.contains_key(&us) && last_of(&us) == name {
                return Some(Bound::Item(us));
            }
        }
        // 2. built-in
        if builtin(name).is_some() {
            return Some(Bound::Builtin(name.to_string()));
        }
        // 3. same module
        let own = join(module, name);
        if self.defs.contains_key(&own) {
            return Some(Bound::Item(own));
        }
        // 4. modules imported with `use path`, earlier imports first
        for u in m.uses.iter() {
            let us = u.to_string();
            if self.defs.contains_key(&us) {
                continue; // a type import, not a module import
            }
            let cand = join(&us, name);
            if self.defs.contains_key(&cand) {
                return Some(Bound::Item(cand));
            }
        }
        None
    }

    /// All names mentioned in a type expression (anywhere, incl. behind pointers).
    pub fn names_in(t: &Type, out: &mut Vec<String>) {
        match t {
            Type::ConstPointer(i) | Type::MutPointer(i) | Type::Array(i, _) => Self::names_in(i, out),
            Type::Ident(id) => out.push(id.0.clone()),
            Type::Unknown(_) => {}
        }
    }

    pub fn all_names_bound(&self, module: &str, t: &Type) -> Result<(), String> {
        let mut ns = vec![];
        Self::names_in(t, &mut ns);
        for n in ns {
            if self.bind(module, &n).is_none() {
                return Err(n);
            }
        }
        Ok(())
    }

    /// by-value size of a type expression used in `module`
    pub fn type_sz(&self, module: &str, t: &Type) -> Result<Sz, Unres> {
        let mut stack = vec![];
        self.type_sz_in(module, t, &mut stack)
    }

    fn type_sz_in(&self, module: &str, t: &Type, stack: &mut Vec<String>) -> Result<Sz, Unres> {
        match t {
            Type::ConstPointer(_) | Type::MutPointer(_) => {
                // the pointee must still be a defined name
                self.all_names_bound(module, t).map_err(Unres::Undefined)?;
                Ok(Sz {
                    size: self.ptrw,
                    align: self.ptrw,
                })
            }
            Type::Array(inner, n) => {
                let e = self.type_sz_in(module, inner, stack)?;
                Ok(Sz {
                    size: e.size.checked_mul(*n).ok_or_else(|| Unres::Layout("array size overflow".into()))?,
                    align: e.align,
                })
            }
            Type::Unknown(n) => Ok(Sz { size: *n, align: 1 }),
            Type::Ident(id) => match self.bind(module, id.as_str()) {
                None => Err(Unres::Undefined(id.0.clone())),
                Some(Bound::Builtin(b)) => Ok(builtin(&b).unwrap()),
                Some(Bound::Item(p)) => self.item_sz_in(&p, stack),
            },
        }
    }

    pub fn item_sz(&self, path: &str) -> Result<Sz, Unres> {
        let mut stack = vec![];
        self.item_sz_in(path, &mut stack)
    }

    fn item_sz_in(&self, path: &str, stack: &mut Vec<String>) -> Result<Sz, Unres> {
        if let Some(r) = self.sz_cache.borrow().get(path) {
            return r.clone();
        }
        if stack.iter().any(|p| p == path) {
            return Err(Unres::Cycle(path.to_string()));
        }
        stack.push(path.to_string());
        let r = self.item_sz_uncached(path, stack);
        stack.pop();
        // only definite successes are cached: an error may be relative to the entry point
        if r.is_ok() {
            self.sz_cache.borrow_mut().insert(path.to_string(), r.clone());
        }
        r
    }

    fn item_sz_uncached(&self, path: &str, stack: &mut Vec<String>) -> Result<Sz, Unres> {
        let module = parent_of(path).to_string();
        match self.defs.get(path) {
            None => Err(Unres::Undefined(path.to_string())),
            Some(Def::Extern { size, align }) => match (size, align) {
                (Some(s), Some(a)) if *s >= 0 && *a >= 0 => Ok(Sz {
                    size: *s as usize,
                    align: *a as usize,
                }),
                _ => Err(Unres::BadExtern(path.to_string())),
            },
            Some(Def::Enum { ed, .. }) => self.type_sz_in(&module, &ed.type_, stack),
            Some(Def::Type { td, .. }) => {
                // every field type must resolve (by value) first
                let mut sizes: BTreeMap<usize, Sz> = BTreeMap::new();
                for (i, st) in td.statements.iter().enumerate() {
                    if let TypeField::Field(_, _, t) = &st.field {
                        sizes.insert(i, self.type_sz_in(&module, t, stack)?);
                    }
                }
                let own_ptr = self.gets_own_vftable_ptr(path);
                let lay = self.layout_with(td, own_ptr, &module, stack);
                match lay {
                    Ok(l) => Ok(Sz {
                        size: l.size,
                        align: l.align,
                    }),
                    Err(r) => Err(Unres::Layout(format!("{r:?}"))),
                }
            }
        }
    }

    fn layout_with(&self, td: &TypeDefinition, own_ptr: bool, module: &str, stack: &mut Vec<String>) -> Result<Layout, Reject> {
        // names resolver through the binder; `stack` shared for cycle detection
        let stack_cell = RefCell::new(std::mem::take(stack));
        let names = |n: &str| -> Option<Sz> {
            match self.bind(module, n)? {
                Bound::Builtin(b) => builtin(&b),
                Bound::Item(p) => {
                    let mut s = stack_cell.borrow_mut();
                    self.item_sz_in(&p, &mut s).ok()
                }
            }
        };
        let r = refmodel::layout_type(td, self.ptrw, own_ptr, &names);
        *stack = stack_cell.into_inner();
        r
    }

    /// Reference layout of a type item (by full path).
    pub fn layout(&self, path: &str) -> Result<Layout, Reject> {
        let Some(Def::Type { td, .. }) = self.defs.get(path) else {
            return Err(Reject::Unresolvable(path.to_string()));
        };
        let module = parent_of(path).to_string();
        let mut stack = vec![path.to_string()];
        self.layout_with(td, self.gets_own_vftable_ptr(path), &module, &mut stack)
    }

    // ----- vftables ---------------------------------------------------------

    pub fn type_def(&self, path: &str) -> Option<&'a TypeDefinition> {
        match self.defs.get(path) {
            Some(Def::Type { td, .. }) => Some(td),
            _ => None,
        }
    }

    pub fn vftable_block(&self, path: &str) -> Option<(&'a [Function], Option<isize>)> {
        let td = self.type_def(path)?;
        for st in &td.statements {
            if let TypeField::Vftable(fs) = &st.field {
                return Some((fs.as_slice(), attr_int(&st.attributes, "size")));
            }
        }
        None
    }

    /// `#[base]` fields in declaration order: (field name, bound type path)
    pub fn bases(&self, path: &str) -> Vec<(String, Option<String>)> {
        let Some(td) = self.type_def(path) else { return vec![] };
        let module = parent_of(path);
        let mut out = vec![];
        for st in &td.statements {
            if let TypeField::Field(_, name, t) = &st.field {
                if attr_flag(&st.attributes, "base") {
                    let bound = match t {
                        Type::Ident(id) => match self.bind(module, id.as_str()) {
                            Some(Bound::Item(p)) => Some(p),
                            _ => None,
                        },
                        _ => None,
                    };
                    out.push((name.0.clone(), bound));
                }
            }
        }
        out
    }

    /// does the type have a vftable at all (own block, or through its first base)?
    pub fn has_vftable(&self, path: &str) -> bool {
        let mut seen = BTreeSet::new();
        self.has_vftable_in(path, &mut seen)
    }
    fn has_vftable_in(&self, path: &str, seen: &mut BTreeSet<String>) -> bool {
        if !seen.insert(path.to_string()) {
            return false;
        }
        if self.vftable_block(path).is_some() {
            return true;
        }
        match self.bases(path).first() {
            Some((_, Some(b))) => self.has_vftable_in(b, seen),
            _ => false,
        }
    }

    pub fn first_base_has_vftable(&self, path: &str) -> bool {
        match self.bases(path).first() {
            Some((_, Some(b))) => self.has_vftable(b),
            _ => false,
        }
    }

    /// the type declares a block and no first base supplies a vftable
    pub fn gets_own_vftable_ptr(&self, path: &str) -> bool {
        self.vftable_block(path).is_some() && !self.first_base_has_vftable(path)
    }

    /// Path of the type whose block defines the effective vftable of `path`.
    pub fn vftable_owner(&self, path: &str) -> Option<String> {
        if self.vftable_block(path).is_some() {
            return Some(path.to_string());
        }
        let mut cur = path.to_string();
        let mut guard = 0;
        loop {
            guard += 1;
            if guard > 64 {
                return None;
            }
            match self.bases(&cur).first() {
                Some((_, Some(b))) => {
                    if self.vftable_block(b).is_some() {
                        return Some(b.clone());
                    }
                    cur = b.clone();
                }
                _ => return None,
            }
        }
    }

    /// Offset chain of field names from `path` to the sub-object that physically
    /// stores the vftable pointer (empty = the type's own `vftable` field).
    pub fn vftable_ptr_chain(&self, path: &str) -> Option<Vec<String>> {
        let mut chain = vec![];
        let mut cur = path.to_string();
        for _ in 0..64 {
            if self.gets_own_vftable_ptr(&cur) {
                return Some(chain);
            }
            match self.bases(&cur).first() {
                Some((f, Some(b))) if self.has_vftable(b) => {
                    chain.push(f.clone());
                    cur = b.clone();
                }
                _ => return None,
            }
        }
        None
    }
}

/// One slot of the reference vftable model.
#[derive(Clone, Debug, PartialEq, Eq)]
pub enum Slot<'a> {
    Func(&'a Function),
    Placeholder,
}

#[derive(Clone, Debug, PartialEq, Eq)]
pub enum SlotErr {
    IndexBelowNext { func: String, index: isize, next: usize },
    SizeBelowUsed { size: isize, used: usize },
    NegativeIndex(isize),
    NegativeSize(isize),
}

/// A.4: slot assignment from `#[index]` / `#[size]`.
pub fn slots<'a>(functions: &'a [Function], size: Option<isize>) -> Result<Vec<Slot<'a>>, SlotErr> {
    let mut out: Vec<Slot<'a>> = vec![];
    for f in functions {
        if let Some(i) = attr_int(&f.attributes, "index") {
            if i < 0 {
                return Err(SlotErr::NegativeIndex(i));
            }
            let i = i as usize;
            if i < out.len() {
                return Err(SlotErr::IndexBelowNext {
                    func: f.name.0.clone(),
                    index: i as isize,
                    next: out.len(),
                });
            }
            while out.len() < i {
                out.push(Slot::Placeholder);
            }
        }
        out.push(Slot::Func(f));
    }
    if let Some(s) = size {
        if s < 0 {
            return Err(SlotErr::NegativeSize(s));
        }
        if (s as usize) < out.len() {
            return Err(SlotErr::SizeBelowUsed {
                size: s,
                used: out.len(),
            });
        }
        while out.len() < s as usize {
            out.push(Slot::Placeholder);
        }
    }
    Ok(out)
}

pub fn has_receiver(f: &Function) -> bool {
    f.arguments
        .iter()
        .any(|a| matches!(a, Argument::ConstSelf | Argument::MutSelf))
}

pub const CONVENTIONS: &[&str] = &["C", "cdecl", "stdcall", "fastcall", "thiscall", "vectorcall", "system"];

/// C16: the convention a function's fn-pointer must carry.
pub fn expected_convention(f: &Function) -> Result<String, String> {
    match refmodel::attr_str(&f.attributes, "calling_convention") {
        Some(cc) => {
            if CONVENTIONS.contains(&cc.as_str()) {
                Ok(cc)
            } else {
                Err(cc)
            }
        }
        None => Ok(if has_receiver(f) { "thiscall".into() } else { "system".into() }),
    }
}

// ---------------------------------------------------------------------------
// method sets (C07 / C17 / C16)

#[derive(Clone, Debug, PartialEq, Eq)]
pub enum MKind {
    /// declared in the type's own impl block with #[address]
    Own,
    /// re-exposed from base field `field`; calls `target` on it
    Forward { field: String, target: String },
}

#[derive(Clone, Debug)]
pub struct Method<'a> {
    pub name: String,
    pub func: &'a Function,
    pub kind: MKind,
    /// path of the type whose impl/vftable block declares `func`
    pub declared_in: String,
    /// true when `func` is a virtual function (forwarded from a non-first base)
    pub is_virtual_origin: bool,
}

impl<'a> Env<'a> {
    pub fn own_impl_functions(&self, path: &str) -> Vec<&'a Function> {
        let module = parent_of(path);
        let name = last_of(path);
        let Some(m) = self.modules.get(module) else { return vec![] };
        // every impl block of the type contributes, in source order
        let mut out: Vec<&'a Function> = vec![];
        for b in &m.impls {
            if b.name.as_str() == name {
                out.extend(b.functions.iter());
            }
        }
        out
    }

    /// Functions of the effective vftable of `path` (own block, else first base's), with
    /// the path of the type that declares the block.
    pub fn virtuals(&self, path: &str) -> Option<(String, &'a [Function], Option<isize>)> {
        let owner = self.vftable_owner(path)?;
        let (fs, size) = self.vftable_block(&owner)?;
        Some((owner, fs, size))
    }

    /// Associated (non-virtual-wrapper) methods the emitted impl of `path` must offer,
    /// in emission order: re-exposed base members first, then own impl functions.
    pub fn associated(&self, path: &str) -> Vec<Method<'a>> {
        let mut depth = 0;
        self.associated_in(path, &mut depth)
    }

    fn associated_in(&self, path: &str, depth: &mut usize) -> Vec<Method<'a>> {
        // `depth` is the depth of the recursion (a guard against cyclic base declarations), not
        // a budget of calls: diamond hierarchies visit the same type many times
        if *depth >= 64 {
            return vec![];
        }
        *depth += 1;
        let out = self.associated_at(path, depth);
        *depth -= 1;
        out
    }

    fn associated_at(&self, path: &str, depth: &mut usize) -> Vec<Method<'a>> {
        let mut used: BTreeSet<String> = BTreeSet::new();
        if let Some((_, fs, size)) = self.virtuals(path) {
            if let Ok(sl) = slots(fs, size) {
                for (i, s) in sl.iter().enumerate() {
                    match s {
                        Slot::Func(f) => {
                            used.insert(f.name.0.clone());
                        }
                        Slot::Placeholder => {
                            used.insert(format!("_vfunc_{i}"));
                        }
                    }
                }
            }
        }
        let mut out: Vec<Method<'a>> = vec![];
        for (i, (field, base)) in self.bases(path).iter().enumerate() {
            let Some(base) = base else { continue };
            let mut expose = |name_on_base: &str, func: &'a Function, declared_in: &str, virt: bool, out: &mut Vec<Method<'a>>| {
                if func.visibility != Visibility::Public {
                    return;
                }
                let name = if used.contains(name_on_base) {
                    format!("{field}_{name_on_base}")
                } else {
                    name_on_base.to_string()
                };
                used.insert(name.clone());
                out.push(Method {
                    name,
                    func,
                    kind: MKind::Forward {
                        field: field.clone(),
                        target: name_on_base.to_string(),
                    },
                    declared_in: declared_in.to_string(),
                    is_virtual_origin: virt,
                });
            };
            for m in self.associated_in(base, depth) {
                // a `_`-prefixed function declared on the base has no wrapper to forward to; a
                // forwarder that merely got its name from a `_`-prefixed base field has one
                if m.name.starts_with('_') && m.kind == MKind::Own {
                    continue;
                }
                expose(&m.name, m.func, &m.declared_in, m.is_virtual_origin, &mut out);
            }
            if i > 0 {
                if let Some((owner, fs, _)) = self.virtuals(base) {
                    for f in fs {
                        // a virtual function without receiver has no wrapper to forward to
                        if has_receiver(f) && !f.name.as_str().starts_with('_') {
                            expose(f.name.as_str(), f, &owner, true, &mut out);
                        }
                    }
                }
            }
        }
        for f in self.own_impl_functions(path) {
            out.push(Method {
                name: f.name.0.clone(),
                func: f,
                kind: MKind::Own,
                declared_in: path.to_string(),
                is_virtual_origin: false,
            });
        }
        out
    }
}

pub fn doc_lines(attrs: &pyxis::grammar::Attributes) -> Vec<String> {
    let mut out = vec![];
    for a in attrs {
        if let pyxis::grammar::Attribute::Assign(k, pyxis::grammar::Expr::StringLiteral(s)) = a {
            if k.as_str() == "doc" {
                for l in s.split('\n') {
                    out.push(l.to_string());
                }
            }
        }
    }
    out
}
