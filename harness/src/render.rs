//! Printer: `grammar::Module` -> concrete `.pyxis` text.
//!
//! Written from the language as the property texts describe it (C18), not from
//! the parser's code paths. A `Style` with an RNG chooses among equivalent
//! spellings (number bases, digit separators, attribute grouping, doc-comment
//! sugar, whitespace, comments, trailing separators); `Style::plain()` is the
//! deterministic canonical form used for replay files and byte-comparisons.

use crate::rng::Rng;
use pyxis::grammar::*;

#[derive(Clone, Debug)]
pub enum Tok {
    /// identifier, keyword or number
    Word(String),
    Punct(&'static str),
    /// complete string literal including quotes
    Str(String),
    /// a `///..` or `//!..` comment; must be followed by a newline
    DocLine(String),
}

pub struct Style<'a> {
    pub rng: Option<&'a mut Rng>,
    /// allow `-N` for negative integers (text is then *not* in the language)
    pub allow_negative: bool,
}

impl<'a> Style<'a> {
    pub fn plain() -> Style<'static> {
        Style {
            rng: None,
            allow_negative: true,
        }
    }
    pub fn random(rng: &'a mut Rng) -> Style<'a> {
        Style {
            rng: Some(rng),
            allow_negative: true,
        }
    }
    fn chance(&mut self, n: usize, d: usize) -> bool {
        match &mut self.rng {
            Some(r) => r.chance(n, d),
            None => false,
        }
    }
    fn below(&mut self, n: usize) -> usize {
        match &mut self.rng {
            Some(r) => r.below(n),
            None => 0,
        }
    }
}

fn w(s: &str) -> Tok {
    Tok::Word(s.to_string())
}
fn p(s: &'static str) -> Tok {
    Tok::Punct(s)
}

pub fn quote_str(s: &str, st: &mut Style) -> String {
    // raw string when possible and chosen
    let can_raw = !s.contains('\r');
    if can_raw && st.chance(1, 3) {
        let mut hashes = 0;
        loop {
            let close = format!("\"{}", "#".repeat(hashes));
            if !s.contains(&close) {
                break;
            }
            hashes += 1;
        }
        let h = "#".repeat(hashes);
        return format!("r{h}\"{s}\"{h}");
    }
    let mut out = String::from("\"");
    for c in s.chars() {
        match c {
            '"' => out.push_str("\\\""),
            '\\' => out.push_str("\\\\"),
            '\n' => out.push_str("\\n"),
            '\r' => out.push_str("\\r"),
            '\t' => out.push_str("\\t"),
            '\0' => out.push_str("\\0"),
            c if (c as u32) < 0x20 || c as u32 == 0x7f => {
                out.push_str(&format!("\\u{{{:x}}}", c as u32))
            }
            c => out.push(c),
        }
    }
    out.push('"');
    out
}

fn with_separators(digits: &str, st: &mut Style) -> String {
    if !st.chance(1, 3) {
        return digits.to_string();
    }
    let mut out = String::new();
    for (i, c) in digits.chars().enumerate() {
        if i > 0 && st.chance(1, 3) {
            out.push('_');
        }
        out.push(c);
    }
    if st.chance(1, 6) {
        out.push('_');
    }
    out
}

/// Spell a non-negative integer in a random base with random separators.
pub fn spell_uint(v: u128, st: &mut Style) -> String {
    match st.below(8) {
        0 | 1 => format!("0x{}", with_separators(&format!("{v:X}"), st)),
        2 => format!("0x{}", with_separators(&format!("{v:x}"), st)),
        3 => format!("0o{}", with_separators(&format!("{v:o}"), st)),
        4 => format!("0b{}", with_separators(&format!("{v:b}"), st)),
        _ => with_separators(&format!("{v}"), st),
    }
}

pub fn spell_int(v: isize, st: &mut Style) -> String {
    if v < 0 {
        // a negative literal is `-` directly followed by the magnitude in any base
        format!("-{}", spell_uint((v as i128).unsigned_abs(), st))
    } else {
        spell_uint(v as u128, st)
    }
}

pub fn type_toks(t: &Type, st: &mut Style, out: &mut Vec<Tok>) {
    match t {
        Type::ConstPointer(inner) => {
            out.push(p("*"));
            out.push(w("const"));
            type_toks(inner, st, out);
        }
        Type::MutPointer(inner) => {
            out.push(p("*"));
            out.push(w("mut"));
            type_toks(inner, st, out);
        }
        Type::Array(inner, n) => {
            out.push(p("["));
            type_toks(inner, st, out);
            out.push(p(";"));
            out.push(Tok::Word(spell_uint(*n as u128, st)));
            out.push(p("]"));
        }
        Type::Ident(id) => ident_type_toks(id.as_str(), out),
        Type::Unknown(n) => {
            out.push(w("unknown"));
            out.push(p("<"));
            out.push(Tok::Word(spell_uint(*n as u128, st)));
            out.push(p(">"));
        }
    }
}

/// A type name may carry the `Name<Arg>` spelling; split it into tokens.
fn ident_type_toks(name: &str, out: &mut Vec<Tok>) {
    let mut cur = String::new();
    for c in name.chars() {
        match c {
            '<' | '>' => {
                if !cur.is_empty() {
                    out.push(Tok::Word(std::mem::take(&mut cur)));
                }
                out.push(if c == '<' { p("<") } else { p(">") });
            }
            c => cur.push(c),
        }
    }
    if !cur.is_empty() {
        out.push(Tok::Word(cur));
    }
}

fn expr_toks(e: &Expr, st: &mut Style, out: &mut Vec<Tok>) {
    match e {
        Expr::IntLiteral(v) => out.push(Tok::Word(spell_int(*v, st))),
        Expr::StringLiteral(s) => out.push(Tok::Str(quote_str(s, st))),
        Expr::Ident(i) => out.push(w(i.as_str())),
    }
}

fn attr_body_toks(a: &Attribute, st: &mut Style, out: &mut Vec<Tok>) {
    match a {
        Attribute::Ident(i) => out.push(w(i.as_str())),
        Attribute::Function(i, args) => {
            out.push(w(i.as_str()));
            out.push(p("("));
            for (k, e) in args.iter().enumerate() {
                if k > 0 {
                    out.push(p(","));
                }
                expr_toks(e, st, out);
            }
            if !args.is_empty() && st.chance(1, 5) {
                out.push(p(","));
            }
            out.push(p(")"));
        }
        Attribute::Assign(i, e) => {
            out.push(w(i.as_str()));
            out.push(p("="));
            expr_toks(e, st, out);
        }
    }
}

fn doc_sugar_ok(a: &Attribute) -> Option<&str> {
    if let Attribute::Assign(i, Expr::StringLiteral(s)) = a {
        if i.as_str() == "doc"
            && !s.contains('\n')
            && !s.contains('\r')
            && !s.starts_with('/')
            && !s.contains('\u{2028}')
            && !s.contains('\u{2029}')
        {
            return Some(s.as_str());
        }
    }
    None
}

/// Attributes in order; consecutive ones may share a bracket; doc attributes may
/// become `///` (or `//!` at module level) lines.
pub fn attrs_toks(attrs: &Attributes, module_level: bool, st: &mut Style, out: &mut Vec<Tok>) {
    let items = &attrs.0;
    let mut i = 0;
    while i < items.len() {
        if let Some(text) = doc_sugar_ok(&items[i]) {
            // canonical style uses the sugar whenever possible; random style mixes
            let sugar = st.rng.is_none() || st.chance(2, 3);
            if sugar {
                let lead = if module_level { "//!" } else { "///" };
                out.push(Tok::DocLine(format!("{lead}{text}")));
                i += 1;
                continue;
            }
        }
        // group [i, j)
        let mut j = i + 1;
        while j < items.len() && st.chance(1, 2) {
            j += 1;
        }
        out.push(p("#"));
        if module_level {
            out.push(p("!"));
        }
        out.push(p("["));
        for k in i..j {
            if k > i {
                out.push(p(","));
            }
            attr_body_toks(&items[k], st, out);
        }
        if st.chance(1, 5) {
            out.push(p(","));
        }
        out.push(p("]"));
        i = j;
    }
}

fn vis_toks(v: Visibility, out: &mut Vec<Tok>) {
    if v == Visibility::Public {
        out.push(w("pub"));
    }
}

pub fn function_toks(f: &Function, st: &mut Style, out: &mut Vec<Tok>) {
    attrs_toks(&f.attributes, false, st, out);
    vis_toks(f.visibility, out);
    out.push(w("fn"));
    out.push(w(f.name.as_str()));
    out.push(p("("));
    for (k, a) in f.arguments.iter().enumerate() {
        if k > 0 {
            out.push(p(","));
        }
        match a {
            Argument::ConstSelf => {
                out.push(p("&"));
                out.push(w("self"));
            }
            Argument::MutSelf => {
                out.push(p("&"));
                out.push(w("mut"));
                out.push(w("self"));
            }
            Argument::Named(n, t) => {
                out.push(w(n.as_str()));
                out.push(p(":"));
                type_toks(t, st, out);
            }
        }
    }
    if !f.arguments.is_empty() && st.chance(1, 5) {
        out.push(p(","));
    }
    out.push(p(")"));
    if let Some(rt) = &f.return_type {
        out.push(p("->"));
        type_toks(rt, st, out);
    }
}

fn functions_block(fs: &[Function], st: &mut Style, out: &mut Vec<Tok>) {
    out.push(p("{"));
    for (k, f) in fs.iter().enumerate() {
        function_toks(f, st, out);
        if k + 1 < fs.len() || st.rng.is_none() || st.chance(4, 5) {
            out.push(p(";"));
        }
    }
    out.push(p("}"));
}

pub fn item_toks(d: &ItemDefinition, st: &mut Style, out: &mut Vec<Tok>) {
    match &d.inner {
        ItemDefinitionInner::Type(td) => {
            attrs_toks(&td.attributes, false, st, out);
            vis_toks(d.visibility, out);
            out.push(w("type"));
            out.push(w(d.name.as_str()));
            if td.statements.is_empty() && (st.rng.is_none() || st.chance(1, 2)) {
                out.push(p(";"));
                return;
            }
            out.push(p("{"));
            for (k, s) in td.statements.iter().enumerate() {
                attrs_toks(&s.attributes, false, st, out);
                match &s.field {
                    TypeField::Field(v, n, t) => {
                        vis_toks(*v, out);
                        out.push(w(n.as_str()));
                        out.push(p(":"));
                        type_toks(t, st, out);
                    }
                    TypeField::Vftable(fs) => {
                        out.push(w("vftable"));
                        functions_block(fs, st, out);
                    }
                }
                if k + 1 < td.statements.len() || st.rng.is_none() || st.chance(4, 5) {
                    out.push(p(","));
                }
            }
            out.push(p("}"));
        }
        ItemDefinitionInner::Enum(ed) => {
            attrs_toks(&ed.attributes, false, st, out);
            vis_toks(d.visibility, out);
            out.push(w("enum"));
            out.push(w(d.name.as_str()));
            out.push(p(":"));
            type_toks(&ed.type_, st, out);
            out.push(p("{"));
            for (k, s) in ed.statements.iter().enumerate() {
                attrs_toks(&s.attributes, false, st, out);
                out.push(w(s.name.as_str()));
                if let Some(e) = &s.expr {
                    out.push(p("="));
                    expr_toks(e, st, out);
                }
                if k + 1 < ed.statements.len() || st.rng.is_none() || st.chance(4, 5) {
                    out.push(p(","));
                }
            }
            out.push(p("}"));
        }
    }
}

fn backend_toks(b: &Backend, st: &mut Style, out: &mut Vec<Tok>) {
    out.push(w("backend"));
    out.push(w(b.name.as_str()));
    let pad = |s: &str, st: &mut Style| -> String {
        // surrounding whitespace is trimmed by the language
        let mut t = String::new();
        for _ in 0..st.below(3) {
            t.push_str(["\n", " ", "\t", "\n    "][st.below(4)]);
        }
        t.push_str(s);
        for _ in 0..st.below(3) {
            t.push_str(["\n", " ", "\t"][st.below(3)]);
        }
        t
    };
    let short = st.rng.is_some() && st.chance(1, 2);
    match (&b.prologue, &b.epilogue) {
        (Some(pr), None) if short => {
            out.push(w("prologue"));
            let s = pad(pr, st);
            out.push(Tok::Str(quote_str(&s, st)));
            out.push(p(";"));
        }
        (None, Some(ep)) if short => {
            out.push(w("epilogue"));
            let s = pad(ep, st);
            out.push(Tok::Str(quote_str(&s, st)));
            out.push(p(";"));
        }
        (pr, ep) => {
            out.push(p("{"));
            let mut parts: Vec<(&'static str, &String)> = vec![];
            if let Some(pr) = pr {
                parts.push(("prologue", pr));
            }
            if let Some(ep) = ep {
                parts.push(("epilogue", ep));
            }
            if parts.len() == 2 && st.chance(1, 2) {
                parts.swap(0, 1);
            }
            for (k, s) in parts {
                out.push(w(k));
                let s = pad(s, st);
                out.push(Tok::Str(quote_str(&s, st)));
                out.push(p(";"));
            }
            out.push(p("}"));
        }
    }
}

pub fn path_toks(path: &ItemPath, out: &mut Vec<Tok>) {
    for (k, seg) in path.iter().enumerate() {
        if k > 0 {
            out.push(p("::"));
        }
        ident_type_toks(seg.as_str(), out);
    }
}

/// One printable top-level item.
enum Piece<'m> {
    Use(&'m ItemPath),
    ExternType(&'m (Ident, Attributes)),
    ExternValue(&'m ExternValue),
    Def(&'m ItemDefinition),
    Impl(&'m FunctionBlock),
    Backend(&'m Backend),
}

pub fn module_toks(m: &Module, st: &mut Style) -> Vec<Tok> {
    let mut out = vec![];
    attrs_toks(&m.attributes, true, st, &mut out);

    // The abstract module keeps one ordered list per item kind; the kinds may be
    // interleaved freely in concrete syntax as long as each list keeps its order.
    let mut queues: Vec<Vec<Piece>> = vec![
        m.uses.iter().map(Piece::Use).collect(),
        m.extern_types.iter().map(Piece::ExternType).collect(),
        m.extern_values.iter().map(Piece::ExternValue).collect(),
        m.definitions.iter().map(Piece::Def).collect(),
        m.impls.iter().map(Piece::Impl).collect(),
        m.backends.iter().map(Piece::Backend).collect(),
    ];
    for q in queues.iter_mut() {
        q.reverse();
    }
    let interleave = st.rng.is_some() && st.chance(2, 3);
    loop {
        let nonempty: Vec<usize> = (0..queues.len())
            .filter(|i| !queues[*i].is_empty())
            .collect();
        if nonempty.is_empty() {
            break;
        }
        let qi = if interleave {
            nonempty[st.below(nonempty.len())]
        } else {
            nonempty[0]
        };
        let piece = queues[qi].pop().unwrap();
        match piece {
            Piece::Use(path) => {
                out.push(w("use"));
                path_toks(path, &mut out);
                out.push(p(";"));
            }
            Piece::ExternType((name, attrs)) => {
                attrs_toks(attrs, false, st, &mut out);
                out.push(w("extern"));
                out.push(w("type"));
                ident_type_toks(name.as_str(), &mut out);
                out.push(p(";"));
            }
            Piece::ExternValue(ev) => {
                attrs_toks(&ev.attributes, false, st, &mut out);
                vis_toks(ev.visibility, &mut out);
                out.push(w("extern"));
                out.push(w(ev.name.as_str()));
                out.push(p(":"));
                type_toks(&ev.type_, st, &mut out);
                out.push(p(";"));
            }
            Piece::Def(d) => item_toks(d, st, &mut out),
            Piece::Impl(fb) => {
                attrs_toks(&fb.attributes, false, st, &mut out);
                out.push(w("impl"));
                out.push(w(fb.name.as_str()));
                functions_block(&fb.functions, st, &mut out);
            }
            Piece::Backend(b) => backend_toks(b, st, &mut out),
        }
    }
    out
}

fn filler(st: &mut Style, out: &mut String, must_space: bool) {
    let Some(_) = st.rng else {
        if must_space {
            out.push(' ');
        }
        return;
    };
    let mut wrote = false;
    let n = st.below(3);
    for _ in 0..n {
        match st.below(10) {
            0 => {
                out.push_str("/* c0mment: type { , ; */");
                wrote = true;
            }
            1 => {
                out.push_str("// line comment fn ( \"\n");
                wrote = true;
            }
            2 => {
                out.push('\n');
                wrote = true;
            }
            3 => {
                out.push('\t');
                wrote = true;
            }
            4 => {
                out.push_str("\n    ");
                wrote = true;
            }
            _ => {
                out.push(' ');
                wrote = true;
            }
        }
    }
    if must_space && !wrote {
        out.push(' ');
    }
}

/// Join tokens with legal whitespace/comments.
pub fn join(toks: &[Tok], st: &mut Style) -> String {
    let mut out = String::new();
    let plain = st.rng.is_none();
    let mut depth = 0usize;
    for (i, t) in toks.iter().enumerate() {
        match t {
            Tok::Word(s) => out.push_str(s),
            Tok::Str(s) => out.push_str(s),
            Tok::Punct(s) => {
                if *s == "}" && depth > 0 {
                    depth -= 1;
                }
                out.push_str(s);
                if *s == "{" {
                    depth += 1;
                }
            }
            Tok::DocLine(s) => {
                if plain && !out.is_empty() && !out.ends_with('\n') && !out.trim_end_matches(' ').ends_with('\n') {
                    out.push('\n');
                    out.push_str(&"    ".repeat(depth));
                }
                out.push_str(s);
                out.push('\n');
                if plain {
                    out.push_str(&"    ".repeat(depth));
                }
            }
        }
        let Some(next) = toks.get(i + 1) else { break };
        if matches!(t, Tok::DocLine(_)) {
            if !plain {
                filler(st, &mut out, false);
            }
            continue;
        }
        if plain {
            // readable canonical layout
            match (t, next) {
                (Tok::Punct("{"), _) | (Tok::Punct(","), _) | (Tok::Punct(";"), _)
                    if !matches!(next, Tok::Punct(")") | Tok::Punct("]")) =>
                {
                    let d = if matches!(next, Tok::Punct("}")) {
                        depth.saturating_sub(1)
                    } else {
                        depth
                    };
                    // keep `[T; N]` and `(a, b)` on one line
                    if inside_inline(toks, i) {
                        out.push(' ');
                    } else {
                        out.push('\n');
                        out.push_str(&"    ".repeat(d));
                    }
                }
                (Tok::Punct("}"), _) | (Tok::Punct("]"), Tok::Word(_)) | (Tok::Punct("]"), Tok::Punct("#"))
                    if !inside_inline(toks, i) =>
                {
                    if matches!(next, Tok::Punct(",") | Tok::Punct(";")) {
                    } else {
                        let d = if matches!(next, Tok::Punct("}")) {
                            depth.saturating_sub(1)
                        } else {
                            depth
                        };
                        out.push('\n');
                        out.push_str(&"    ".repeat(d));
                    }
                }
                (Tok::Word(_) | Tok::Str(_), Tok::Word(_) | Tok::Str(_)) => out.push(' '),
                (Tok::Punct(":"), _) | (Tok::Punct("="), _) | (Tok::Punct("->"), _) => out.push(' '),
                (_, Tok::Punct("=")) | (_, Tok::Punct("->")) | (_, Tok::Punct("{")) => out.push(' '),
                (_, Tok::DocLine(_)) => {}
                _ => {}
            }
            continue;
        }
        let must = match (t, next) {
            (Tok::Word(_) | Tok::Str(_), Tok::Word(_) | Tok::Str(_)) => true,
            // `&` `mut`, `*` `const` are fine unspaced; a doc line must start on a
            // fresh token boundary, but any position works for the lexer.
            _ => false,
        };
        if matches!(next, Tok::DocLine(_)) {
            // make sure a preceding `/` can never join; also keep it readable
            out.push('\n');
            continue;
        }
        filler(st, &mut out, must);
    }
    if !plain {
        filler(st, &mut out, false);
    } else {
        out.push('\n');
    }
    out
}

/// Is token i inside (...) or [...] (where we keep things on one line)?
fn inside_inline(toks: &[Tok], i: usize) -> bool {
    let mut depth_inline = 0i32;
    for t in &toks[..=i] {
        if let Tok::Punct(s) = t {
            match *s {
                "(" | "[" => depth_inline += 1,
                ")" | "]" => depth_inline -= 1,
                _ => {}
            }
        }
    }
    depth_inline > 0
}

pub fn render_module(m: &Module, st: &mut Style) -> String {
    let toks = module_toks(m, st);
    join(&toks, st)
}

pub fn render_plain(m: &Module) -> String {
    render_module(m, &mut Style::plain())
}

pub fn render_random(m: &Module, rng: &mut Rng) -> String {
    render_module(m, &mut Style::random(rng))
}
