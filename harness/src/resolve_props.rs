//! C10 (resolution succeeds exactly when names exist and by-value embedding is
//! acyclic) and C11 (names bind per the scoping rules).

use crate::drive::{self, Opts, Stage};
use crate::emitted;
use crate::layout_props::{case_json, mods_from_case};
use crate::refprog::Env;
use crate::rng::{fnv, Rng};
use crate::verdict::Ctx;
use pyxis::grammar::*;
use pyxis::verif::{Event, Outcome};
use rayon::prelude::*;
use serde_json::{json, Value};
use std::collections::{BTreeMap, BTreeSet};

type Mods = Vec<(ItemPath, Module)>;

// ---------------------------------------------------------------------------
// C10

#[derive(Clone, Debug, PartialEq)]
pub enum Edge {
    ByValue(usize),
    Array(usize, usize),
    Base(usize),
    Ptr(usize, bool),
    PtrArray(usize, usize),
    /// pointer to an array of the type: `*mut [T; n]`
    PtrToArray(usize, usize),
    /// pointer to a pointer: `*const *mut T`
    PtrPtr(usize),
    Enum(usize),
    /// undefined name: by value / behind pointer / in array
    Undef(u8),
    Scalar,
}

#[derive(Clone, Debug)]
pub struct Graph {
    pub ntypes: usize,
    pub module_of: Vec<usize>,
    pub nmodules: usize,
    pub edges: Vec<Vec<Edge>>,
    /// enums: (module, base defined?)
    pub enums: Vec<(usize, bool)>,
    /// function-position defects: (type index, kind) kind 0 = impl param, 1 = impl return, 2 = vfunc param, 3 = vfunc return
    pub fn_undef: Vec<(usize, u8)>,
    pub fn_ok: Vec<(usize, u8, usize)>,
    /// extern values: (module, target type or undefined)
    pub externs: Vec<(usize, Option<usize>)>,
    pub prefix: String,
}

fn tname(i: usize) -> String {
    format!("T{i}")
}
fn ename(i: usize) -> String {
    format!("E{i}")
}
fn mpath(g: &Graph, m: usize) -> String {
    match m {
        0 => format!("{}a", g.prefix),
        1 => format!("{}b", g.prefix),
        2 => format!("{}a::c", g.prefix),
        _ => format!("{}d::e", g.prefix),
    }
}

/// Reference: which types/enums can be sized (least fixpoint), per A.2.
pub fn unresolvable(g: &Graph) -> (BTreeSet<usize>, BTreeSet<usize>) {
    let mut ok_t: BTreeSet<usize> = BTreeSet::new();
    let ok_e: BTreeSet<usize> = (0..g.enums.len()).filter(|e| g.enums[*e].1).collect();
    loop {
        let mut changed = false;
        for t in 0..g.ntypes {
            if ok_t.contains(&t) {
                continue;
            }
            let fine = g.edges[t].iter().all(|e| match e {
                Edge::ByValue(x) | Edge::Array(x, _) | Edge::Base(x) => ok_t.contains(x),
                Edge::Enum(x) => ok_e.contains(x),
                Edge::Ptr(..) | Edge::PtrArray(..) | Edge::PtrToArray(..) | Edge::PtrPtr(..) | Edge::Scalar => true,
                Edge::Undef(_) => false,
            });
            if fine {
                ok_t.insert(t);
                changed = true;
            }
        }
        if !changed {
            break;
        }
    }
    let bad_t = (0..g.ntypes).filter(|t| !ok_t.contains(t)).collect();
    let bad_e = (0..g.enums.len()).filter(|e| !ok_e.contains(e)).collect();
    (bad_t, bad_e)
}

pub fn graph_to_mods(g: &Graph, ptrw: usize) -> Mods {
    let (bad_t, _bad_e) = unresolvable(g);
    // sizes of resolvable types in dependency order
    let mut size: BTreeMap<usize, usize> = BTreeMap::new();
    let mut guard = 0;
    while size.len() + bad_t.len() < g.ntypes && guard < 1000 {
        guard += 1;
        for t in 0..g.ntypes {
            if bad_t.contains(&t) || size.contains_key(&t) {
                continue;
            }
            let deps_ready = g.edges[t].iter().all(|e| match e {
                Edge::ByValue(x) | Edge::Array(x, _) | Edge::Base(x) => size.contains_key(x),
                _ => true,
            });
            if !deps_ready {
                continue;
            }
            let base_first = matches!(g.edges[t].first(), Some(Edge::Base(_)));
            let has_vfuncs = g.fn_undef.iter().any(|(x, k)| *x == t && *k >= 2) || g.fn_ok.iter().any(|(x, k, _)| *x == t && *k >= 2);
            let mut cur = if has_vfuncs && !base_first { 8usize } else { 0 };
            for e in &g.edges[t] {
                cur = (cur + 7) / 8 * 8;
                cur += match e {
                    Edge::ByValue(x) | Edge::Base(x) => size[x],
                    Edge::Array(x, n) => size[x] * n,
                    Edge::Ptr(..) | Edge::PtrToArray(..) | Edge::PtrPtr(..) => ptrw,
                    Edge::PtrArray(_, n) => ptrw * n,
                    Edge::Enum(_) => 4,
                    Edge::Scalar => 8,
                    Edge::Undef(_) => 8,
                };
            }
            size.insert(t, ((cur + 7) / 8 * 8).max(8));
        }
    }
    let mut mods: Vec<Module> = (0..g.nmodules).map(|_| Module::new()).collect();
    for (mi, m) in mods.iter_mut().enumerate() {
        for other in 0..g.nmodules {
            if other != mi {
                m.uses.push(ItemPath::from(mpath(g, other).as_str()));
            }
        }
        // in half of the graphs the undefined names are also "imported" by name from a module
        // that does not define them (a typo in a `use`, an item renamed elsewhere): still undefined
        if (g.ntypes + g.nmodules + mi) % 2 == 0 {
            let from = mpath(g, (mi + 1) % g.nmodules);
            for missing in ["Missing", "MissingParam", "MissingRet", "MissingBase", "MissingExtern"] {
                m.uses.push(ItemPath::from(format!("{from}::{missing}").as_str()));
            }
        }
    }
    for (e, (m, defined)) in g.enums.iter().enumerate() {
        mods[*m].definitions.push(ItemDefinition::new(
            (Visibility::Public, ename(e).as_str()),
            EnumDefinition::new(Type::ident(if *defined { "u32" } else { "MissingBase" }), [EnumStatement::field("A"), EnumStatement::field("B")], [Attribute::copyable()]),
        ));
    }
    for t in 0..g.ntypes {
        let mut statements = vec![];
        let mut cur = 0usize;
        // vftable block when a vfunc position is used
        let vfuncs: Vec<Function> = g
            .fn_undef
            .iter()
            .filter(|(x, k)| *x == t && *k >= 2)
            .map(|(_, k)| {
                let mut f = Function::new((Visibility::Public, format!("{}vbad{k}_{t}", if t % 2 == 1 { "_" } else { "" }).as_str()), [Argument::ConstSelf]);
                if *k == 2 {
                    f.arguments.push(Argument::named("p", Type::ident("MissingParam").const_pointer()));
                } else {
                    f.return_type = Some(Type::ident("MissingRet"));
                }
                f
            })
            .chain(g.fn_ok.iter().filter(|(x, k, _)| *x == t && *k >= 2).map(|(_, k, target)| {
                let mut f = Function::new((Visibility::Public, format!("vok{k}_{t}_{target}").as_str()), [Argument::ConstSelf]);
                if *k == 2 {
                    f.arguments.push(Argument::named("p", Type::ident(&tname(*target)).const_pointer()));
                } else {
                    f.return_type = Some(Type::ident(&tname(*target)).mut_pointer());
                }
                f
            }))
            .collect();
        let has_base_first = matches!(g.edges[t].first(), Some(Edge::Base(_)));
        if !vfuncs.is_empty() && !has_base_first {
            statements.push(TypeStatement::vftable(vfuncs.clone()));
            cur = 8; // pointer + padding to 8 at width 4 handled by explicit addresses below
        }
        for (k, e) in g.edges[t].iter().enumerate() {
            cur = (cur + 7) / 8 * 8;
            let (ty, sz, base) = match e {
                Edge::ByValue(x) => (Type::ident(&tname(*x)), size.get(x).copied().unwrap_or(8), false),
                Edge::Base(x) => (Type::ident(&tname(*x)), size.get(x).copied().unwrap_or(8), true),
                Edge::Array(x, n) => (Type::ident(&tname(*x)).array(*n), size.get(x).copied().unwrap_or(8) * n, false),
                Edge::Ptr(x, m) => (if *m { Type::ident(&tname(*x)).mut_pointer() } else { Type::ident(&tname(*x)).const_pointer() }, ptrw, false),
                Edge::PtrArray(x, n) => (Type::ident(&tname(*x)).const_pointer().array(*n), ptrw * n, false),
                Edge::PtrToArray(x, n) => (Type::ident(&tname(*x)).array(*n).mut_pointer(), ptrw, false),
                Edge::PtrPtr(x) => (Type::ident(&tname(*x)).mut_pointer().const_pointer(), ptrw, false),
                Edge::Enum(x) => (Type::ident(&ename(*x)), 4, false),
                Edge::Scalar => (Type::ident("u64"), 8, false),
                Edge::Undef(0) => (Type::ident("Missing"), 8, false),
                Edge::Undef(1) => (Type::ident("Missing").const_pointer(), ptrw, false),
                Edge::Undef(2) => (Type::ident("Missing").array(2), 16, false),
                Edge::Undef(_) => (Type::ident("Missing").array(0), 0, false),
            };
            let mut st = TypeStatement::field((Visibility::Public, format!("f{k}").as_str()), ty);
            let mut attrs = vec![Attribute::address(cur)];
            if base {
                attrs.push(Attribute::base());
            }
            st.attributes = Attributes(attrs);
            statements.push(st);
            cur += sz;
        }
        let total = ((cur + 7) / 8 * 8).max(8);
        let td = TypeDefinition::new(statements).with_attributes([Attribute::align(8), Attribute::size(total)]);
        let m = g.module_of[t];
        mods[m].definitions.push(ItemDefinition::new((Visibility::Public, tname(t).as_str()), td));
        // impl functions
        let mut fns = vec![];
        for (x, k) in g.fn_undef.iter().filter(|(x, k)| *x == t && *k < 2) {
            let _ = x;
            let mut f = Function::new((if t % 3 == 0 { Visibility::Private } else { Visibility::Public }, format!("{}bad{k}_{t}", if t % 2 == 1 { "_" } else { "" }).as_str()), [Argument::ConstSelf]).with_attributes([Attribute::address(0x1000_0000 + t * 0x100 + *k as usize * 0x40)]);
            if *k == 0 {
                f.arguments.push(Argument::named("p", Type::ident("MissingParam")));
            } else {
                f.return_type = Some(Type::ident("MissingRet").const_pointer());
            }
            fns.push(f);
        }
        for (_, k, target) in g.fn_ok.iter().filter(|(x, k, _)| *x == t && *k < 2) {
            let mut f = Function::new((Visibility::Public, format!("ok{k}_{t}_{target}").as_str()), [Argument::ConstSelf]).with_attributes([Attribute::address(0x1100_0000 + t * 0x400 + *k as usize * 0x40 + target * 0x80)]);
            if *k == 0 {
                f.arguments.push(Argument::named("p", Type::ident(&tname(*target)).const_pointer()));
            } else {
                f.return_type = Some(Type::ident(&tname(*target)).mut_pointer());
            }
            fns.push(f);
        }
        if !fns.is_empty() {
            mods[m].impls.push(FunctionBlock::new(tname(t).as_str(), fns));
        }
    }
    for (k, (m, target)) in g.externs.iter().enumerate() {
        let ty = match target {
            Some(t) => Type::ident(&tname(*t)).const_pointer(),
            None => Type::ident("MissingExtern").const_pointer(),
        };
        mods[*m].extern_values.push(ExternValue::new(Visibility::Public, &format!("ev{k}"), ty, [Attribute::address(0x6000_0000 + k * 0x10)]));
    }
    mods.into_iter().enumerate().map(|(i, m)| (ItemPath::from(mpath(g, i).as_str()), m)).collect()
}

pub fn random_graph(rng: &mut Rng, prefix: &str) -> Graph {
    let ntypes = rng.range(2, 12);
    let nmodules = rng.range(1, 4);
    let module_of: Vec<usize> = (0..ntypes).map(|_| rng.below(nmodules)).collect();
    let flavour = rng.below(10); // 0-5 clean, 6 cycle, 7 undefined field, 8 fn/extern defects, 9 mixed
    let nenums = rng.below(3);
    let enums: Vec<(usize, bool)> = (0..nenums).map(|_| (rng.below(nmodules), !(flavour == 7 || flavour == 9) || rng.chance(2, 3))).collect();
    // acyclic by-value skeleton: t may embed only x with perm rank lower
    let rank = rng.permutation(ntypes);
    let mut edges: Vec<Vec<Edge>> = vec![vec![]; ntypes];
    for t in 0..ntypes {
        let nf = rng.range(0, 4);
        for k in 0..nf {
            let lower: Vec<usize> = (0..ntypes).filter(|x| rank[*x] < rank[t]).collect();
            let e = match rng.below(10) {
                0..=2 if !lower.is_empty() => {
                    let x = *rng.pick(&lower);
                    if k == 0 && rng.chance(1, 3) {
                        Edge::Base(x)
                    } else if rng.chance(1, 4) {
                        Edge::Array(x, rng.range(0, 3))
                    } else {
                        Edge::ByValue(x)
                    }
                }
                3..=5 => Edge::Ptr(rng.below(ntypes), rng.coin()),
                6 => match rng.below(3) {
                    0 => Edge::PtrArray(rng.below(ntypes), rng.range(1, 3)),
                    1 => Edge::PtrToArray(rng.below(ntypes), rng.range(0, 3)),
                    _ => Edge::PtrPtr(rng.below(ntypes)),
                },
                7 if nenums > 0 => Edge::Enum(rng.below(nenums)),
                _ => Edge::Scalar,
            };
            edges[t].push(e);
        }
    }
    // long by-value chain now and then
    if rng.chance(1, 4) {
        let mut order: Vec<usize> = (0..ntypes).collect();
        order.sort_by_key(|x| rank[*x]);
        for w in order.windows(2) {
            edges[w[1]].push(Edge::ByValue(w[0]));
        }
    }
    if flavour == 6 || flavour == 9 {
        // by-value cycle of length 1..5 (direct, via arrays, via bases)
        let len = rng.range(1, 5.min(ntypes));
        let mut nodes: Vec<usize> = rng.permutation(ntypes);
        nodes.truncate(len);
        for i in 0..len {
            let from = nodes[i];
            let to = nodes[(i + 1) % len];
            let e = match rng.below(3) {
                0 => Edge::Array(to, rng.range(0, 2)),
                1 if edges[from].is_empty() => Edge::Base(to),
                _ => Edge::ByValue(to),
            };
            if matches!(e, Edge::Base(_)) {
                edges[from].insert(0, e);
            } else {
                edges[from].push(e);
            }
        }
    }
    if flavour == 7 || flavour == 9 {
        for _ in 0..rng.range(1, 2) {
            let t = rng.below(ntypes);
            edges[t].push(Edge::Undef(rng.below(4) as u8));
        }
    }
    let mut fn_undef = vec![];
    let mut externs = vec![];
    let mut fn_ok = vec![];
    for _ in 0..rng.below(4) {
        fn_ok.push((rng.below(ntypes), rng.below(4) as u8, rng.below(ntypes)));
    }
    for _ in 0..rng.below(3) {
        externs.push((rng.below(nmodules), Some(rng.below(ntypes))));
    }
    if flavour == 8 || (flavour == 9 && rng.coin()) {
        match rng.below(3) {
            0 | 1 => fn_undef.push((rng.below(ntypes), rng.below(4) as u8)),
            _ => externs.push((rng.below(nmodules), None)),
        }
    }
    // a type whose first field is a base takes its vftable from there: no block of its own
    let base_first: Vec<bool> = edges.iter().map(|e| matches!(e.first(), Some(Edge::Base(_)))).collect();
    fn_undef.retain(|(t, k)| !(*k >= 2 && base_first[*t]));
    fn_ok.retain(|(t, k, _)| !(*k >= 2 && base_first[*t]));
    fn_undef.sort();
    fn_undef.dedup();
    fn_ok.sort();
    fn_ok.dedup();
    Graph {
        ntypes,
        module_of,
        nmodules,
        edges,
        enums,
        fn_undef,
        fn_ok,
        externs,
        prefix: prefix.to_string(),
    }
}

/// All digraphs on 3 types with labels {none, by-value, pointer} per ordered pair;
/// `zero_arrays`: by-value edges are spelt as arrays of length 0 instead.
pub fn exhaustive_graph(code: usize) -> Graph {
    exhaustive_graph_with(code, false)
}

pub fn exhaustive_graph_with(code: usize, zero_arrays: bool) -> Graph {
    let mut c = code;
    let mut edges: Vec<Vec<Edge>> = vec![vec![]; 3];
    for from in 0..3 {
        for to in 0..3 {
            match c % 3 {
                1 if zero_arrays => edges[from].push(Edge::Array(to, 0)),
                1 => edges[from].push(Edge::ByValue(to)),
                2 => edges[from].push(Edge::Ptr(to, false)),
                _ => {}
            }
            c /= 3;
        }
    }
    Graph {
        ntypes: 3,
        module_of: vec![0, 0, 0],
        nmodules: 1,
        edges,
        enums: vec![],
        fn_undef: vec![],
        fn_ok: vec![],
        externs: vec![],
        prefix: "kx_".into(),
    }
}

fn parse_failed_list(msg: &str) -> Option<BTreeSet<String>> {
    let i = msg.find("failed on types: [")?;
    let rest = &msg[i + "failed on types: [".len()..];
    let j = rest.find(']')?;
    Some(rest[..j].split(',').map(|s| s.trim().trim_matches('"').to_string()).filter(|s| !s.is_empty()).collect())
}

/// Online checker over the hook trace.
fn check_trace(trace: &[Event], g: &Graph, by_value_deps: &BTreeMap<String, Vec<String>>, bad: &mut Vec<(String, String)>) {
    let mut resolved_at: BTreeMap<String, (usize, usize, usize)> = BTreeMap::new();
    let mut iterations = 0usize;
    let mut resolved_in_iter = 0usize;
    let mut first_worklist = 0usize;
    let mut pos = 0usize;
    let mut build_ended = false;
    let mut generated = 0usize;
    for e in trace {
        pos += 1;
        match e {
            Event::IterationStart { n, worklist } => {
                if iterations > 0 && resolved_in_iter == 0 {
                    bad.push(("C10/trace/iteration-without-progress-continued".into(), format!("iteration {} resolved nothing yet the loop went on", iterations)));
                }
                iterations = *n;
                resolved_in_iter = 0;
                if *n == 1 {
                    first_worklist = worklist.len();
                }
            }
            Event::Attempt { path, outcome, .. } => {
                if let Outcome::Resolved { size, alignment } = outcome {
                    let p = path.to_string();
                    resolved_in_iter += 1;
                    if let Some(prev) = resolved_at.get(&p) {
                        bad.push(("C10/trace/resolved-twice".into(), format!("`{p}` resolved again (was {prev:?}, now size {size} align {alignment})")));
                    }
                    for d in by_value_deps.get(&p).map(|v| v.as_slice()).unwrap_or(&[]) {
                        if !resolved_at.contains_key(d) {
                            bad.push(("C10/trace/resolved-before-dependency".into(), format!("`{p}` resolved before its by-value dependency `{d}`")));
                        }
                    }
                    resolved_at.insert(p, (pos, *size, *alignment));
                }
            }
            // a generated vftable struct enters the registry during an attempt that may itself be
            // deferred: it can unblock another type, so it is progress as well
            Event::RegistryAdd { .. } if iterations > 0 => {
                resolved_in_iter += 1;
                generated += 1;
            }
            Event::BuildEnd { ok } => build_ended = *ok,
            _ => {}
        }
    }
    // every iteration but the last resolves an item or generates a vftable struct
    let bound = first_worklist + generated + 1;
    if iterations > bound {
        bad.push(("C10/trace/too-many-iterations".into(), format!("{iterations} iterations for {first_worklist} unresolved items")));
    }
    let _ = (g, build_ended);
}

pub fn judge_graph(g: &Graph, ptrw: usize, emit: bool) -> (Vec<(String, String)>, bool, Mods) {
    let mods = graph_to_mods(g, ptrw);
    let (bad_t, bad_e) = unresolvable(g);
    let fn_defect = !g.fn_undef.is_empty() || g.externs.iter().any(|e| e.1.is_none());
    let field_defect = !bad_t.is_empty() || !bad_e.is_empty();
    let out = drive::build_modules(&mods, ptrw, Opts { trace: true, no_emit: !emit, ..Default::default() });
    let mut bad = vec![];
    // by-value deps by path
    let mut deps: BTreeMap<String, Vec<String>> = BTreeMap::new();
    for t in 0..g.ntypes {
        let p = format!("{}::{}", mpath(g, g.module_of[t]), tname(t));
        let mut v = vec![];
        for e in &g.edges[t] {
            match e {
                Edge::ByValue(x) | Edge::Array(x, _) | Edge::Base(x) => v.push(format!("{}::{}", mpath(g, g.module_of[*x]), tname(*x))),
                Edge::Enum(x) => v.push(format!("{}::{}", mpath(g, g.enums[*x].0), ename(*x))),
                _ => {}
            }
        }
        deps.insert(p, v);
    }
    check_trace(&out.trace, g, &deps, &mut bad);
    let accepted = out.result.is_ok();
    match &out.result {
        Err(e) if e.stage == Stage::Panic => bad.push(("C10/panic".into(), e.msg.clone())),
        Ok(ok) => {
            if field_defect || fn_defect {
                let what = if !bad_t.is_empty() {
                    format!("types {:?} cannot be resolved (undefined field name or by-value cycle)", bad_t)
                } else if !bad_e.is_empty() {
                    "an enum has an undefined base".to_string()
                } else {
                    "a function parameter/return type or extern value names an undefined type".to_string()
                };
                let kind = if !bad_t.is_empty() || !bad_e.is_empty() { "unresolvable-types" } else { "undefined-in-function-or-extern" };
                bad.push((format!("C10/accepted/{kind}"), format!("build succeeded although {what}")));
            } else {
                // everything declared must be resolved and present
                let state_guard = ok.state.lock().unwrap();
                let reg = state_guard.type_registry();
                for t in 0..g.ntypes {
                    let p = format!("{}::{}", mpath(g, g.module_of[t]), tname(t));
                    match reg.get(&ItemPath::from(p.as_str())) {
                        Some(i) if i.is_resolved() => {}
                        _ => bad.push(("C10/item-left-unresolved".into(), format!("build succeeded but `{p}` is not resolved"))),
                    }
                }
                if emit {
                    for (mi, (mp, m)) in mods.iter().enumerate() {
                        let _ = mi;
                        let rel = format!("{}.rs", mp.to_string().replace("::", "/"));
                        let Some(text) = ok.files.get(&rel) else {
                            bad.push(("C10/module-file-missing".into(), format!("no output for `{mp}`")));
                            continue;
                        };
                        let Ok(ef) = emitted::parse(text) else { continue };
                        for d in &m.definitions {
                            let present = ef.struct_(d.name.as_str()).is_some() || ef.enum_(d.name.as_str()).is_some();
                            if !present {
                                bad.push(("C10/item-missing-from-output".into(), format!("`{mp}::{}` is not in the output", d.name)));
                            }
                        }
                        // declared parameter / return types are present in the emitted signatures
                        for blk in &m.impls {
                            for f in &blk.functions {
                                match ef.method(blk.name.as_str(), f.name.as_str()) {
                                    None => bad.push(("C10/method-missing-from-output".into(), format!("`{mp}::{}::{}` not emitted", blk.name, f.name))),
                                    Some(em) => {
                                        let nparams = f.arguments.iter().filter(|a| matches!(a, Argument::Named(..))).count();
                                        if em.params.len() != nparams || em.ret.is_some() != f.return_type.is_some() {
                                            bad.push(("C10/reference-dropped".into(), format!("`{mp}::{}::{}`: declared {nparams} parameters / return {}, emitted {} / {}", blk.name, f.name, f.return_type.is_some(), em.params.len(), em.ret.is_some())));
                                        }
                                    }
                                }
                            }
                        }
                        for ev in &m.extern_values {
                            if !ef.fns.iter().any(|f| f.name == format!("get_{}", ev.name)) {
                                bad.push(("C10/extern-missing-from-output".into(), format!("`{mp}::get_{}` not emitted", ev.name)));
                            }
                        }
                    }
                }
            }
        }
        Err(e) => {
            if !field_defect && !fn_defect {
                bad.push(("C10/rejected-resolvable-program".into(), format!("every name is defined and by-value embedding is acyclic, yet: {}", e.msg)));
            } else if field_defect && !fn_defect {
                // must be the non-termination error listing exactly the unresolvable items
                let want: BTreeSet<String> = bad_t
                    .iter()
                    .map(|t| format!("{}::{}", mpath(g, g.module_of[*t]), tname(*t)))
                    .chain(bad_e.iter().map(|x| format!("{}::{}", mpath(g, g.enums[*x].0), ename(*x))))
                    .collect();
                match parse_failed_list(&e.msg) {
                    Some(got) => {
                        if got != want {
                            bad.push(("C10/unresolved-list-differs".into(), format!("error lists {got:?}, the unresolvable items are {want:?}")));
                        }
                    }
                    None => bad.push(("C10/unexpected-error-kind".into(), format!("expected the non-termination error listing {want:?}, got: {}", e.msg))),
                }
            }
        }
    }
    (bad, accepted, mods)
}

/// Programs that refer to GENERATED vftable structs by name (by pointer, by value, from
/// signatures, across waiting types). Shared by C10 (each must build under every work-list
/// order) and C09 (every order, repetition and process must give the same result).
pub fn generated_table_programs() -> Vec<(&'static str, &'static str)> {
    vec![
        ("field-pointer-to-later-table", "pub type A { pub t: *const BVftable, }\npub type B { vftable { pub fn v(&self); }, }"),
        ("signature-pointer-to-later-table", "pub type A { pub x: *const u8, }\nimpl A { #[address(0x1000)] pub fn f(&self, p: *const BVftable) -> *mut BVftable; }\npub type B { vftable { pub fn v(&self); }, }"),
        ("two-owners-waiting-for-each-other", "pub type Foo { vftable { pub fn a(&self); }, pub x: *const u8, }\nimpl Foo { #[address(0x1000)] pub fn f(&self, p: *const BarVftable); }\npub type Bar { vftable { pub fn b(&self, q: *const FooVftable); }, pub t: *const FooVftable, }"),
        ("three-owners-in-a-ring", "pub type A { vftable { pub fn a(&self); }, pub o: *const BVftable, }\npub type B { vftable { pub fn b(&self); }, pub o: *const CVftable, }\npub type C { vftable { pub fn c(&self) -> *const AVftable; }, }\nimpl A { #[address(0x1000)] pub fn f(&self, p: *const CVftable); }\nimpl B { #[address(0x1040)] pub fn f(&self) -> *const AVftable; }"),
        ("embedded-type-points-to-embedders-table", "pub type Foo { vftable { pub fn f(&self); }, pub bar: Bar, }\npub type Bar { pub v: *const FooVftable, }"),
        ("own-table-by-value", "pub type A { vftable { pub fn f(&self); pub fn g(&self); }, pub v: AVftable, }"),
        ("own-table-behind-pointer", "pub type A { vftable { pub fn f(&self, t: *const AVftable); }, pub v: *const AVftable, }"),
        ("table-of-base-by-name", "pub type B { vftable { pub fn f(&self); }, }\npub type D { #[base] pub base: B, pub t: *const BVftable, }\npub type U { pub d: D, pub t: [*const BVftable; 2], }"),
        ("table-of-a-waiting-type-by-value", "pub type A { pub v: BVftable, }\npub type B { vftable { pub fn h(&self); }, pub a: A, }"),
        ("tables-by-value-in-a-chain", "pub type A { pub v: [BVftable; 2], }\npub type B { vftable { pub fn h(&self); pub fn i(&self); }, pub c: C, }\npub type C { pub t: AVftable2, }\npub type AVftable2 { pub z: *const u8, }"),
        ("extern-value-of-table-pointer", "pub type B { vftable { pub fn f(&self); }, }\n#[address(0x7000)] pub extern g_table: *const BVftable;"),
        // the embedder of a table and the table's owner wait for each other: a round may only
        // produce the generated struct and resolve nothing
        ("owner-embeds-the-embedder-of-its-table", "pub type Node { vftable { pub fn poke(&self, a: i32) -> i32; }, pub holder: Holder, }\npub type Holder { pub table: NodeVftable, }"),
        ("owner-embeds-array-of-embedders", "pub type Node { vftable { pub fn a(&self); pub fn b(&self); }, pub hs: [Holder; 2], pub t: Tail, }\npub type Holder { pub table: NodeVftable, }\npub type Tail { pub h: Holder, pub p: *const Node, }"),
    ]
}

pub fn run_c10(ctx: &mut Ctx) {
    ctx.rule = "random dependency graphs over 2-12 types and 0-2 enums in 1-4 modules (nested paths, mutual module imports): forward/backward references, pointer cycles, by-value chains up to depth 12, by-value cycles of length 1-5 (direct, via arrays, via bases), undefined names in fields (by value, behind pointers, in arrays), enum bases, impl/virtual function parameters and return types, extern values; layouts valid by construction (explicit 8-aligned addresses from the reference sizes); exhaustive: all 19683 digraphs on 3 types with edge labels {none, by-value, pointer}. The build verdict, the list in the non-termination error, the registry, the emitted items/signatures and the hook trace (resolution order vs by-value dependencies, no re-resolution, progress per iteration, iterations <= items+1) are compared with the reference. non-trivial = graph with >=4 types and >=1 forward by-value edge, or containing a defect; distinct by structural hash".into();
    let seed = ctx.seed;
    // exhaustive
    let total = 19683usize;
    let stride = 1usize;
    let off = 0usize;
    let ex: Vec<(usize, Vec<(String, String)>, bool)> = (0..total)
        .into_par_iter()
        .filter(|c| c % stride == off)
        .flat_map(|c| {
            [false, true]
                .into_iter()
                .map(|z| {
                    let g = exhaustive_graph_with(c, z);
                    let (bad, acc, _) = judge_graph(&g, if c % 2 == 0 { 8 } else { 4 }, false);
                    (c + if z { 1_000_000 } else { 0 }, bad, acc)
                })
                .collect::<Vec<_>>()
        })
        .collect();
    ctx.exhaustive = Some(stride == 1);
    ctx.extra.insert("exhaustive_digraphs".into(), json!({"types": 3, "labels": "none/by-value/pointer, by-value also spelt as zero-length array", "cases": total * 2, "stride": stride, "complete": stride == 1}));
    for (c, bad, acc) in ex {
        ctx.eval();
        ctx.count(if acc { "exhaustive_accepted" } else { "exhaustive_rejected" }, 1);
        if c == 0 && !acc {
            let g = exhaustive_graph(c);
            let out = drive::build_modules(&graph_to_mods(&g, 8), 8, Opts::default());
            eprintln!("empty graph rejected: {:?}", out.result.err().map(|e| e.msg));
        }
        for (sig, detail) in bad {
            let g = exhaustive_graph_with(c % 1_000_000, c >= 1_000_000);
            ctx.violation(&sig, &detail, case_json(&graph_to_mods(&g, 8), 8));
        }
    }
    // references to GENERATED vftable structs: every name below has a definition once the
    // structs generated for `vftable` blocks are counted, and nothing embeds itself by value,
    // so each program must build under every order in which the work list is attempted
    {
        let programs = generated_table_programs();
        let mut built = 0u64;
        for (name, text) in &programs {
            let m = pyxis::parser::parse_str(text).unwrap_or_else(|e| panic!("C10 program {name} does not parse: {e:?}"));
            for ptrw in [8usize, 4] {
                for schedule in 0..12u64 {
                    let mods: Mods = vec![(ItemPath::from("kg_m"), m.clone())];
                    let mut rng = Rng::derive(seed, 0x10C0_0000 + schedule);
                    let scheduler: Option<drive::Scheduler> = match schedule {
                        0 => None,
                        1 => Some(Box::new(|mut v: Vec<ItemPath>| {
                            v.sort_by_key(|p| p.to_string());
                            v
                        })),
                        2 => Some(Box::new(|mut v: Vec<ItemPath>| {
                            v.sort_by_key(|p| p.to_string());
                            v.reverse();
                            v
                        })),
                        _ => Some(Box::new(move |mut v: Vec<ItemPath>| {
                            v.sort_by_key(|p| p.to_string());
                            for i in (1..v.len()).rev() {
                                let j = rng.below(i + 1);
                                v.swap(i, j);
                            }
                            v
                        })),
                    };
                    ctx.eval();
                    built += 1;
                    let out = drive::build_modules(&mods, ptrw, Opts { scheduler, ..Default::default() });
                    ctx.nontrivial(fnv(format!("generated-names{name}{ptrw}").as_bytes()));
                    match out.result {
                        Ok(_) => ctx.count("generated_name_programs_accepted", 1),
                        Err(e) => {
                            let sig = if e.stage == Stage::Panic { "C10/panic".to_string() } else { format!("C10/rejected-resolvable-program/generated-names/{name}") };
                            ctx.violation(&sig, &format!("schedule {schedule}: {}", crate::verdict::one_line(&e.msg, 300)), case_json(&mods, ptrw));
                        }
                    }
                }
            }
        }
        ctx.count("generated_name_builds", built);
    }
    // random
    let n = ctx.tier.pick(4000usize, 80_000);
    struct R {
        bad: Vec<(String, String)>,
        acc: bool,
        nontrivial: bool,
        hash: u64,
        mods: Mods,
        ptrw: usize,
        defect: bool,
        trace_events: usize,
    }
    let rs: Vec<R> = (0..n)
        .into_par_iter()
        .map(|i| {
            let mut rng = Rng::derive(seed, 0x1000_0000 + i as u64);
            let g = random_graph(&mut rng, &format!("k{i}_"));
            let ptrw = if i % 2 == 0 { 8 } else { 4 };
            let (bad, acc, mods) = judge_graph(&g, ptrw, i % 4 == 0);
            let (bt, be) = unresolvable(&g);
            let defect = !bt.is_empty() || !be.is_empty() || !g.fn_undef.is_empty() || g.externs.iter().any(|e| e.1.is_none());
            let rankless_forward = g.edges.iter().enumerate().any(|(t, es)| es.iter().any(|e| matches!(e, Edge::ByValue(x) | Edge::Array(x, _) | Edge::Base(x) if *x > t)));
            R {
                bad,
                acc,
                nontrivial: defect || (g.ntypes >= 4 && rankless_forward),
                hash: fnv(format!("{:?}{:?}{:?}{:?}", g.edges, g.enums, g.fn_undef, g.externs).as_bytes()),
                mods,
                ptrw,
                defect,
                trace_events: 0,
            }
        })
        .collect();
    let mut sampled = 0;
    for r in rs {
        ctx.eval();
        ctx.count(if r.acc { "random_accepted" } else { "random_rejected" }, 1);
        if r.defect {
            ctx.count("random_with_defect", 1);
        }
        let _ = r.trace_events;
        if r.nontrivial {
            ctx.nontrivial(r.hash);
            if sampled < 2 && r.bad.is_empty() && (sampled == 0) == r.acc {
                sampled += 1;
                ctx.sample(json!({"accepted": r.acc, "case": case_json(&r.mods, r.ptrw)}));
            }
        }
        let mut seen = BTreeSet::new();
        for (sig, detail) in r.bad {
            if seen.insert(sig.clone()) {
                ctx.violation(&sig, &detail, case_json(&r.mods, r.ptrw));
            }
        }
    }
    if ctx.distinct_count() < ctx.tier.pick(150, 1500) {
        ctx.inconclusive(format!("only {} distinct non-trivial graphs", ctx.distinct_count()));
    }
    if ctx.counter("random_accepted") < 100 || ctx.counter("random_rejected") < 100 {
        ctx.inconclusive("verdict classes unbalanced");
    }
}

// ---------------------------------------------------------------------------
// C11

fn provider_path(i: usize) -> &'static str {
    ["kb_p0", "kb_d::p1", "kb_e::f::p2"][i]
}
fn consumer_path(i: usize) -> &'static str {
    ["kb_c", "kb_p0::c", "kb_x::y::c"][i]
}

#[derive(Clone, Debug)]
pub struct BindCase {
    /// sequence of use statements: (provider, is type import); provider 3 = bogus path
    pub uses: Vec<(usize, bool)>,
    pub local: bool,
    pub builtin_name: bool,
    pub consumer: usize,
    pub ptrw: usize,
    /// bit i set: provider i keeps its definition private (which changes nothing about binding)
    pub private_mask: u8,
}

pub fn bind_mods(c: &BindCase) -> Mods {
    let name = if c.builtin_name { "u32" } else { "N" };
    let sized = |k: usize| TypeDefinition::new([TypeStatement::field((Visibility::Public, "w"), Type::ident("u64").array(k))]).with_attributes([Attribute::align(8)]);
    let mut mods: Mods = vec![];
    for i in 0..3 {
        let vis = if c.private_mask & (1 << i) != 0 { Visibility::Private } else { Visibility::Public };
        let m = Module::new().with_definitions([ItemDefinition::new((vis, name), sized(i + 1))]);
        mods.push((ItemPath::from(provider_path(i)), m));
    }
    let mut m = Module::new();
    for (p, is_type) in &c.uses {
        let path = if *p == 3 {
            if *is_type {
                format!("kb_nowhere::{name}")
            } else {
                "kb_p0::Missing".to_string()
            }
        } else if *p == 4 {
            // the consumer imports itself: its own definition by name, or its own path
            if *is_type {
                format!("{}::{name}", consumer_path(c.consumer))
            } else {
                consumer_path(c.consumer).to_string()
            }
        } else if *is_type {
            format!("{}::{name}", provider_path(*p))
        } else {
            provider_path(*p).to_string()
        };
        m.uses.push(ItemPath::from(path.as_str()));
    }
    if c.local {
        m.definitions.push(ItemDefinition::new((Visibility::Public, name), sized(5)));
    }
    m.definitions.push(ItemDefinition::new(
        (Visibility::Public, "T"),
        TypeDefinition::new([TypeStatement::field((Visibility::Public, "f"), Type::ident(name))]),
    ));
    m.definitions.push(ItemDefinition::new(
        (Visibility::Public, "U"),
        TypeDefinition::new([
            TypeStatement::field((Visibility::Public, "p"), Type::ident(name).const_pointer()),
            TypeStatement::field((Visibility::Public, "q"), Type::ident(name).mut_pointer().array(1)),
        ]),
    ));
    m.impls.push(FunctionBlock::new(
        "U",
        [Function::new((Visibility::Public, "g"), [Argument::ConstSelf, Argument::named("a", Type::ident(name).const_pointer())])
            .with_attributes([Attribute::address(0x1000_0000)])
            .with_return_type(Type::ident(name).mut_pointer())],
    ));
    m.extern_values.push(ExternValue::new(Visibility::Public, "ev", Type::ident(name).const_pointer(), [Attribute::address(0x6000_0000)]));
    // when the consumer sits below a provider's path, the provider module must exist (it does)
    mods.push((ItemPath::from(consumer_path(c.consumer)), m));
    mods
}

pub fn judge_bind(c: &BindCase) -> Vec<(String, String)> {
    let mods = bind_mods(c);
    let env = Env::new(&mods, c.ptrw);
    let cpath = consumer_path(c.consumer);
    let name = if c.builtin_name { "u32" } else { "N" };
    let want = env.bind(cpath, name);
    let out = drive::build_modules(&mods, c.ptrw, Opts::default());
    let mut bad = vec![];
    {
        // consumer first, providers afterwards: the outcome must not depend on it
        let mut rev = mods.clone();
        rev.reverse();
        let out2 = drive::build_modules(&rev, c.ptrw, Opts::default());
        let same = match (&out.result, &out2.result) {
            (Ok(a), Ok(b)) => a.files == b.files,
            (Err(_), Err(_)) => true,
            _ => false,
        };
        if !same {
            bad.push(("C11/binding-depends-on-module-order".into(), format!("`{name}` in `{cpath}`: adding the consumer module before the providers gives a different result")));
        }
    }
    match (&out.result, &want) {
        (Err(e), _) if e.stage == Stage::Panic => bad.push(("C11/panic".into(), e.msg.clone())),
        (Ok(_), None) => bad.push(("C11/accepted-unbound-name".into(), format!("`{name}` has no candidate in scope of `{cpath}` but the build succeeded"))),
        (Err(e), Some(b)) => bad.push(("C11/rejected-bound-name".into(), format!("`{name}` binds to `{}` but the build failed: {}", b.path(), e.msg))),
        (Err(_), None) => {}
        (Ok(ok), Some(b)) => {
            let (want_ty, want_size) = match b {
                crate::refprog::Bound::Builtin(n) => (n.clone(), crate::refmodel::builtin(n).unwrap().size),
                crate::refprog::Bound::Item(p) => (format!("crate::{p}"), env.item_sz(p).map(|s| s.size).unwrap_or(0)),
            };
            let rel = format!("{}.rs", cpath.replace("::", "/"));
            let Some(text) = ok.files.get(&rel) else {
                bad.push(("C11/file-missing".into(), rel));
                return bad;
            };
            let Ok(ef) = emitted::parse(text) else { return bad };
            let got_f = ef.struct_("T").and_then(|s| s.fields.iter().find(|f| f.name == "f")).map(|f| f.ty.clone());
            if got_f.as_deref() != Some(want_ty.as_str()) {
                bad.push(("C11/field-type-path".into(), format!("`{cpath}::T.f: {name}` must be `{want_ty}`, emitted {got_f:?}")));
            }
            let state_guard = ok.state.lock().unwrap();
            let tsize = state_guard.type_registry().get(&ItemPath::from(format!("{cpath}::T").as_str())).and_then(|i| i.size());
            if tsize != Some(want_size) {
                bad.push(("C11/layout-uses-other-definition".into(), format!("`{cpath}::T` resolved to size {tsize:?}; `{name}` binds to `{want_ty}` of size {want_size}")));
            }
            let got_p = ef.struct_("U").and_then(|s| s.fields.iter().find(|f| f.name == "p")).map(|f| f.ty.clone());
            let want_p = emitted::squeeze(&format!("*const {want_ty}"));
            if got_p.as_deref() != Some(want_p.as_str()) {
                bad.push(("C11/pointer-field-type-path".into(), format!("`U.p` must be `{want_p}`, emitted {got_p:?}")));
            }
            let got_q = ef.struct_("U").and_then(|s| s.fields.iter().find(|f| f.name == "q")).map(|f| f.ty.clone());
            let want_q = emitted::squeeze(&format!("[*mut {want_ty};1]"));
            if got_q.as_deref() != Some(want_q.as_str()) {
                bad.push(("C11/array-field-type-path".into(), format!("`U.q` must be `{want_q}`, emitted {got_q:?}")));
            }
            if let Some(em) = ef.method("U", "g") {
                let want_ret = emitted::squeeze(&format!("*mut {want_ty}"));
                if em.params.first().map(|p| p.1.clone()) != Some(want_p.clone()) || em.ret.as_deref() != Some(want_ret.as_str()) {
                    bad.push(("C11/signature-type-path".into(), format!("`U::g` must use `{want_p}` / `{want_ret}`, emitted {:?} / {:?}", em.params, em.ret)));
                }
            } else {
                bad.push(("C11/method-missing".into(), "U::g".into()));
            }
            match ef.fns.iter().find(|f| f.name == "get_ev").map(|f| f.kind.clone()) {
                Some(emitted::FnKind::ExternGetter { ty, .. }) => {
                    if ty != want_p {
                        bad.push(("C11/extern-type-path".into(), format!("`get_ev` must refer to `{want_p}`, emitted `{ty}`")));
                    }
                }
                _ => bad.push(("C11/extern-accessor-unrecognised".into(), "get_ev".into())),
            }
        }
    }
    bad
}

fn sequences(n: usize) -> Vec<Vec<usize>> {
    // all ordered selections (permutations of subsets) of 0..n
    let mut out = vec![vec![]];
    fn rec(n: usize, cur: &mut Vec<usize>, out: &mut Vec<Vec<usize>>) {
        for i in 0..n {
            if !cur.contains(&i) {
                cur.push(i);
                out.push(cur.clone());
                rec(n, cur, out);
                cur.pop();
            }
        }
    }
    rec(n, &mut vec![], &mut out);
    out
}

pub fn run_c11(ctx: &mut Ctx) {
    ctx.rule = "three provider modules of nesting depth 1-3 define the same short name with sizes 8/16/24 (a local definition has size 40, the built-in u32 size 4); the consumer module (three different paths, one nested under a provider) uses the name by value, behind pointers, in an array, in a function signature and in an extern value. Exhaustive: every ordered selection of type imports x every ordered selection of module imports x {types first, modules first, interleaved} x local definition present x name is a built-in name x consumer path x width; plus random sequences with repeated and bogus imports. The emitted paths and the resolved size of the referring type must be those of the definition the scoping rule selects; no candidate => rejected. non-trivial = >=2 candidate definitions in scope; distinct by the case tuple".into();
    let seqs = sequences(3);
    let mut cases: Vec<BindCase> = vec![];
    for ts in &seqs {
        for ms in &seqs {
            for mode in 0..3 {
                let mut uses: Vec<(usize, bool)> = vec![];
                let t: Vec<(usize, bool)> = ts.iter().map(|p| (*p, true)).collect();
                let m: Vec<(usize, bool)> = ms.iter().map(|p| (*p, false)).collect();
                match mode {
                    0 => {
                        uses.extend(t);
                        uses.extend(m);
                    }
                    1 => {
                        uses.extend(m);
                        uses.extend(t);
                    }
                    _ => {
                        let mut a = t.into_iter();
                        let mut b = m.into_iter();
                        loop {
                            let x = a.next();
                            let y = b.next();
                            if x.is_none() && y.is_none() {
                                break;
                            }
                            uses.extend(x);
                            uses.extend(y);
                        }
                    }
                }
                for local in [false, true] {
                    for builtin_name in [false, true] {
                        for consumer in 0..3 {
                            for ptrw in [4usize, 8] {
                                // which providers are private rotates through the product
                                let private_mask = [0u8, 0b001, 0b010, 0b100, 0b011, 0b111][cases.len() % 6];
                                cases.push(BindCase {
                                    uses: uses.clone(),
                                    local,
                                    builtin_name,
                                    consumer,
                                    ptrw,
                                    private_mask,
                                });
                                if local && uses.len() <= 2 {
                                    // the module also imports its own definition by name, before
                                    // or after the other imports
                                    for at_end in [false, true] {
                                        let mut u = uses.clone();
                                        if at_end {
                                            u.push((4, true));
                                        } else {
                                            u.insert(0, (4, true));
                                        }
                                        cases.push(BindCase { uses: u, local, builtin_name, consumer, ptrw, private_mask: (cases.len() % 8) as u8 });
                                    }
                                }
                            }
                        }
                    }
                }
            }
        }
    }
    let stride = ctx.tier.pick(5usize, 1);
    let off = (ctx.seed as usize) % stride;
    let total = cases.len();
    let mut selected: Vec<BindCase> = cases.into_iter().enumerate().filter(|(i, _)| i % stride == off).map(|(_, c)| c).collect();
    ctx.exhaustive = Some(stride == 1);
    ctx.extra.insert("exhaustive_product".into(), json!({"cases": total, "stride": stride, "complete": stride == 1}));
    // random: repeated and bogus imports
    let mut rng = Rng::derive(ctx.seed, 0x1100);
    for _ in 0..ctx.tier.pick(2000, 40_000) {
        let n = rng.range(0, 7);
        let uses = (0..n).map(|_| (rng.below(5), rng.coin())).collect();
        selected.push(BindCase {
            uses,
            local: rng.coin(),
            builtin_name: rng.chance(1, 3),
            consumer: rng.below(3),
            ptrw: *rng.pick(&[4, 8]),
            private_mask: rng.below(8) as u8,
        });
    }
    // names of GENERATED vftable structs take part in the same rules: imported by name they win,
    // the module's own generated struct comes before those of imported modules, and the binding
    // must not depend on whether the struct has been generated yet when the name is looked up
    {
        let providers: Vec<(&str, &str)> = vec![
            ("plain-block", "pub type Foo { vftable { pub fn v(&self); }, }"),
            ("empty-block", "pub type Foo { vftable { }, }"),
            ("sized-empty-block", "pub type Foo { #[size(2)] vftable { }, }"),
            ("block-and-base", "pub type FooBase { pub x: *const u8, }\npub type Foo { vftable { pub fn v(&self); }, #[base] pub base: FooBase, }"),
            ("block-over-base-with-table", "pub type FooBase { vftable { pub fn v(&self); }, }\npub type Foo { vftable { pub fn v(&self); pub fn w(&self); }, #[base] pub base: FooBase, }"),
        ];
        let user = "#[align(4)] pub type FooVftable { pub x: u32, pub y: u32, pub z: u32, }";
        let mut compared = 0u64;
        for (pname, provider) in &providers {
            for ptrw in [4usize, 8] {
                for schedule in 0..10u64 {
                    let parse = |t: &str| pyxis::parser::parse_str(t).expect("C11 generated-name case parses");
                    let mods: Mods = vec![
                        (ItemPath::from("kn_gen"), parse(provider)),
                        (ItemPath::from("kn_user"), parse(user)),
                        // imported by name: wins over the module import
                        (ItemPath::from("kn_a"), parse("use kn_user;\nuse kn_gen::FooVftable;\npub type X { pub p: *const FooVftable, }")),
                        // module imports only: the earlier one wins
                        (ItemPath::from("kn_b"), parse("use kn_gen;\nuse kn_user;\npub type X { pub p: *const FooVftable, }")),
                        (ItemPath::from("kn_c"), parse("use kn_user;\nuse kn_gen;\npub type X { pub p: *const FooVftable, }")),
                        // the module's own generated struct comes before imported modules
                        (ItemPath::from("kn_d"), parse(&format!("use kn_user;\n{provider}\npub type X {{ pub p: *const FooVftable, }}"))),
                    ];
                    let mut rng = Rng::derive(ctx.seed, 0x11C0_0000 + schedule);
                    let scheduler: Option<drive::Scheduler> = match schedule {
                        0 => None,
                        1 => Some(Box::new(|mut v: Vec<ItemPath>| {
                            v.sort_by_key(|p| p.to_string());
                            v
                        })),
                        2 => Some(Box::new(|mut v: Vec<ItemPath>| {
                            v.sort_by_key(|p| p.to_string());
                            v.reverse();
                            v
                        })),
                        _ => Some(Box::new(move |mut v: Vec<ItemPath>| {
                            v.sort_by_key(|p| p.to_string());
                            for i in (1..v.len()).rev() {
                                let j = rng.below(i + 1);
                                v.swap(i, j);
                            }
                            v
                        })),
                    };
                    let mut ordered = mods.clone();
                    if schedule % 2 == 1 {
                        ordered.reverse();
                    }
                    ctx.eval();
                    let out = drive::build_modules(&ordered, ptrw, Opts { scheduler, ..Default::default() });
                    ctx.nontrivial(fnv(format!("generated{pname}{ptrw}").as_bytes()));
                    match out.result {
                        Err(e) => {
                            let sig = if e.stage == Stage::Panic { "C11/panic" } else { "C11/rejected-bound-name" };
                            ctx.violation(sig, &format!("generated-name case {pname}, schedule {schedule}: {}", crate::verdict::one_line(&e.msg, 200)), case_json(&ordered, ptrw));
                        }
                        Ok(ok) => {
                            for (module, want) in [("kn_a", "kn_gen"), ("kn_b", "kn_gen"), ("kn_c", "kn_user"), ("kn_d", "kn_d")] {
                                compared += 1;
                                let got = ok.files.get(&format!("{module}.rs")).and_then(|t| emitted::parse(t).ok()).and_then(|ef| ef.struct_("X").and_then(|s| s.fields.iter().find(|f| f.name == "p")).map(|f| f.ty.clone()));
                                let want_ty = format!("*const crate::{want}::FooVftable");
                                if got.as_deref() != Some(want_ty.as_str()) {
                                    ctx.violation(
                                        "C11/binds-elsewhere/generated-name",
                                        &format!("{pname}, schedule {schedule}: `FooVftable` in `{module}` must bind to `{want}::FooVftable`, emitted {got:?}"),
                                        json!({"consumer": module, "name": "FooVftable", "ptrw": ptrw, "modules": case_json(&ordered, ptrw)["modules"]}),
                                    );
                                }
                            }
                        }
                    }
                }
            }
        }
        ctx.count("generated_name_bindings_compared", compared);
    }
    // a built-in name that the module also declares as an item of its own (a type, an enum, an
    // EXTERN type): the bare name still means the built-in (rule 2 before rule 3), so the emitted
    // reference must be one that means the built-in inside the generated module too
    {
        let cases: Vec<(&str, &str)> = vec![
            ("extern-type", "#[size(16), align(4)] extern type bool;\n#[size(8), align(8)] extern type u16;\n#[align(4)] pub type Flags { pub a: bool, pub b: bool, pub c: u16, pub arr: [u16; 2], }\nimpl Flags { #[address(0x1000)] pub fn set(&self, v: bool, w: *mut u16) -> bool; }\n#[address(0x7000)] pub extern g_flag: bool;"),
            ("type", "#[align(4)] pub type bool { pub x: u32, pub y: u32, }\n#[align(4)] pub type Flags { pub a: bool, pub b: bool, pub c: u16, }"),
            ("enum", "pub enum u16: u32 { A, }\n#[align(4)] pub type Flags { pub a: bool, pub b: bool, pub c: u16, pub arr: [u16; 2], }"),
        ];
        for (kind, text) in cases {
            for ptrw in [4usize, 8] {
                ctx.eval();
                let m = pyxis::parser::parse_str(text).expect("C11 built-in shadow case parses");
                let mods: Mods = vec![(ItemPath::from("kn_shadow"), m)];
                ctx.nontrivial(fnv(format!("builtin-shadow{kind}{ptrw}").as_bytes()));
                match drive::build_modules(&mods, ptrw, Opts::default()).result {
                    Err(e) if e.stage == Stage::Panic => ctx.violation("C11/panic", &e.msg, case_json(&mods, ptrw)),
                    Err(e) => ctx.violation("C11/rejected-bound-name", &format!("built-in shadowed by {kind}: {}", crate::verdict::one_line(&e.msg, 200)), case_json(&mods, ptrw)),
                    Ok(ok) => {
                        let text = ok.files.get("kn_shadow.rs").cloned().unwrap_or_default();
                        let flat: String = text.split_whitespace().collect::<Vec<_>>().join(" ");
                        // layout uses the built-in sizes: a, b one byte each, c at 2
                        let state_guard = ok.state.lock().unwrap();
                        let size = state_guard.type_registry().get(&ItemPath::from("kn_shadow::Flags")).and_then(|i| i.size());
                        let want_size = match kind {
                            "type" => Some(4),
                            _ => Some(8),
                        };
                        if size != want_size {
                            ctx.violation("C11/layout-uses-other-definition", &format!("built-in shadowed by {kind}: `Flags` resolved to size {size:?}, the built-ins give {want_size:?}"), case_json(&mods, ptrw));
                        }
                        let shadowed: &[&str] = match kind {
                            "extern-type" => &["bool", "u16"],
                            "type" => &["bool"],
                            _ => &["u16"],
                        };
                        for name in shadowed {
                            // every mention of the built-in inside Flags (and its functions) must be the full path
                            let bare_field = flat.contains(&format!(": {name},")) || flat.contains(&format!(": {name} ,")) || flat.contains(&format!("const {name},")) || flat.contains(&format!("[{name};")) || flat.contains(&format!("mut {name}")) && !flat.contains(&format!("mut ::core::primitive::{name}")) && *name != "bool";
                            if bare_field || !flat.contains(&format!("::core::primitive::{name}")) {
                                ctx.violation(
                                    "C11/built-in-reference-means-the-module's-own-item",
                                    &format!("the module declares its own `{name}` ({kind}); a reference to the built-in `{name}` is emitted as the bare name, which inside the generated module is that item"),
                                    case_json(&mods, ptrw),
                                );
                                break;
                            }
                        }
                    }
                }
            }
        }
    }
    let results: Vec<(BindCase, Vec<(String, String)>)> = selected.into_par_iter().map(|c| { let b = judge_bind(&c); (c, b) }).collect();
    let mut sampled = 0;
    for (c, bad) in results {
        ctx.eval();
        let mods = bind_mods(&c);
        let env = Env::new(&mods, c.ptrw);
        let cands = c.uses.iter().filter(|(p, _)| *p < 3).count() + c.local as usize + c.builtin_name as usize;
        let bound = env.bind(consumer_path(c.consumer), if c.builtin_name { "u32" } else { "N" });
        ctx.count(if bound.is_some() { "bound_cases" } else { "unbound_cases" }, 1);
        if cands >= 2 {
            ctx.nontrivial(fnv(format!("{c:?}").as_bytes()));
            if sampled < 2 && bad.is_empty() && c.uses.len() >= 3 {
                sampled += 1;
                ctx.sample(json!({"case": case_json(&mods, c.ptrw), "binds_to": bound.map(|b| b.path().to_string())}));
            }
        }
        let mut seen = BTreeSet::new();
        for (sig, detail) in bad {
            if seen.insert(sig.clone()) {
                ctx.violation(&sig, &detail, json!({"consumer": consumer_path(c.consumer), "name": if c.builtin_name { "u32" } else { "N" }, "ptrw": c.ptrw, "modules": case_json(&mods, c.ptrw)["modules"]}));
            }
        }
    }
    if ctx.distinct_count() < ctx.tier.pick(150, 1500) {
        ctx.inconclusive(format!("only {} distinct non-trivial cases", ctx.distinct_count()));
    }
}

pub fn replay(ctx: &mut Ctx, which: &str, case: &Value) {
    ctx.eval();
    let Ok((mods, ptrw)) = mods_from_case(case) else {
        ctx.inconclusive("replay case does not parse");
        return;
    };
    if which == "C11" {
        let consumer = case["consumer"].as_str().unwrap_or("kb_c");
        let name = case["name"].as_str().unwrap_or("N");
        let env = Env::new(&mods, ptrw);
        let want = env.bind(consumer, name);
        let out = drive::build_modules(&mods, ptrw, Opts::default());
        match (&out.result, &want) {
            (Ok(_), None) => ctx.violation("C11/accepted-unbound-name", "replay", case.clone()),
            (Err(e), Some(_)) => ctx.violation("C11/rejected-bound-name", &e.msg, case.clone()),
            (Ok(ok), Some(b)) => {
                let want_ty = match b {
                    crate::refprog::Bound::Builtin(n) => n.clone(),
                    crate::refprog::Bound::Item(p) => format!("crate::{p}"),
                };
                let rel = format!("{}.rs", consumer.replace("::", "/"));
                if let Some(Ok(ef)) = ok.files.get(&rel).map(|t| emitted::parse(t)) {
                    let got = ef.struct_("T").and_then(|s| s.fields.iter().find(|f| f.name == "f")).map(|f| f.ty.clone());
                    if got.as_deref() != Some(want_ty.as_str()) {
                        ctx.violation("C11/field-type-path", &format!("expected {want_ty}, emitted {got:?}"), case.clone());
                    }
                }
            }
            _ => {}
        }
        return;
    }
    // C10: re-derive the expectation from the modules with the general reference model
    let env = Env::new(&mods, ptrw);
    let mut unres = BTreeSet::new();
    for (p, d) in &env.defs {
        if matches!(d, crate::refprog::Def::Extern { .. }) {
            continue;
        }
        if env.item_sz(p).is_err() {
            unres.insert(p.clone());
        }
    }
    let out = drive::build_modules(&mods, ptrw, Opts::default());
    match &out.result {
        Ok(_) if !unres.is_empty() => ctx.violation("C10/accepted/unresolvable-types", &format!("{unres:?}"), case.clone()),
        Err(e) if unres.is_empty() => println!("replay: rejected: {}", e.msg),
        Err(e) => {
            if let Some(got) = parse_failed_list(&e.msg) {
                if got != unres {
                    ctx.violation("C10/unresolved-list-differs", &format!("{got:?} vs {unres:?}"), case.clone());
                }
            }
        }
        _ => {}
    }
}
