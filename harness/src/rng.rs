//! Small deterministic PRNG (xoshiro256** seeded through splitmix64) so that a
//! seed replays identically on every machine and toolchain.

#[derive(Clone, Debug)]
pub struct Rng {
    s: [u64; 4],
}

fn splitmix(x: &mut u64) -> u64 {
    *x = x.wrapping_add(0x9E37_79B9_7F4A_7C15);
    let mut z = *x;
    z = (z ^ (z >> 30)).wrapping_mul(0xBF58_476D_1CE4_E5B9);
    z = (z ^ (z >> 27)).wrapping_mul(0x94D0_49BB_1331_11EB);
    z ^ (z >> 31)
}

impl Rng {
    pub fn new(seed: u64) -> Self {
        let mut x = seed;
        let s = [
            splitmix(&mut x),
            splitmix(&mut x),
            splitmix(&mut x),
            splitmix(&mut x),
        ];
        Rng { s }
    }

    /// Independent stream derived from this seed and a label.
    pub fn derive(seed: u64, label: u64) -> Self {
        let mut x = seed ^ label.wrapping_mul(0xD6E8_FEB8_6659_FD93);
        let a = splitmix(&mut x);
        Rng::new(a ^ label)
    }

    pub fn next_u64(&mut self) -> u64 {
        let result = self.s[1].wrapping_mul(5).rotate_left(7).wrapping_mul(9);
        let t = self.s[1] << 17;
        self.s[2] ^= self.s[0];
        self.s[3] ^= self.s[1];
        self.s[1] ^= self.s[2];
        self.s[0] ^= self.s[3];
        self.s[2] ^= t;
        self.s[3] = self.s[3].rotate_left(45);
        result
    }

    /// Uniform in [0, n). n must be > 0.
    pub fn below(&mut self, n: usize) -> usize {
        debug_assert!(n > 0);
        (self.next_u64() % (n as u64)) as usize
    }

    /// Uniform in [lo, hi] inclusive.
    pub fn range(&mut self, lo: usize, hi: usize) -> usize {
        lo + self.below(hi - lo + 1)
    }

    pub fn chance(&mut self, num: usize, den: usize) -> bool {
        self.below(den) < num
    }

    pub fn coin(&mut self) -> bool {
        self.next_u64() & 1 == 1
    }

    pub fn pick<'a, T>(&mut self, xs: &'a [T]) -> &'a T {
        &xs[self.below(xs.len())]
    }

    pub fn shuffle<T>(&mut self, xs: &mut [T]) {
        for i in (1..xs.len()).rev() {
            let j = self.below(i + 1);
            xs.swap(i, j);
        }
    }

    pub fn permutation(&mut self, n: usize) -> Vec<usize> {
        let mut v: Vec<usize> = (0..n).collect();
        self.shuffle(&mut v);
        v
    }
}

/// FNV-1a 64-bit over bytes: stable structural hashing for "distinct" counts.
pub fn fnv(bytes: &[u8]) -> u64 {
    let mut h: u64 = 0xcbf29ce484222325;
    for b in bytes {
        h ^= *b as u64;
        h = h.wrapping_mul(0x100000001b3);
    }
    h
}
