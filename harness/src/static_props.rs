//! Properties decided on the text pyxis emits (EmittedModel), driven by the rich
//! program generator: C16 (calling conventions), C17 (visibility, derives,
//! packing, docs), C14 (every item exactly once, in its module's file).

use crate::drive::{self, Opts, Stage};
use crate::emitted::{Body, EFile};
use crate::gen_prog::{self, Cfg};
use crate::l2::{self, BuildOutcome, Built};
use crate::layout_props::{case_json, mods_from_case, structural_hash};
use crate::refmodel::{attr_flag, attr_int};
use crate::refprog::{self, doc_lines, expected_convention, Env, MKind, Slot};
use crate::rng::Rng;
use crate::verdict::Ctx;
use pyxis::grammar::*;
use rayon::prelude::*;
use serde_json::{json, Value};
use std::collections::{BTreeMap, BTreeSet};

pub type Bad = (String, String);

// ---------------------------------------------------------------------------
// C16

pub fn judge_c16(b: &Built, bad: &mut Vec<Bad>, stats: &mut BTreeMap<String, u64>) {
    let env = Env::new(&b.mods, b.ptrw);
    // address -> (declaring function, where)
    let mut by_address: BTreeMap<u128, (&Function, String)> = BTreeMap::new();
    for (mp, m) in &b.mods {
        for blk in &m.impls {
            for f in &blk.functions {
                if let Some(a) = attr_int(&f.attributes, "address") {
                    if a >= 0 {
                        by_address.insert(a as u128, (f, format!("{mp}::{}::{}", blk.name, f.name)));
                    }
                }
            }
        }
    }
    for (mp, ef) in &b.efiles {
        for em in &ef.methods {
            if let Body::Address { address, fnptr, .. } = &em.body {
                if let Some((f, origin)) = by_address.get(address) {
                    *stats.entry("address_bodies_compared_by_address".into()).or_insert(0) += 1;
                    let want = expected_convention(f).unwrap_or_else(|e| format!("<invalid:{e}>"));
                    if fnptr.abi.as_deref() != Some(want.as_str()) {
                        bad.push((
                            "C16/wrapper-convention".into(),
                            format!("`{mp}::{}::{}` calls {address:#x}, the address of `{origin}` (extern \"{want}\"), through extern {:?}", em.owner, em.name, fnptr.abi),
                        ));
                    }
                }
            }
        }
    }
    // a derived table repeats the base's slots: same convention in both emitted tables
    for (path, def) in &env.defs {
        if !matches!(def, refprog::Def::Type { .. }) || env.vftable_block(path).is_none() {
            continue;
        }
        let Some((_, Some(base))) = env.bases(path).into_iter().next() else { continue };
        let Some(base_owner) = env.vftable_owner(&base) else { continue };
        let get = |p: &str| -> Option<&crate::emitted::EStruct> {
            b.efiles.get(refprog::parent_of(p)).and_then(|f| f.struct_(&format!("{}Vftable", refprog::last_of(p))))
        };
        let (Some(dt), Some(bt)) = (get(path), get(&base_owner)) else { continue };
        for (i, bf) in bt.fields.iter().enumerate() {
            let Some(df) = dt.fields.get(i) else {
                bad.push(("C16/derived-table-shorter".into(), format!("`{path}`'s table lacks slot {i} (`{}`) of `{base_owner}`", bf.name)));
                break;
            };
            *stats.entry("inherited_slot_conventions_compared".into()).or_insert(0) += 1;
            let (ba, da) = (bf.fnptr.as_ref().and_then(|p| p.abi.clone()), df.fnptr.as_ref().and_then(|p| p.abi.clone()));
            if ba != da {
                bad.push((
                    "C16/derived-slot-convention-differs".into(),
                    format!("slot {i} `{}` is extern {ba:?} in `{base_owner}Vftable` but extern {da:?} in `{path}Vftable`", bf.name),
                ));
            }
        }
    }
    for (mp, m) in &b.mods {
        let mps = mp.to_string();
        let Some(ef) = b.efiles.get(&mps) else { continue };
        for d in &m.definitions {
            let ItemDefinitionInner::Type(_) = &d.inner else { continue };
            let tname = d.name.as_str();
            let path = format!("{mps}::{tname}");
            // vftable slots of a declared block
            if let Some((fs, size)) = env.vftable_block(&path) {
                let vname = format!("{tname}Vftable");
                match (ef.struct_(&vname), refprog::slots(fs, size)) {
                    (Some(vs), Ok(sl)) => {
                        for (i, s) in sl.iter().enumerate() {
                            let (fname, want) = match s {
                                Slot::Func(f) => (f.name.0.clone(), expected_convention(f).unwrap_or_else(|e| format!("<invalid:{e}>"))),
                                Slot::Placeholder => (format!("_vfunc_{i}"), "thiscall".to_string()),
                            };
                            let Some(field) = vs.fields.iter().find(|x| x.name == fname) else {
                                bad.push(("C16/slot-missing".into(), format!("`{path}`: vftable struct has no slot `{fname}`")));
                                continue;
                            };
                            let got = field.fnptr.as_ref().and_then(|p| p.abi.clone());
                            *stats.entry("slot_conventions_compared".into()).or_insert(0) += 1;
                            if matches!(s, Slot::Func(f) if refmodel_has_cc(f)) {
                                *stats.entry("explicit_conventions_compared".into()).or_insert(0) += 1;
                            }
                            if got.as_deref() != Some(want.as_str()) {
                                let kind = if matches!(s, Slot::Placeholder) { "placeholder" } else { "slot" };
                                bad.push((
                                    format!("C16/{kind}-convention"),
                                    format!("`{path}` vftable slot `{fname}`: expected extern \"{want}\", emitted {got:?}"),
                                ));
                            }
                        }
                    }
                    (None, _) => bad.push(("C16/vftable-struct-missing".into(), format!("`{path}` declares a vftable block but `{vname}` is not emitted"))),
                    (_, Err(_)) => {}
                }
            }
            // address-bound wrappers
            for me in env.associated(&path) {
                if me.kind != MKind::Own || me.name.starts_with('_') {
                    continue;
                }
                let want = expected_convention(me.func).unwrap_or_else(|e| format!("<invalid:{e}>"));
                match ef.method(tname, &me.name) {
                    None => bad.push(("C16/wrapper-missing".into(), format!("`{path}`: no emitted method `{}`", me.name))),
                    Some(em) => match &em.body {
                        Body::Address { fnptr, .. } => {
                            *stats.entry("wrapper_conventions_compared".into()).or_insert(0) += 1;
                            if refmodel_has_cc(me.func) {
                                *stats.entry("explicit_conventions_compared".into()).or_insert(0) += 1;
                            }
                            if fnptr.abi.as_deref() != Some(want.as_str()) {
                                bad.push((
                                    "C16/wrapper-convention".into(),
                                    format!("`{path}::{}`: expected extern \"{want}\", emitted {:?}", me.name, fnptr.abi),
                                ));
                            }
                        }
                        _ => {
                            *stats.entry("wrapper_bodies_unrecognised".into()).or_insert(0) += 1;
                        }
                    },
                }
            }
        }
    }
}

fn refmodel_has_cc(f: &Function) -> bool {
    crate::refmodel::attr_str(&f.attributes, "calling_convention").is_some()
}

fn cc_attr(cc: Option<&str>) -> Vec<Attribute> {
    cc.map(|c| vec![Attribute::calling_convention(c)]).unwrap_or_default()
}

/// all conventions x receiver x chain depth, impl + vftable
pub fn c16_exhaustive(ptrw: usize, first_id: usize) -> Vec<(String, Vec<(ItemPath, Module)>, usize)> {
    let mut out = vec![];
    let ccs: Vec<Option<&str>> = std::iter::once(None).chain(refprog::CONVENTIONS.iter().map(|c| Some(*c))).collect();
    // `generated_names`: the virtual functions are named like the placeholder of the slot they
    // sit in (`_vfunc_<slot>`) and take nothing but the receiver: they are declared functions all the
    // same, and keep the convention they were declared with
    for generated_names in [false, true] {
    for (ci, cc) in ccs.iter().enumerate() {
        for recv in 0..3 {
            for depth in 1..=3usize {
                let id = format!("k{}_", first_id + out.len());
                let mk_fn = |name: &str, cc: Option<&str>, recv: usize, address: Option<usize>| {
                    let mut args = vec![];
                    match recv {
                        0 => args.push(Argument::ConstSelf),
                        1 => args.push(Argument::MutSelf),
                        _ => {}
                    }
                    if !(generated_names && name.starts_with("_vfunc_") && recv < 2) {
                        args.push(Argument::named("a", Type::ident("u32")));
                    }
                    let mut attrs = cc_attr(cc);
                    if let Some(a) = address {
                        attrs.push(Attribute::address(a));
                    }
                    Function::new((Visibility::Public, name), args).with_attributes(Attributes(attrs))
                };
                let mut m = Module::new();
                let mut table: Vec<Function> = vec![];
                for k in 0..depth {
                    let cc_k = ccs[(ci + k) % ccs.len()];
                    table.push(mk_fn(&if generated_names { format!("_vfunc_{k}") } else { format!("vf{k}") }, if k == 0 { *cc } else { cc_k }, if k == 0 { recv } else { (recv + k) % 3 }, None));
                    let mut statements = vec![TypeStatement::vftable(table.clone())];
                    let size;
                    if k > 0 {
                        statements.push(
                            TypeStatement::field((Visibility::Public, "base"), Type::ident(&format!("T{}", k - 1)))
                                .with_attributes([Attribute::base()]),
                        );
                        size = ptrw * 2 + (k - 1) * ptrw;
                    } else {
                        size = ptrw;
                    }
                    statements.push(TypeStatement::field((Visibility::Public, "x"), Type::ident("u8").const_pointer()));
                    let _ = size;
                    m.definitions.push(ItemDefinition::new(
                        (Visibility::Public, format!("T{k}").as_str()),
                        TypeDefinition::new(statements).with_attributes([Attribute::align(ptrw)]),
                    ));
                    m.impls.push(FunctionBlock::new(
                        format!("T{k}").as_str(),
                        [mk_fn(&format!("af{k}"), if k == 0 { *cc } else { cc_k }, recv, Some(0x1000_0000 + 0x40 * (out.len() * 4 + k)))],
                    ));
                }
                out.push((id.clone(), vec![(ItemPath::from(format!("{id}cc").as_str()), m)], ptrw));
            }
        }
    }
    }
    out
}

// ---------------------------------------------------------------------------
// C17

fn expect_pub(v: Visibility) -> bool {
    v == Visibility::Public
}

fn set_of(v: &[String]) -> BTreeSet<String> {
    v.iter().cloned().collect()
}

pub fn judge_c17(b: &Built, bad: &mut Vec<Bad>, stats: &mut BTreeMap<String, u64>) {
    let env = Env::new(&b.mods, b.ptrw);
    let mut cmp_docs = |what: String, want: Vec<String>, got: &Vec<String>, bad: &mut Vec<Bad>, stats: &mut BTreeMap<String, u64>| {
        *stats.entry("doc_sets_compared".into()).or_insert(0) += 1;
        if !want.is_empty() {
            *stats.entry("nonempty_doc_sets_compared".into()).or_insert(0) += 1;
        }
        if &want != got {
            let sig = if want.is_empty() {
                "C17/doc-on-undocumented-item"
            } else if got.is_empty() {
                "C17/doc-lost"
            } else if want.last().map(|s| s.is_empty()).unwrap_or(false) && got[..] == want[..want.len() - got.len().min(want.len())][..] && got.len() < want.len() && want[got.len()..].iter().all(|l| l.is_empty()) {
                "C17/doc-trailing-empty-line-lost"
            } else {
                "C17/doc-differs"
            };
            bad.push((sig.into(), format!("{what}: source doc lines {want:?}, emitted {got:?}")));
        }
    };
    for (mp, m) in &b.mods {
        let mps = mp.to_string();
        let Some(ef) = b.efiles.get(&mps) else {
            bad.push(("C17/module-file-missing".into(), format!("no emitted file for module `{mps}`")));
            continue;
        };
        cmp_docs(format!("module `{mps}`"), doc_lines(&m.attributes), &ef.inner_docs, bad, stats);
        let mut documented_structs: BTreeSet<String> = BTreeSet::new();
        for d in &m.definitions {
            let name = d.name.as_str();
            let path = format!("{mps}::{name}");
            match &d.inner {
                ItemDefinitionInner::Enum(ed) => {
                    let Some(ee) = ef.enum_(name) else {
                        bad.push(("C17/enum-missing".into(), format!("`{path}` not emitted")));
                        continue;
                    };
                    *stats.entry("items_checked".into()).or_insert(0) += 1;
                    if ee.public != expect_pub(d.visibility) {
                        bad.push(("C17/visibility/enum".into(), format!("`{path}` declared {:?}, emitted pub={}", d.visibility, ee.public)));
                    }
                    let mut want: BTreeSet<String> = ["PartialEq", "Eq", "PartialOrd", "Ord", "Debug"].iter().map(|s| s.to_string()).collect();
                    let copyable = attr_flag(&ed.attributes, "copyable");
                    if copyable {
                        want.insert("Copy".into());
                    }
                    if copyable || attr_flag(&ed.attributes, "cloneable") {
                        want.insert("Clone".into());
                    }
                    if attr_flag(&ed.attributes, "defaultable") {
                        want.insert("Default".into());
                    }
                    if set_of(&ee.derives) != want {
                        bad.push(("C17/derives/enum".into(), format!("`{path}` expected derives {want:?}, emitted {:?}", ee.derives)));
                    }
                    cmp_docs(format!("enum `{path}`"), doc_lines(&ed.attributes), &ee.docs, bad, stats);
                }
                ItemDefinitionInner::Type(td) => {
                    let Some(es) = ef.struct_(name) else {
                        bad.push(("C17/struct-missing".into(), format!("`{path}` not emitted")));
                        continue;
                    };
                    documented_structs.insert(name.to_string());
                    *stats.entry("items_checked".into()).or_insert(0) += 1;
                    if es.public != expect_pub(d.visibility) {
                        bad.push(("C17/visibility/type".into(), format!("`{path}` declared {:?}, emitted pub={}", d.visibility, es.public)));
                    }
                    let mut want: BTreeSet<String> = BTreeSet::new();
                    let copyable = attr_flag(&td.attributes, "copyable");
                    if copyable {
                        want.insert("Copy".into());
                    }
                    if copyable || attr_flag(&td.attributes, "cloneable") {
                        want.insert("Clone".into());
                    }
                    if attr_flag(&td.attributes, "defaultable") {
                        want.insert("Default".into());
                    }
                    if set_of(&es.derives) != want {
                        bad.push(("C17/derives/type".into(), format!("`{path}` expected derives {want:?}, emitted {:?}", es.derives)));
                    }
                    let packed = attr_flag(&td.attributes, "packed");
                    let has_packed = es.repr.iter().any(|r| r == "packed" || r.starts_with("packed("));
                    let has_align = es.repr.iter().any(|r| r.starts_with("align"));
                    if packed && (!has_packed || has_align) {
                        bad.push(("C17/packed-repr".into(), format!("`{path}` is packed; emitted repr {:?}", es.repr)));
                    }
                    if !packed && has_packed {
                        bad.push(("C17/packed-repr".into(), format!("`{path}` is not packed; emitted repr {:?}", es.repr)));
                    }
                    cmp_docs(format!("type `{path}`"), doc_lines(&td.attributes), &es.docs, bad, stats);
                    // fields
                    let mut declared: BTreeMap<String, (bool, Vec<String>)> = BTreeMap::new();
                    for st in &td.statements {
                        if let TypeField::Field(v, fname, _) = &st.field {
                            if fname.as_str() != "_" {
                                declared.insert(fname.0.clone(), (expect_pub(*v), doc_lines(&st.attributes)));
                            }
                        }
                    }
                    for f in &es.fields {
                        *stats.entry("fields_checked".into()).or_insert(0) += 1;
                        match declared.get(&f.name) {
                            Some((want_pub, docs)) => {
                                if f.public != *want_pub {
                                    bad.push(("C17/visibility/field".into(), format!("`{path}.{}` declared pub={want_pub}, emitted pub={}", f.name, f.public)));
                                }
                                cmp_docs(format!("field `{path}.{}`", f.name), docs.clone(), &f.docs, bad, stats);
                            }
                            None => {
                                // generated: padding or the vftable pointer
                                if f.public {
                                    bad.push(("C17/visibility/generated-field".into(), format!("generated field `{path}.{}` is public", f.name)));
                                }
                                cmp_docs(format!("generated field `{path}.{}`", f.name), vec![], &f.docs, bad, stats);
                            }
                        }
                    }
                    // vftable struct of a declared block
                    if let Some((fs, size)) = env.vftable_block(&path) {
                        let vname = format!("{name}Vftable");
                        if let (Some(vs), Ok(sl)) = (ef.struct_(&vname), refprog::slots(fs, size)) {
                            documented_structs.insert(vname.clone());
                            cmp_docs(format!("generated struct `{vname}`"), vec![], &vs.docs, bad, stats);
                            if vs.public != expect_pub(d.visibility) {
                                bad.push(("C17/visibility/vftable-struct".into(), format!("`{vname}` emitted pub={} for a type declared {:?}", vs.public, d.visibility)));
                            }
                            for (i, s) in sl.iter().enumerate() {
                                let (fname, want_pub, docs) = match s {
                                    Slot::Func(f) => (f.name.0.clone(), expect_pub(f.visibility), doc_lines(&f.attributes)),
                                    Slot::Placeholder => (format!("_vfunc_{i}"), false, vec![]),
                                };
                                if let Some(field) = vs.fields.iter().find(|x| x.name == fname) {
                                    *stats.entry("slots_checked".into()).or_insert(0) += 1;
                                    if field.public != want_pub {
                                        let kind = if matches!(s, Slot::Placeholder) { "placeholder-slot" } else { "slot" };
                                        bad.push((format!("C17/visibility/{kind}"), format!("`{vname}.{fname}` expected pub={want_pub}, emitted pub={}", field.public)));
                                    }
                                    cmp_docs(format!("vftable slot `{vname}.{fname}`"), docs, &field.docs, bad, stats);
                                }
                            }
                        }
                    }
                    // methods: re-exposed + own wrappers, then virtual wrappers
                    let mut expected_methods: BTreeMap<String, (bool, Vec<String>)> = BTreeMap::new();
                    for me in env.associated(&path) {
                        if me.name.starts_with('_') && me.kind == MKind::Own {
                            continue;
                        }
                        expected_methods.insert(me.name.clone(), (expect_pub(me.func.visibility), doc_lines(&me.func.attributes)));
                    }
                    if let Some((_, fs, _)) = env.virtuals(&path) {
                        for f in fs {
                            if f.name.as_str().starts_with('_') || !refprog::has_receiver(f) {
                                continue;
                            }
                            expected_methods.insert(f.name.0.clone(), (expect_pub(f.visibility), doc_lines(&f.attributes)));
                        }
                    }
                    for em in ef.methods_of(name) {
                        if em.name == "vftable" || em.name == "get" {
                            cmp_docs(format!("generated method `{path}::{}`", em.name), vec![], &em.docs, bad, stats);
                            if em.name == "get" && em.public != expect_pub(d.visibility) {
                                bad.push(("C17/visibility/singleton-accessor".into(), format!("`{path}::get` pub={} for a type declared {:?}", em.public, d.visibility)));
                            }
                            continue;
                        }
                        *stats.entry("methods_checked".into()).or_insert(0) += 1;
                        match expected_methods.get(&em.name) {
                            Some((want_pub, docs)) => {
                                if em.public != *want_pub {
                                    bad.push(("C17/visibility/method".into(), format!("`{path}::{}` declared pub={want_pub}, emitted pub={}", em.name, em.public)));
                                }
                                cmp_docs(format!("method `{path}::{}`", em.name), docs.clone(), &em.docs, bad, stats);
                            }
                            None => {
                                cmp_docs(format!("unexpected method `{path}::{}`", em.name), vec![], &em.docs, bad, stats);
                            }
                        }
                    }
                    for (mname, _) in &expected_methods {
                        if ef.method(name, mname).is_none() {
                            bad.push(("C17/method-missing".into(), format!("`{path}::{mname}` is not emitted")));
                        }
                    }
                }
            }
        }
        // extern value accessors
        for ev in &m.extern_values {
            let fname = format!("get_{}", ev.name);
            match ef.fns.iter().find(|f| f.name == fname) {
                Some(f) => {
                    *stats.entry("accessors_checked".into()).or_insert(0) += 1;
                    if f.public != expect_pub(ev.visibility) {
                        bad.push(("C17/visibility/extern-accessor".into(), format!("`{mps}::{fname}` declared {:?}, emitted pub={}", ev.visibility, f.public)));
                    }
                    // an extern value is not among the items whose docs must be carried over, but
                    // whatever its accessor carries has to be its own: docs appear on no other item
                    let own = doc_lines(&ev.attributes);
                    if !f.docs.is_empty() {
                        *stats.entry("documented_accessors_checked".into()).or_insert(0) += 1;
                        if f.docs.iter().map(|d| d.trim()).collect::<Vec<_>>() != own.iter().map(|d| d.trim()).collect::<Vec<_>>() {
                            bad.push(("C17/doc-on-other-item/extern-accessor".into(), format!("`{mps}::{fname}` carries docs {:?}, its extern value was documented {:?}", f.docs, own)));
                        }
                    }
                }
                None => bad.push(("C17/accessor-missing".into(), format!("`{mps}::{fname}` not emitted"))),
            }
        }
        // no docs on any other generated item
        for o in &ef.others {
            if !o.docs.is_empty() && o.kind == "const" && !o.name.starts_with("_CONFLICTING_") {
                bad.push(("C17/doc-on-undocumented-item".into(), format!("`{mps}`: const `{}` carries docs {:?}", o.name, o.docs)));
            }
        }
    }
}

// ---------------------------------------------------------------------------
// C14

fn tokens_norm(s: &str) -> String {
    match s.parse::<proc_macro2::TokenStream>() {
        Ok(ts) => crate::emitted::squeeze(&ts.to_string()),
        Err(_) => crate::emitted::squeeze(s),
    }
}

fn item_tokens(text: &str) -> Option<Vec<String>> {
    let f = syn::parse_file(text).ok()?;
    use quote::ToTokens;
    Some(f.items.iter().map(|i| crate::emitted::squeeze(&i.to_token_stream().to_string())).collect())
}

/// Judge an output tree against the input set (C14).
pub fn judge_c14(
    mods: &[(ItemPath, Module)],
    ptrw: usize,
    out_files: &BTreeMap<String, String>,
    bad: &mut Vec<Bad>,
    stats: &mut BTreeMap<String, u64>,
) {
    let env = Env::new(mods, ptrw);
    let want_files: BTreeSet<String> = mods.iter().map(|(p, _)| format!("{}.rs", p.to_string().replace("::", "/"))).collect();
    let got_files: BTreeSet<String> = out_files.keys().cloned().collect();
    *stats.entry("file_sets_compared".into()).or_insert(0) += 1;
    for f in want_files.difference(&got_files) {
        bad.push(("C14/file-missing".into(), format!("no output file `{f}`")));
    }
    for f in got_files.difference(&want_files) {
        bad.push(("C14/unexpected-file".into(), format!("unexpected output file `{f}`")));
    }
    for (mp, m) in mods {
        let mps = mp.to_string();
        let rel = format!("{}.rs", mps.replace("::", "/"));
        let Some(text) = out_files.get(&rel) else { continue };
        let Ok(ef) = crate::emitted::parse(text) else {
            bad.push(("C14/unparsable".into(), format!("`{rel}` is not parsable Rust")));
            continue;
        };
        let file_items = item_tokens(text).unwrap_or_default();
        // expected generated item names
        let mut want_structs: Vec<String> = vec![];
        let mut want_enums: Vec<String> = vec![];
        for d in &m.definitions {
            match &d.inner {
                ItemDefinitionInner::Type(_) => {
                    want_structs.push(d.name.0.clone());
                    if env.vftable_block(&format!("{mps}::{}", d.name)).is_some() {
                        want_structs.push(format!("{}Vftable", d.name));
                    }
                }
                ItemDefinitionInner::Enum(_) => want_enums.push(d.name.0.clone()),
            }
        }
        let mut want_getters: Vec<String> = m.extern_values.iter().map(|e| format!("get_{}", e.name)).collect();
        // prologue / epilogue items (rust backends only), in source order
        let mut pro_items: Vec<String> = vec![];
        let mut epi_items: Vec<String> = vec![];
        let mut foreign_markers: Vec<String> = vec![];
        for be in &m.backends {
            let is_rust = be.name.as_str() == "rust";
            for (txt, dst) in [(&be.prologue, &mut pro_items), (&be.epilogue, &mut epi_items)] {
                if let Some(t) = txt {
                    if is_rust {
                        match item_tokens(t) {
                            Some(items) => dst.extend(items),
                            None => dst.push(tokens_norm(t)),
                        }
                    } else {
                        foreign_markers.push(tokens_norm(t));
                    }
                }
            }
        }
        want_structs.sort();
        want_enums.sort();
        want_getters.sort();
        let mut got_structs: Vec<String> = ef.structs.iter().map(|s| s.name.clone()).collect();
        let mut got_enums: Vec<String> = ef.enums.iter().map(|s| s.name.clone()).collect();
        // prologue/epilogue may themselves define structs/enums/fns: remove those that
        // are accounted for by marker items
        let marker_set: BTreeSet<&String> = pro_items.iter().chain(epi_items.iter()).collect();
        let is_marker_item = |idx: usize| file_items.get(idx).map(|t| marker_set.contains(t)).unwrap_or(false);
        got_structs = ef.structs.iter().filter(|s| !is_marker_item(s.index)).map(|s| s.name.clone()).collect();
        got_enums = ef.enums.iter().filter(|s| !is_marker_item(s.index)).map(|s| s.name.clone()).collect();
        let mut got_getters: Vec<String> = ef
            .fns
            .iter()
            .filter(|f| !is_marker_item(f.index) && f.name.starts_with("get_"))
            .map(|f| f.name.clone())
            .collect();
        got_structs.sort();
        got_enums.sort();
        got_getters.sort();
        *stats.entry("module_item_sets_compared".into()).or_insert(0) += 1;
        *stats.entry("items_expected".into()).or_insert(0) += (want_structs.len() + want_enums.len() + want_getters.len()) as u64;
        let diff = |kind: &str, want: &Vec<String>, got: &Vec<String>, bad: &mut Vec<Bad>| {
            let mut w = want.clone();
            let mut g = got.clone();
            // multiset difference
            w.retain(|x| {
                if let Some(p) = g.iter().position(|y| y == x) {
                    g.remove(p);
                    false
                } else {
                    true
                }
            });
            for x in w {
                bad.push((format!("C14/{kind}-missing"), format!("`{rel}`: expected {kind} `{x}` is not emitted")));
            }
            for x in g {
                let sig = if want.contains(&x) { format!("C14/{kind}-duplicated") } else { format!("C14/{kind}-unexpected") };
                bad.push((sig, format!("`{rel}`: {kind} `{x}` emitted but not (or not that often) declared")));
            }
        };
        diff("struct", &want_structs, &got_structs, bad);
        diff("enum", &want_enums, &got_enums, bad);
        diff("accessor", &want_getters, &got_getters, bad);
        // prologue first, epilogue last, complete and in order
        if !pro_items.is_empty() || !epi_items.is_empty() {
            *stats.entry("prologue_epilogue_placements_checked".into()).or_insert(0) += 1;
        }
        if !pro_items.is_empty() {
            let head: Vec<String> = file_items.iter().take(pro_items.len()).cloned().collect();
            if head != pro_items {
                bad.push(("C14/prologue".into(), format!("`{rel}`: file does not start with the prologue items in source order; expected {} items {:?}…, found {:?}…", pro_items.len(), pro_items.first(), head.first())));
            }
        }
        if !epi_items.is_empty() {
            let n = file_items.len();
            let tail: Vec<String> = if n >= epi_items.len() { file_items[n - epi_items.len()..].to_vec() } else { vec![] };
            if tail != epi_items {
                bad.push(("C14/epilogue".into(), format!("`{rel}`: file does not end with the epilogue items in source order; expected {:?}…, found {:?}…", epi_items.first(), tail.first())));
            }
        }
        let whole = tokens_norm(text);
        for fm in &foreign_markers {
            if !fm.is_empty() && whole.contains(fm.as_str()) {
                bad.push(("C14/foreign-backend-text".into(), format!("`{rel}` contains text of a non-rust backend: {fm}")));
            }
        }
        // built-ins and extern types are not emitted
        for (name, _) in &m.extern_types {
            if ef.struct_(name.as_str()).is_some() || ef.enum_(name.as_str()).is_some() {
                bad.push(("C14/extern-type-emitted".into(), format!("`{rel}` defines extern type `{name}`")));
            }
        }
        for bi in crate::refmodel::BUILTIN_NAMES {
            // (a module may declare an item of its own with such a name; that one is emitted)
            let declared = m.definitions.iter().any(|d| d.name.as_str() == *bi);
            if ef.struct_(bi).is_some() && !declared {
                bad.push(("C14/builtin-emitted".into(), format!("`{rel}` defines built-in `{bi}`")));
            }
        }
    }
}

/// Declarations that would produce the same item (must be an error).
pub fn duplicate_items(mods: &[(ItemPath, Module)], ptrw: usize) -> Vec<String> {
    let env = Env::new(mods, ptrw);
    let mut seen: BTreeMap<String, usize> = BTreeMap::new();
    for (mp, m) in mods {
        let mps = mp.to_string();
        for d in &m.definitions {
            *seen.entry(format!("{mps}::{}", d.name)).or_insert(0) += 1;
        }
        for (n, _) in &m.extern_types {
            *seen.entry(format!("{mps}::{n}")).or_insert(0) += 1;
        }
    }
    // generated vftable structs (one per declaring type *declaration*)
    for (mp, m) in mods {
        let mps = mp.to_string();
        for d in &m.definitions {
            if let ItemDefinitionInner::Type(td) = &d.inner {
                if td.statements.iter().any(|s| s.field.is_vftable()) {
                    *seen.entry(format!("{mps}::{}Vftable", d.name)).or_insert(0) += 1;
                }
            }
        }
    }
    let _ = env;
    seen.into_iter().filter(|(_, n)| *n > 1).map(|(k, _)| k).collect()
}

// ---------------------------------------------------------------------------
// runners

fn gen_inputs(seed: u64, n: usize, label: u64, tweak: impl Fn(&mut Cfg) + Sync) -> Vec<(String, Vec<(ItemPath, Module)>, usize)> {
    (0..n)
        .into_par_iter()
        .map(|i| {
            let mut rng = Rng::derive(seed, label + i as u64);
            let ptrw = if i % 2 == 0 { 8 } else { 4 };
            let id = format!("k{i}_");
            let mut cfg = Cfg::rich(ptrw, &id);
            tweak(&mut cfg);
            let g = gen_prog::generate(&mut rng, &cfg);
            (id, g.mods, ptrw)
        })
        .collect()
}

pub fn run_c16(ctx: &mut Ctx) {
    ctx.rule = "random accepted programs from the rich generator (impl and vftable functions with 1-in-5 explicit conventions, inheritance, placeholders) plus the exhaustive product {no attribute + 7 conventions} x {&self,&mut self,no receiver} x chain depth 1..3 x widths {4,8}: every emitted vftable slot type and address-bound wrapper fn-pointer must carry the declared convention or the default (thiscall with receiver, system without; placeholders thiscall); misspelt convention names must be rejected; the emitted struct definitions (un-normalised ABI strings) must be accepted by nightly rustc for i686-pc-windows-msvc. non-trivial = accepted case with an explicit convention or a default reached through inheritance; distinct by structural hash".into();
    let n = ctx.tier.pick(1500, 30_000);
    let mut inputs = gen_inputs(ctx.seed, n, 0x1600_0000, |_| {});
    // several impl blocks for one type, one of them with a calling_convention attribute on the
    // BLOCK (which means nothing): the functions keep their own conventions and defaults
    {
        let mut rng = Rng::derive(ctx.seed, 0x16BB);
        let mut split = 0u64;
        for (k, (_, mods, _)) in inputs.iter_mut().enumerate() {
            if k % 3 != 1 {
                continue;
            }
            for (_, m) in mods.iter_mut() {
                if let Some(pos) = m.impls.iter().position(|b| b.functions.len() >= 2) {
                    let blk = m.impls.remove(pos);
                    let cut = rng.range(1, blk.functions.len() - 1);
                    let mut a = FunctionBlock::new(blk.name.as_str(), blk.functions[..cut].to_vec());
                    let mut b = FunctionBlock::new(blk.name.as_str(), blk.functions[cut..].to_vec());
                    let cc = Attribute::calling_convention(*rng.pick(&["cdecl", "stdcall", "fastcall", "C"]));
                    if rng.coin() {
                        a.attributes = Attributes(vec![cc]);
                    } else {
                        b.attributes = Attributes(vec![cc]);
                    }
                    m.impls.push(a);
                    m.impls.push(b);
                    split += 1;
                }
            }
        }
        ctx.count("types_with_two_impl_blocks_and_a_block_attribute", split);
    }
    for ptrw in [4usize, 8] {
        let ex = c16_exhaustive(ptrw, inputs.len());
        ctx.count("exhaustive_convention_cases", ex.len() as u64);
        inputs.extend(ex);
    }
    ctx.exhaustive = Some(true);
    ctx.extra.insert("exhaustive_scope".into(), json!("the convention x receiver x depth x width product is complete; random programs are samples"));
    // hostile: the derived table of the exhaustive chains alters or drops the convention of
    // an inherited slot (must be rejected; if accepted, the two tables disagree and are judged)
    {
        let mut rng = Rng::derive(ctx.seed, 0x16AA);
        let base_len = inputs.len();
        let mut extra = vec![];
        for (id, mods, ptrw) in inputs.iter().skip(n) {
            let mut m2 = mods.clone();
            let mut touched = false;
            for (_, m) in m2.iter_mut() {
                for d in m.definitions.iter_mut().skip(1) {
                    if let ItemDefinitionInner::Type(td) = &mut d.inner {
                        for st in td.statements.iter_mut() {
                            if let TypeField::Vftable(fs) = &mut st.field {
                                if let Some(f) = fs.first_mut() {
                                    let cur = crate::refmodel::attr_str(&f.attributes, "calling_convention");
                                    f.attributes.0.retain(|a| !matches!(a, Attribute::Function(i, _) if i.as_str() == "calling_convention"));
                                    if cur.is_none() || rng.coin() {
                                        let other = *rng.pick(&["cdecl", "stdcall", "fastcall", "C"]);
                                        if cur.as_deref() != Some(other) {
                                            f.attributes.0.push(Attribute::calling_convention(other));
                                        }
                                    }
                                    touched = true;
                                }
                            }
                        }
                    }
                }
            }
            if touched {
                let new_id = format!("k{}_", base_len + extra.len());
                for (p, _) in m2.iter_mut() {
                    *p = ItemPath::from(p.to_string().replacen(id.as_str(), &new_id, 1).as_str());
                }
                extra.push((new_id, m2, *ptrw));
            }
        }
        ctx.count("hostile_derived_convention_cases", extra.len() as u64);
        inputs.extend(extra);
    }
    let built: Vec<BuildOutcome> = inputs.par_iter().map(|(id, mods, ptrw)| l2::build_mods(id, mods, *ptrw)).collect();
    let mut stats = BTreeMap::new();
    let mut accepted: Vec<Built> = vec![];
    for o in built {
        ctx.eval();
        match o {
            BuildOutcome::Built(b) => accepted.push(b),
            BuildOutcome::Rejected(_) => ctx.count("rejected_by_pyxis", 1),
            BuildOutcome::Unparsable { .. } => ctx.count("emitted_unparsable", 1),
        }
    }
    ctx.count("accepted", accepted.len() as u64);
    for b in &accepted {
        let mut bad = vec![];
        let before = stats.get("explicit_conventions_compared").copied().unwrap_or(0);
        judge_c16(b, &mut bad, &mut stats);
        let after = stats.get("explicit_conventions_compared").copied().unwrap_or(0);
        let inherits = b.mods.iter().any(|(_, m)| m.definitions.iter().any(|d| matches!(&d.inner, ItemDefinitionInner::Type(td) if td.statements.iter().any(|s| attr_flag(&s.attributes, "base")))));
        if after > before || inherits {
            ctx.nontrivial(structural_hash(&b.mods, &b.id));
        }
        let mut seen = BTreeSet::new();
        for (sig, detail) in bad {
            if seen.insert(sig.clone()) {
                ctx.violation(&sig, &detail, case_json(&b.mods, b.ptrw));
            }
        }
    }
    if let Some(b) = accepted.iter().find(|b| b.id.starts_with("k1") && b.mods.len() == 1) {
        ctx.sample(json!({"case": case_json(&b.mods, b.ptrw)}));
    }
    if let Some(b) = accepted.last() {
        ctx.sample(json!({"case": case_json(&b.mods, b.ptrw)}));
    }
    // negatives: misspelt convention names
    let mut rng = Rng::derive(ctx.seed, 0x16FF);
    let mut neg = 0u64;
    for b in accepted.iter().take(ctx.tier.pick(400, 4000)) {
        let mut mods = b.mods.clone();
        let bad_name = *rng.pick(&["Thiscall", "this_call", "", "C ", "c", "STDCALL", "fast-call", "win64", "thiscall "]);
        let mut done = false;
        // any function of the program (impl block or vftable block); the bad attribute is the
        // only one, or sits before / after a valid one
        let shape = rng.below(8);
        let mut fns: Vec<&mut Function> = vec![];
        for (_, m) in mods.iter_mut() {
            for blk in m.impls.iter_mut() {
                fns.extend(blk.functions.iter_mut());
            }
            for d in m.definitions.iter_mut() {
                if let ItemDefinitionInner::Type(td) = &mut d.inner {
                    for st in td.statements.iter_mut() {
                        if let TypeField::Vftable(v) = &mut st.field {
                            fns.extend(v.iter_mut());
                        }
                    }
                }
            }
        }
        if !fns.is_empty() {
            let k = rng.below(fns.len());
            let f = &mut fns[k];
            f.attributes.0.retain(|a| !matches!(a, Attribute::Function(i, _) if i.as_str() == "calling_convention"));
            match shape {
                0 => f.attributes.0.push(Attribute::calling_convention(bad_name)),
                1 => {
                    f.attributes.0.insert(0, Attribute::calling_convention(bad_name));
                    f.attributes.0.push(Attribute::calling_convention("cdecl"));
                }
                2 => {
                    f.attributes.0.insert(0, Attribute::calling_convention("stdcall"));
                    f.attributes.0.push(Attribute::calling_convention(bad_name));
                }
                // the attribute in a shape that names no convention (or names one the wrong way):
                // an identifier instead of a string, a number, two arguments, none, `= "..."`
                3 => f.attributes.0.push(Attribute::Function("calling_convention".into(), vec![Expr::Ident(Ident((*rng.pick(&["cdecl", "bogus", "stdcall"])).to_string()))])),
                4 => f.attributes.0.push(Attribute::Function("calling_convention".into(), vec![Expr::IntLiteral(5)])),
                5 => f.attributes.0.push(Attribute::Function("calling_convention".into(), vec![Expr::StringLiteral("cdecl".into()), Expr::StringLiteral("stdcall".into())])),
                6 => f.attributes.0.push(Attribute::Function("calling_convention".into(), vec![])),
                _ => f.attributes.0.push(Attribute::Assign("calling_convention".into(), Expr::StringLiteral((*rng.pick(&["cdecl", "bogus"])).to_string()))),
            }
            done = true;
        }
        ctx.count(&format!("negative_shape_{shape}"), done as u64);
        if !done {
            continue;
        }
        neg += 1;
        ctx.eval();
        let out = drive::build_modules(&mods, b.ptrw, Opts { no_emit: true, ..Default::default() });
        match out.result {
            Ok(_) => ctx.violation("C16/unknown-convention-accepted", &format!("convention name {bad_name:?} was accepted"), case_json(&mods, b.ptrw)),
            Err(e) if e.stage == Stage::Panic => ctx.violation("C16/panic", &e.msg, case_json(&mods, b.ptrw)),
            Err(_) => ctx.count("unknown_conventions_rejected", 1),
        }
    }
    ctx.count("negative_cases", neg);
    // i686 acceptance of the un-normalised definitions
    let w4: Vec<&Built> = accepted.iter().filter(|b| b.ptrw == 4).take(ctx.tier.pick(300, 3000)).collect();
    let chunks: Vec<&[&Built]> = w4.chunks(40).collect();
    let results: Vec<Vec<(String, Vec<String>)>> = chunks
        .par_iter()
        .map(|chunk| {
            let mut files = vec![];
            let mut externs = vec![];
            for b in chunk.iter() {
                for (mp, t) in &b.texts {
                    files.push((mp.clone(), t.clone()));
                }
                externs.extend(l2::extern_list(&b.mods));
            }
            let sc = crate::probe::scratch("cc686");
            let res = crate::layoutdump::dump(&files, &externs, 4, &sc.path);
            let mut out = vec![];
            if !res.errors.is_empty() {
                for b in chunk.iter() {
                    let sc = crate::probe::scratch("cc686one");
                    let files: Vec<(String, String)> = b.texts.iter().map(|(a, t)| (a.clone(), t.clone())).collect();
                    let one = crate::layoutdump::dump(&files, &l2::extern_list(&b.mods), 4, &sc.path);
                    out.push((b.id.clone(), one.errors));
                }
            } else {
                for b in chunk.iter() {
                    out.push((b.id.clone(), vec![]));
                }
            }
            out
        })
        .collect();
    for (id, errs) in results.into_iter().flatten() {
        ctx.count("i686_msvc_definition_sets_compiled", 1);
        let abi_errs: Vec<&String> = errs.iter().filter(|e| e.contains("ABI") || e.contains("E0570") || e.contains("E0703") || e.contains("E0658")).collect();
        if let Some(e) = abi_errs.first() {
            if let Some(b) = accepted.iter().find(|b| b.id == id) {
                ctx.violation("C16/i686-rejects-abi", e, case_json(&b.mods, b.ptrw));
            }
        } else if !errs.is_empty() {
            ctx.count("i686_other_compile_errors", errs.len() as u64);
        }
    }
    for (k, v) in stats {
        ctx.count(&k, v);
    }
    if ctx.counter("wrapper_bodies_unrecognised") > 0 {
        ctx.inconclusive("some wrapper bodies had an unrecognised shape; their convention could not be read");
    }
    if ctx.distinct_count() < ctx.tier.pick(100, 1000) {
        ctx.inconclusive(format!("only {} distinct non-trivial cases", ctx.distinct_count()));
    }
}

/// exhaustive marker/visibility product for a 2-field type, an enum, one vfunc, one impl fn, one extern value
pub fn c17_exhaustive(first_id: usize) -> Vec<(String, Vec<(ItemPath, Module)>, usize)> {
    let mut out = vec![];
    // bits: type pub, field0 pub, field1 pub, copyable, cloneable, defaultable, packed, enum pub, enum copyable, enum cloneable, enum defaultable, vfunc pub, impl pub, ev pub
    for bits in 0u32..(1 << 14) {
        let b = |i: u32| bits & (1 << i) != 0;
        let id = format!("k{}_", first_id + out.len());
        let vis = |p: bool| if p { Visibility::Public } else { Visibility::Private };
        let mut tattrs = vec![];
        if b(3) {
            tattrs.push(Attribute::copyable());
        }
        if b(4) {
            tattrs.push(Attribute::cloneable());
        }
        if b(5) {
            tattrs.push(Attribute::defaultable());
        }
        let packed = b(6);
        if packed {
            tattrs.push(Attribute::packed());
        } else {
            tattrs.push(Attribute::align(4));
        }
        tattrs.push(Attribute::doc(" type doc"));
        let mut eattrs = vec![];
        if b(8) {
            eattrs.push(Attribute::copyable());
        }
        if b(9) {
            eattrs.push(Attribute::cloneable());
        }
        if b(10) {
            eattrs.push(Attribute::defaultable());
        }
        let m = Module::new()
            .with_definitions([
                ItemDefinition::new(
                    (vis(b(0)), "T"),
                    TypeDefinition::new([
                        TypeStatement::field((vis(b(1)), "a"), Type::ident("u32")).with_attributes([Attribute::doc(" field a")]),
                        TypeStatement::field((vis(b(2)), "b"), Type::ident("u16")),
                        TypeStatement::field((Visibility::Private, "_"), Type::Unknown(2)),
                    ])
                    .with_attributes(Attributes(tattrs)),
                ),
                ItemDefinition::new(
                    (vis(b(7)), "E"),
                    EnumDefinition::new(
                        Type::ident("u16"),
                        [
                            EnumStatement::field("A"),
                            EnumStatement::field("B").with_attributes(if b(10) { vec![Attribute::default()] } else { vec![] }),
                        ],
                        Attributes(eattrs),
                    ),
                ),
                ItemDefinition::new(
                    (Visibility::Public, "V"),
                    TypeDefinition::new([TypeStatement::vftable([Function::new((vis(b(11)), "vf"), [Argument::ConstSelf])
                        .with_attributes([Attribute::doc(" vf doc")])])]),
                ),
            ])
            .with_impls([FunctionBlock::new(
                "T",
                [Function::new((vis(b(12)), "af"), [Argument::ConstSelf]).with_attributes([Attribute::address(0x1000_0000), Attribute::doc(" af doc")])],
            )])
            .with_extern_values([ExternValue::new(vis(b(13)), "ev", Type::ident("u32"), [Attribute::address(0x6100_0000)])]);
        out.push((id.clone(), vec![(ItemPath::from(format!("{id}mv").as_str()), m)], if bits & 1 == 0 { 8 } else { 4 }));
    }
    out
}

/// Shapes at the edges of what decides a derive or a visibility: array lengths around 32
/// (the longest array with a Default impl), declared `_` fields, and virtual functions whose
/// names look like generated ones.
pub fn c17_shapes(first_id: usize) -> Vec<(String, Vec<(ItemPath, Module)>, usize)> {
    let mut out = vec![];
    let vis = |p: bool| if p { Visibility::Public } else { Visibility::Private };
    for len in [0usize, 1, 31, 32, 33, 64] {
        for elem in ["u8", "u32", "E"] {
            for markers in 0..8u32 {
                for gap in [0usize, 31, 32, 33] {
                    let id = format!("k{}_", first_id + out.len());
                    let mut tattrs = vec![Attribute::doc(" shape")];
                    if markers & 1 != 0 {
                        tattrs.push(Attribute::copyable());
                    }
                    if markers & 2 != 0 {
                        tattrs.push(Attribute::cloneable());
                    }
                    if markers & 4 != 0 {
                        tattrs.push(Attribute::defaultable());
                    }
                    let mut stmts = vec![TypeStatement::field((Visibility::Public, "arr"), Type::ident(elem).array(len)).with_attributes([Attribute::doc(" the array")])];
                    if gap > 0 {
                        stmts.push(TypeStatement::field((Visibility::Private, "_"), Type::Unknown(gap)));
                    }
                    let m = Module::new().with_definitions([
                        ItemDefinition::new(
                            (Visibility::Public, "E"),
                            EnumDefinition::new(Type::ident("u8"), [EnumStatement::field("A").with_attributes([Attribute::default()])], [Attribute::copyable(), Attribute::defaultable()]),
                        ),
                        ItemDefinition::new((Visibility::Public, "T"), TypeDefinition::new(stmts).with_attributes(Attributes(tattrs))),
                    ]);
                    out.push((id.clone(), vec![(ItemPath::from(format!("{id}sh").as_str()), m)], if (len + gap) % 2 == 0 { 8 } else { 4 }));
                }
            }
        }
    }
    for name in ["vf", "_vf", "_vfunc_7", "__", "_0", "vftable", "r#type", "_field_0"] {
        for public in [false, true] {
            for idx in [None, Some(3usize)] {
                let id = format!("k{}_", first_id + out.len());
                let mut f = Function::new((vis(public), name), [Argument::ConstSelf]).with_attributes([Attribute::doc(" a slot")]);
                if let Some(i) = idx {
                    f.attributes.0.push(Attribute::index(i));
                }
                let m = Module::new().with_definitions([
                    ItemDefinition::new(
                        (Visibility::Public, "V"),
                        TypeDefinition::new([
                            TypeStatement::vftable([Function::new((vis(!public), "first"), [Argument::MutSelf]), f.clone()]),
                            TypeStatement::field((vis(public), "x"), Type::ident("u8").const_pointer()),
                        ]),
                    ),
                    ItemDefinition::new(
                        (Visibility::Public, "D"),
                        TypeDefinition::new([TypeStatement::field((Visibility::Public, "base"), Type::ident("V")).with_attributes([Attribute::base()])]),
                    ),
                ]);
                out.push((id.clone(), vec![(ItemPath::from(format!("{id}vn").as_str()), m)], if public { 8 } else { 4 }));
            }
        }
    }
    out
}

pub fn run_c17(ctx: &mut Ctx) {
    ctx.rule = "random accepted programs from the rich generator (every pub/private mix on types, fields, vfuncs, impl fns, extern values; marker subsets; 0-3 doc lines incl. empty lines, leading spaces, quotes on modules, types, enums, fields, functions; inheritance so that inherited copies exist) plus the exhaustive 2^14 product of visibility/marker bits for a 2-field type, an enum, one vfunc, one impl fn and one extern value; every emitted item's visibility, derive set, packed/align repr and doc attributes (line for line) are compared with the source, and generated items (padding, vftable pointer, placeholder slots, vftable struct, accessors) must be private/undocumented. non-trivial = accepted case with >=1 documented item and a non-default visibility/marker combination; distinct by structural hash".into();
    let n = ctx.tier.pick(1500, 30_000);
    let mut inputs = gen_inputs(ctx.seed, n, 0x1700_0000, |_| {});
    let ex = c17_exhaustive(inputs.len());
    let stride = ctx.tier.pick(5usize, 1);
    let exn: Vec<_> = ex.into_iter().enumerate().filter(|(i, _)| i % stride == (ctx.seed as usize) % stride).map(|(_, x)| x).collect();
    ctx.count("exhaustive_marker_visibility_cases", exn.len() as u64);
    ctx.extra.insert("exhaustive_product".into(), json!({"bits": 14, "stride": stride, "complete": stride == 1}));
    inputs.extend(exn);
    let shapes = c17_shapes(inputs.len());
    ctx.count("edge_shape_cases", shapes.len() as u64);
    inputs.extend(shapes);
    // several documented extern values, declared in an order that is not the order of their
    // names, next to documented types and functions: every doc stays with its own item
    {
        let mut rng = Rng::derive(ctx.seed, 0x17EE);
        let n_ev = ctx.tier.pick(40usize, 600);
        for _ in 0..n_ev {
            let id = format!("k{}_", inputs.len());
            let mut names: Vec<String> = ["zeta", "alpha", "mid", "beta", "omega", "gamma"].iter().map(|s| s.to_string()).collect();
            for i in (1..names.len()).rev() {
                names.swap(i, rng.below(i + 1));
            }
            names.truncate(rng.range(2, 5));
            let mut m = Module::new().with_attributes(Attributes(vec![Attribute::doc(" module of documented globals")]));
            for (k, nm) in names.iter().enumerate() {
                let mut attrs = vec![];
                if rng.chance(2, 3) {
                    attrs.push(Attribute::doc(&format!(" the global called {nm}")));
                    if rng.coin() {
                        attrs.push(Attribute::doc(&format!(" second line about {nm}")));
                    }
                }
                attrs.push(Attribute::address(0x6200_0000 + k * 0x40));
                m.extern_values.push(ExternValue::new(if rng.coin() { Visibility::Public } else { Visibility::Private }, nm, Type::ident(*rng.pick(&["u32", "u64", "u8"])), attrs));
            }
            let t = TypeDefinition::new([TypeStatement::field((Visibility::Public, "x"), Type::ident("u32")).with_attributes([Attribute::doc(" the field")])])
                .with_attributes([Attribute::doc(" the type")]);
            m.definitions.push(ItemDefinition::new((Visibility::Public, "Holder"), t));
            m.impls.push(FunctionBlock::new(
                "Holder",
                [Function::new((Visibility::Public, "run"), [Argument::ConstSelf]).with_attributes(Attributes(vec![Attribute::doc(" the function"), Attribute::address(0x1200_0000)]))],
            ));
            inputs.push((id.clone(), vec![(ItemPath::from(format!("{id}evdoc").as_str()), m)], *rng.pick(&[4usize, 8])));
        }
        ctx.count("documented_extern_value_cases", n_ev as u64);
    }
    let built: Vec<BuildOutcome> = inputs.par_iter().map(|(id, mods, ptrw)| l2::build_mods(id, mods, *ptrw)).collect();
    let mut stats = BTreeMap::new();
    let mut sampled = 0;
    for o in built {
        ctx.eval();
        match o {
            BuildOutcome::Built(b) => {
                ctx.count("accepted", 1);
                if b.mods[0].0.to_string().ends_with("vn") {
                    ctx.count("accepted_slot_name_shapes", 1);
                } else if b.mods[0].0.to_string().ends_with("sh") {
                    ctx.count("accepted_array_length_shapes", 1);
                }
                let mut bad = vec![];
                let before = stats.get("nonempty_doc_sets_compared").copied().unwrap_or(0);
                judge_c17(&b, &mut bad, &mut stats);
                let after = stats.get("nonempty_doc_sets_compared").copied().unwrap_or(0);
                if after > before {
                    ctx.nontrivial(structural_hash(&b.mods, &b.id));
                }
                if sampled < 2 && bad.is_empty() && after > before {
                    sampled += 1;
                    ctx.sample(json!({"case": case_json(&b.mods, b.ptrw)}));
                }
                let mut seen = BTreeSet::new();
                for (sig, detail) in bad {
                    if seen.insert(sig.clone()) {
                        ctx.violation(&sig, &detail, case_json(&b.mods, b.ptrw));
                    }
                }
            }
            BuildOutcome::Rejected(_) => ctx.count("rejected_by_pyxis", 1),
            BuildOutcome::Unparsable { .. } => ctx.count("emitted_unparsable", 1),
        }
    }
    for (k, v) in stats {
        ctx.count(&k, v);
    }
    if ctx.distinct_count() < ctx.tier.pick(150, 1500) {
        ctx.inconclusive(format!("only {} distinct non-trivial cases", ctx.distinct_count()));
    }
    if ctx.counter("accepted_slot_name_shapes") < 8 || ctx.counter("accepted_array_length_shapes") < 100 {
        ctx.inconclusive("the edge shapes (slot names, array lengths around 32) were not accepted: nothing observed about them".to_string());
    }
}

fn c14_files(mods: &[(ItemPath, Module)], rng: &mut Rng) -> Vec<(String, String)> {
    mods.iter()
        .map(|(p, m)| (format!("{}.pyxis", p.to_string().replace("::", "/")), crate::render::render_random(m, rng)))
        .collect()
}

pub fn run_c14(ctx: &mut Ctx) {
    ctx.rule = "random multi-module trees (nested directories, modules without items, several backend blocks per module: rust and non-rust, prologue-only/epilogue-only/both with marker items) written to a real directory and built with pyxis::build; the output directory listing and the top-level items of every emitted file are compared with the declarations; collision inputs (duplicate type names, duplicate enum/type, user type named <T>Vftable next to T with a vftable block, duplicate extern type) must be rejected, and the hook event RegistryAdd{replaced: different} shows a silent overwrite at the moment it happens. non-trivial = accepted tree with >=2 modules, >=1 nested directory and >=1 backend block, or a collision input; distinct by structural hash".into();
    let n = ctx.tier.pick(500, 8000);
    let mut inputs = gen_inputs(ctx.seed, n, 0x1400_0000, |c| {
        c.backends = true;
        c.max_modules = 4;
    });
    // a third are hostile variants (e.g. emptied vftable blocks, extra by-value fields)
    for (i, inp) in inputs.iter_mut().enumerate() {
        if i % 3 == 2 {
            let mut rng = Rng::derive(ctx.seed, 0x1480_0000 + i as u64);
            crate::hostile::perturb(&mut inp.1, &mut rng);
        }
    }
    // inputs whose resolution takes several rounds in ways the generator does not produce
    // (types waiting for generated vftable structs, deferred after their own table was made),
    // each several times because the attempt order varies between builds
    for (k, (_, mods, ptrw)) in crate::c09::dedicated_inputs().into_iter().enumerate() {
        for rep in 0..ctx.tier.pick(6, 24) {
            inputs.push((format!("kd{k}r{rep}_"), mods.clone(), ptrw));
        }
    }
    let seed = ctx.seed;
    struct R {
        bad: Vec<Bad>,
        stats: BTreeMap<String, u64>,
        accepted: bool,
        nontrivial: bool,
        hash: u64,
        case: Value,
    }
    let results: Vec<R> = inputs
        .par_iter()
        .enumerate()
        .map(|(i, (id, mods, ptrw))| {
            let mut rng = Rng::derive(seed, 0x1401_0000 + i as u64);
            let mut mods = mods.clone();
            // extra backend shapes and an item-less module
            for (_, m) in mods.iter_mut() {
                if rng.chance(1, 3) {
                    m.backends.push(Backend::new("cpp").with_prologue(format!("struct CPP_MARKER_{i} {{}};")));
                }
                if rng.chance(1, 4) {
                    m.backends.push(Backend::new("rust").with_prologue(format!("pub const P2_{i}: u8 = 7;")).with_epilogue(format!("pub const E2_{i}: u8 = 9;\npub fn epi_fn_{i}() {{}}")));
                }
                if rng.chance(1, 6) {
                    m.backends.push(Backend::new("json").with_epilogue(format!("JSON_MARKER_{i}")));
                }
                if rng.chance(1, 4) && !m.extern_values.is_empty() {
                    // two views of one global: another extern value at an address already used
                    let ev = m.extern_values[rng.below(m.extern_values.len())].clone();
                    let mut twin = ev.clone();
                    twin.name = Ident(format!("{}_view{i}", ev.name));
                    twin.type_ = Type::ident("u8").const_pointer();
                    m.extern_values.push(twin);
                }
                if rng.chance(1, 4) {
                    // sections that end in a line comment, without a final newline: the next
                    // section (or the first generated item) must not end up inside the comment
                    m.backends.push(Backend::new("rust").with_prologue(format!("pub const P3_{i}: u8 = 1; // trailing note")).with_epilogue(format!("pub const E3_{i}: u8 = 2; // trailing note")));
                    if rng.coin() {
                        m.backends.push(Backend::new("rust").with_prologue(format!("pub const P4_{i}: u8 = 3;")).with_epilogue(format!("pub const E4_{i}: u8 = 4;")));
                    }
                }
            }
            if rng.chance(1, 3) {
                mods.push((ItemPath::from(format!("{id}empty::nothing").as_str()), Module::new()));
            }
            let files = c14_files(&mods, &mut rng);
            let mut bad = vec![];
            let mut stats = BTreeMap::new();
            let mut accepted = false;
            match drive::build_dir(&files, *ptrw) {
                Ok(out) => {
                    accepted = true;
                    judge_c14(&mods, *ptrw, &out, &mut bad, &mut stats);
                }
                Err(e) if e.stage == Stage::Panic => bad.push(("C14/panic".into(), e.msg)),
                Err(_) => {}
            }
            let nested = mods.iter().any(|(p, _)| p.len() > 1);
            let has_backend = mods.iter().any(|(_, m)| !m.backends.is_empty());
            let mut m = serde_json::Map::new();
            for (rel, t) in &files {
                m.insert(rel.clone(), json!(t));
            }
            R {
                bad,
                stats,
                accepted,
                nontrivial: accepted && mods.len() >= 2 && nested && has_backend,
                hash: structural_hash(&mods, id),
                case: json!({"ptrw": ptrw, "files": Value::Object(m)}),
            }
        })
        .collect();
    let mut sampled = 0;
    for r in results {
        ctx.eval();
        if r.accepted {
            ctx.count("accepted_trees", 1);
        } else {
            ctx.count("rejected_trees", 1);
        }
        if r.nontrivial {
            ctx.nontrivial(r.hash);
            if sampled < 1 && r.bad.is_empty() {
                sampled += 1;
                ctx.sample(r.case.clone());
            }
        }
        for (k, v) in r.stats {
            ctx.count(&k, v);
        }
        let mut seen = BTreeSet::new();
        for (sig, detail) in r.bad {
            if seen.insert(sig.clone()) {
                ctx.violation(&sig, &detail, r.case.clone());
            }
        }
    }
    // the input directory spelt relative to the working directory, in several ways, with a
    // sub-directory chain that repeats its name: one file per module at the same relative path
    // whatever the spelling (child processes: the working directory is per process)
    {
        let exe = std::env::current_exe().unwrap();
        let spellings: &[(&str, &str)] = &[("types", "types"), ("./types", "types"), ("types/", "types"), ("nest/types", "nest/types"), ("./nest/./types", "nest/types"), ("nest//types", "nest/types"), ("ty[p]es", "ty[p]es"), ("star*dir", "star*dir"), ("q?", "q?"), ("{a,b}", "{a,b}"), (".cache/types", ".cache/types"), ("up/../types", "types"), ("..dots/.t", "..dots/.t"), ("nest/../nest/types", "nest/types")];
        let tree: Vec<(&str, &str)> = vec![
            ("top.pyxis", "pub type Top { pub a: u32, }"),
            ("x.pyxis", "pub type X0 { pub a: u32, }"),
            ("types/x.pyxis", "pub type X1 { pub a: u32, }"),
            ("types/types/x.pyxis", "pub type X2 { pub a: u32, }"),
            ("nest/types/deep.pyxis", "pub type Deep { pub a: u32, }"),
            ("dot.pyxis", "pub type Dot { pub a: u32, }"),
            ("dot.x.pyxis", "pub type DotX { pub a: u64, }"),
            ("dot.rs.pyxis", "pub type DotRs { pub a: u16, }"),
            // several sections in ONE backend block: each complete, in source order
            ("multi.pyxis", "backend rust {\n    prologue \"pub const FIRST_P: u32 = 1;\";\n    prologue \"pub const SECOND_P: u32 = 2;\";\n    epilogue \"pub const FIRST_E: u32 = 1;\";\n    epilogue \"pub const SECOND_E: u32 = 2;\";\n}\nbackend rust prologue \"pub const THIRD_P: u32 = 3;\";\npub type Multi { pub a: u32, }"),
        ];
        let mut want: Vec<String> = tree.iter().map(|(rel, _)| format!("{}.rs", rel.trim_end_matches(".pyxis"))).collect();
        want.sort();
        for (spelt, real) in spellings {
            ctx.eval();
            let scratch = crate::drive::Scratch::new("rel");
            let files: Vec<(String, String)> = tree.iter().map(|(rel, t)| (format!("{real}/{rel}"), t.to_string())).collect();
            crate::drive::write_tree(&scratch.path, &files);
            std::fs::create_dir_all(scratch.path.join("out")).unwrap();
            // a spelling that climbs back (`up/../types`) needs the directory it climbs out of
            if let Some((before, _)) = spelt.split_once("/../") {
                std::fs::create_dir_all(scratch.path.join(before)).unwrap();
            }
            let mut cmd = std::process::Command::new(&exe);
            cmd.current_dir(&scratch.path).arg("child-build").arg(spelt).arg("out").arg("8");
            let r = crate::probe::run_tool(&mut cmd, std::time::Duration::from_secs(120));
            let case = json!({"cwd_relative_in_dir": spelt, "tree_below_it": tree.iter().map(|(a, b)| json!([a, b])).collect::<Vec<_>>()});
            if r.timed_out || !r.stdout.contains("RESULT") {
                eprintln!("relative-directory build without result: {}", crate::verdict::one_line(&r.stderr, 200));
                ctx.count("relative_directory_runs_without_result", 1);
                continue;
            }
            ctx.nontrivial(crate::rng::fnv(format!("relative{spelt}").as_bytes()));
            if r.stdout.contains("RESULT panic") {
                ctx.violation("C14/panic", &crate::verdict::one_line(&r.stdout, 300), case);
                continue;
            }
            if !r.stdout.contains("RESULT ok") {
                ctx.count("relative_directory_builds_rejected", 1);
                continue;
            }
            ctx.count("relative_directory_builds_accepted", 1);
            let mut got: Vec<String> = crate::drive::read_tree(&scratch.path.join("out")).keys().cloned().collect();
            got.sort();
            if got != want {
                ctx.violation("C14/output-listing/relative-input-directory", &format!("input directory spelt `{spelt}`: expected files {want:?}, written {got:?}"), case.clone());
            }
            if let Some(text) = crate::drive::read_tree(&scratch.path.join("out")).get("multi.rs") {
                let pos: Vec<Option<usize>> = ["FIRST_P", "SECOND_P", "THIRD_P", "struct Multi", "FIRST_E", "SECOND_E"].iter().map(|n| text.find(n)).collect();
                let in_order = pos.iter().all(|p| p.is_some()) && pos.windows(2).all(|w| w[0] < w[1]);
                if !in_order {
                    ctx.violation("C14/sections-of-one-backend-block", &format!("positions of FIRST_P, SECOND_P, THIRD_P, struct Multi, FIRST_E, SECOND_E in multi.rs: {pos:?} (each must be present, in this order)"), case);
                }
            }
        }
    }
    // collisions: two declarations that would produce the same item must be an error
    let coll = collision_cases(ctx.seed, ctx.tier.pick(60, 600));
    for (kind, mods, ptrw) in coll {
        ctx.eval();
        let dups = duplicate_items(&mods, ptrw);
        let out = drive::build_modules(&mods, ptrw, Opts { trace: true, ..Default::default() });
        let overwrites: Vec<String> = out
            .trace
            .iter()
            .filter_map(|e| match e {
                pyxis::verif::Event::RegistryAdd { path, replaced: pyxis::verif::Replaced::Different, .. } => Some(path.to_string()),
                _ => None,
            })
            .collect();
        ctx.count("collision_inputs", 1);
        ctx.count("registry_overwrite_events_seen", overwrites.len() as u64);
        ctx.nontrivial(structural_hash(&mods, "kc_") ^ 0xC0111);
        let case = json!({"kind": kind, "case": case_json(&mods, ptrw), "duplicate_items": dups, "registry_overwrites": overwrites});
        match &out.result {
            Ok(_) => ctx.violation(&format!("C14/duplicate-accepted/{kind}"), &format!("two declarations of {dups:?} accepted; registry overwrite events: {overwrites:?}"), case),
            Err(e) if e.stage == Stage::Panic => ctx.violation("C14/panic", &e.msg, case),
            Err(_) => ctx.count("collisions_rejected", 1),
        }
        if ctx.counter("collision_samples") < 1 {
            ctx.count("collision_samples", 1);
            ctx.sample(json!({"collision_kind": kind, "case": case_json(&mods, ptrw)}));
        }
    }
    // the same module path handed to add_module twice: the second must not replace the first
    for (k, (a, b)) in [
        ("pub type A { pub x: u32, }", "pub type B { pub y: u32, }"),
        ("pub type A { pub x: u32, }", "pub type A { pub x: u32, }"),
        ("pub type A { pub x: u32, }\nimpl A { #[address(0x1000)] pub fn f(&self); }", "#[address(0x7000)] pub extern g: u32;"),
    ]
    .iter()
    .enumerate()
    {
        ctx.eval();
        let parse = |t: &str| pyxis::parser::parse_str(t).expect("C14 twice-added module parses");
        let mods = vec![(ItemPath::from("kt_same"), parse(a)), (ItemPath::from("kt_same"), parse(b))];
        ctx.nontrivial(crate::rng::fnv(format!("twice{k}").as_bytes()));
        let out = drive::build_modules(&mods, 8, Opts::default());
        match &out.result {
            Ok(ok) => {
                // accepted: then everything both modules declare must be in the one file
                let text = ok.files.get("kt_same.rs").cloned().unwrap_or_default();
                let mut missing = vec![];
                for needle in ["struct A", if *b == "pub type B { pub y: u32, }" { "struct B" } else { "struct A" }] {
                    if !text.contains(needle) {
                        missing.push(needle);
                    }
                }
                if k == 2 && !(text.contains("fn f") && text.contains("get_g")) {
                    missing.push("fn f / get_g");
                }
                if !missing.is_empty() {
                    ctx.violation("C14/module-added-twice-replaced", &format!("add_module was called twice for one path and accepted; the file lacks {missing:?}"), case_json(&mods, 8));
                }
            }
            Err(e) if e.stage == Stage::Panic => ctx.violation("C14/panic", &e.msg, case_json(&mods, 8)),
            Err(_) => ctx.count("module_added_twice_rejected", 1),
        }
    }
    if ctx.distinct_count() < ctx.tier.pick(40, 400) {
        ctx.inconclusive(format!("only {} distinct non-trivial trees", ctx.distinct_count()));
    }
}

pub fn collision_cases(seed: u64, n: usize) -> Vec<(&'static str, Vec<(ItemPath, Module)>, usize)> {
    let mut out = vec![];
    for i in 0..n {
        let mut rng = Rng::derive(seed, 0x14C0_0000 + i as u64);
        let ptrw = *rng.pick(&[4usize, 8]);
        let fsz = |n: usize| {
            TypeDefinition::new([TypeStatement::field((Visibility::Public, "a"), Type::ident("u32").array(n))]).with_attributes([Attribute::align(4)])
        };
        let vt = TypeDefinition::new([TypeStatement::vftable([Function::new((Visibility::Public, "vf"), [Argument::ConstSelf])])]);
        let a = rng.range(1, 4);
        // every other round the two declarations are word for word the same
        let b = if i % 2 == 1 { a } else { rng.range(5, 8) };
        let (kind, m): (&'static str, Module) = match i % 5 {
            0 => (
                "duplicate-type",
                Module::new().with_definitions([ItemDefinition::new((Visibility::Public, "T"), fsz(a)), ItemDefinition::new((Visibility::Public, "T"), fsz(b))]),
            ),
            1 if a == b => (
                "duplicate-enum",
                Module::new().with_definitions([
                    ItemDefinition::new((Visibility::Public, "T"), EnumDefinition::new(Type::ident("u32"), [EnumStatement::field("A")], [])),
                    ItemDefinition::new((Visibility::Public, "T"), EnumDefinition::new(Type::ident("u32"), [EnumStatement::field("A")], [])),
                ]),
            ),
            1 => (
                "type-and-enum",
                Module::new().with_definitions([
                    ItemDefinition::new((Visibility::Public, "T"), fsz(a)),
                    ItemDefinition::new((Visibility::Public, "T"), EnumDefinition::new(Type::ident("u32"), [EnumStatement::field("A")], [])),
                ]),
            ),
            2 => (
                "user-type-named-like-vftable",
                Module::new().with_definitions(if rng.coin() {
                    vec![ItemDefinition::new((Visibility::Public, "T"), vt.clone()), ItemDefinition::new((Visibility::Public, "TVftable"), fsz(a))]
                } else {
                    vec![ItemDefinition::new((Visibility::Public, "TVftable"), fsz(a)), ItemDefinition::new((Visibility::Public, "T"), vt.clone())]
                }),
            ),
            3 => (
                "type-and-extern-type",
                Module::new()
                    .with_definitions([ItemDefinition::new((Visibility::Public, "T"), fsz(a))])
                    .with_extern_types([(Ident("T".into()), Attributes(vec![Attribute::size(b * 4), Attribute::align(4)]))]),
            ),
            _ => (
                "duplicate-extern-type",
                Module::new()
                    .with_definitions([ItemDefinition::new((Visibility::Public, "U"), TypeDefinition::new([TypeStatement::field((Visibility::Public, "x"), Type::ident("X"))]).with_attributes([Attribute::align(4)]))])
                    .with_extern_types([
                        (Ident("X".into()), Attributes(vec![Attribute::size(a * 4), Attribute::align(4)])),
                        (Ident("X".into()), Attributes(vec![Attribute::size(b * 4), Attribute::align(4)])),
                    ]),
            ),
        };
        out.push((kind, vec![(ItemPath::from(format!("kc_{i}").as_str()), m)], ptrw));
    }
    out
}

pub fn replay(ctx: &mut Ctx, which: &str, case: &Value) {
    ctx.eval();
    if which == "C14" {
        if let Some(files) = case["files"].as_object() {
            let ptrw = case["ptrw"].as_u64().unwrap_or(8) as usize;
            let fl: Vec<(String, String)> = files.iter().map(|(k, v)| (k.clone(), v.as_str().unwrap_or("").to_string())).collect();
            let mut mods = vec![];
            for (rel, t) in &fl {
                match pyxis::parser::parse_str(t) {
                    Ok(m) => mods.push((drive::module_path_of(rel), m)),
                    Err(e) => {
                        println!("replay: {rel} does not parse: {e}");
                        return;
                    }
                }
            }
            match drive::build_dir(&fl, ptrw) {
                Ok(out) => {
                    let mut bad = vec![];
                    let mut stats = BTreeMap::new();
                    judge_c14(&mods, ptrw, &out, &mut bad, &mut stats);
                    for (s, d) in bad {
                        ctx.violation(&s, &d, case.clone());
                    }
                }
                Err(e) => println!("replay: rejected: {}", e.msg),
            }
            return;
        }
        let inner = if case.get("case").is_some() { &case["case"] } else { case };
        if let Ok((mods, ptrw)) = mods_from_case(inner) {
            let dups = duplicate_items(&mods, ptrw);
            let out = drive::build_modules(&mods, ptrw, Opts::default());
            if out.result.is_ok() && !dups.is_empty() {
                ctx.violation("C14/duplicate-accepted/replay", &format!("{dups:?} accepted"), case.clone());
            }
        }
        return;
    }
    let Ok((mods, ptrw)) = mods_from_case(case) else {
        ctx.inconclusive("replay case does not parse");
        return;
    };
    let id = mods.first().map(|m| m.0.to_string()).unwrap_or_default();
    match l2::build_mods(&id, &mods, ptrw) {
        BuildOutcome::Built(b) => {
            let mut bad = vec![];
            let mut stats = BTreeMap::new();
            match which {
                "C16" => judge_c16(&b, &mut bad, &mut stats),
                _ => judge_c17(&b, &mut bad, &mut stats),
            }
            for (s, d) in bad {
                ctx.violation(&s, &d, case.clone());
            }
        }
        BuildOutcome::Rejected(e) => println!("replay: rejected by pyxis: {}", e.msg),
        BuildOutcome::Unparsable { error, .. } => println!("replay: unparsable: {error}"),
    }
}
