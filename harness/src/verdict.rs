//! Three-valued verdicts, evidence files, replay files, known-findings matching.

use serde_json::{json, Map, Value};
use std::collections::{BTreeMap, HashSet};
use std::path::PathBuf;
use std::time::Instant;

#[derive(Clone, Copy, PartialEq, Eq, Debug)]
pub enum Tier {
    Quick,
    Thorough,
}
impl Tier {
    pub fn name(&self) -> &'static str {
        match self {
            Tier::Quick => "quick",
            Tier::Thorough => "thorough",
        }
    }
    /// pick by tier
    pub fn pick<T>(&self, quick: T, thorough: T) -> T {
        match self {
            Tier::Quick => quick,
            Tier::Thorough => thorough,
        }
    }
}

pub fn verif_root() -> PathBuf {
    if let Ok(p) = std::env::var("VERIF_ROOT") {
        return PathBuf::from(p);
    }
    PathBuf::from("/verif")
}

#[derive(Clone, Debug)]
pub struct KnownFinding {
    pub property: String,
    pub signature: String,
    pub status: String,
    pub what: String,
    pub commit: Option<String>,
    pub witness: Value,
}

pub fn load_known_findings() -> Vec<KnownFinding> {
    let p = verif_root().join("known_findings.json");
    let Ok(text) = std::fs::read_to_string(&p) else {
        return vec![];
    };
    let Ok(v) = serde_json::from_str::<Value>(&text) else {
        eprintln!("warning: known_findings.json does not parse; treated as empty");
        return vec![];
    };
    let mut out = vec![];
    for e in v["findings"].as_array().cloned().unwrap_or_default() {
        out.push(KnownFinding {
            property: e["property"].as_str().unwrap_or("").to_string(),
            signature: e["signature"].as_str().unwrap_or("").to_string(),
            status: e["status"].as_str().unwrap_or("").to_string(),
            what: e["what"].as_str().unwrap_or("").to_string(),
            commit: e["commit"].as_str().map(|s| s.to_string()),
            witness: e["witness"].clone(),
        });
    }
    out
}

pub struct Violation {
    pub signature: String,
    pub detail: String,
    pub replay_path: String,
}

pub struct Ctx {
    pub prop: String,
    pub tier: Tier,
    pub seed: u64,
    start: Instant,
    pub evaluations: u64,
    distinct: HashSet<u64>,
    samples: Vec<Value>,
    pub extra: Map<String, Value>,
    pub counters: BTreeMap<String, u64>,
    pub violations: Vec<Violation>,
    violation_sigs: BTreeMap<String, u64>,
    pub known: Vec<KnownFinding>,
    known_hits: BTreeMap<String, u64>,
    pub rule: String,
    pub exhaustive: Option<bool>,
    pub assumptions: Vec<String>,
    pub inconclusive: Vec<String>,
    pub level: &'static str,
    max_replays_per_sig: u64,
}

impl Ctx {
    pub fn new(prop: &str, tier: Tier, seed: u64) -> Ctx {
        let known = load_known_findings()
            .into_iter()
            .filter(|k| k.property == prop)
            .collect();
        Ctx {
            prop: prop.to_string(),
            tier,
            seed,
            start: Instant::now(),
            evaluations: 0,
            distinct: HashSet::new(),
            samples: vec![],
            extra: Map::new(),
            counters: BTreeMap::new(),
            violations: vec![],
            violation_sigs: BTreeMap::new(),
            known,
            known_hits: BTreeMap::new(),
            rule: String::new(),
            exhaustive: None,
            assumptions: vec![],
            inconclusive: vec![],
            level: "exploration",
            max_replays_per_sig: 3,
        }
    }

    pub fn eval(&mut self) {
        self.evaluations += 1;
    }
    pub fn evals(&mut self, n: u64) {
        self.evaluations += n;
    }
    pub fn nontrivial(&mut self, structural_hash: u64) {
        self.distinct.insert(structural_hash);
    }
    pub fn distinct_count(&self) -> usize {
        self.distinct.len()
    }
    pub fn count(&mut self, key: &str, n: u64) {
        *self.counters.entry(key.to_string()).or_insert(0) += n;
    }
    pub fn counter(&self, key: &str) -> u64 {
        self.counters.get(key).copied().unwrap_or(0)
    }
    pub fn sample(&mut self, v: Value) {
        if self.samples.len() < 4 {
            self.samples.push(v);
        }
    }
    /// keep a sample unconditionally under a cap of its own (for per-phase samples)
    pub fn sample_phase(&mut self, phase: &str, v: Value) {
        let key = format!("sampled/{phase}");
        if self.counter(&key) < 2 {
            self.count(&key, 1);
            self.samples.push(json!({"phase": phase, "case": v}));
        }
    }
    pub fn inconclusive(&mut self, reason: impl Into<String>) {
        let r = reason.into();
        if !self.inconclusive.contains(&r) {
            self.inconclusive.push(r);
        }
    }

    pub fn is_known(&self, signature: &str) -> bool {
        self.known
            .iter()
            .any(|k| k.status == "known" && k.signature == signature)
    }

    /// Report a violation with its complete replay case. Known findings (status
    /// `known`, same signature) are counted and not reported as violations.
    pub fn violation(&mut self, signature: &str, detail: &str, case: Value) {
        if self.is_known(signature) {
            *self.known_hits.entry(signature.to_string()).or_insert(0) += 1;
            return;
        }
        let n = self.violation_sigs.entry(signature.to_string()).or_insert(0);
        *n += 1;
        if *n > self.max_replays_per_sig {
            return;
        }
        let dir = verif_root().join("replays").join(&self.prop);
        let _ = std::fs::create_dir_all(&dir);
        let fname = format!(
            "{}-{}-{}.json",
            signature.replace(['/', ' ', ':'], "_"),
            self.seed,
            *n
        );
        let path = dir.join(fname);
        let body = json!({
            "property": self.prop,
            "signature": signature,
            "detail": detail,
            "seed": self.seed,
            "tier": self.tier.name(),
            "case": case,
        });
        let _ = std::fs::write(&path, serde_json::to_string_pretty(&body).unwrap());
        println!(
            "VIOLATION property={} replay={}",
            self.prop,
            path.display()
        );
        println!("  signature={signature} detail={}", one_line(detail, 400));
        self.violations.push(Violation {
            signature: signature.to_string(),
            detail: detail.to_string(),
            replay_path: path.display().to_string(),
        });
    }

    /// Called for each `known` finding whose witness was replayed first and still fails.
    pub fn known_finding_line(&mut self, k: &KnownFinding) {
        println!("KNOWN-FINDING: property={} {} [{}]", self.prop, k.what, k.signature);
        *self.known_hits.entry(k.signature.clone()).or_insert(0) += 0;
    }

    pub fn total_violation_count(&self) -> u64 {
        self.violation_sigs.values().sum()
    }

    /// Write evidence and return the process exit code.
    pub fn finish(mut self) -> i32 {
        let wall = self.start.elapsed().as_secs_f64();
        let mut coverage = Map::new();
        coverage.insert("evaluations".into(), json!(self.evaluations));
        coverage.insert("distinct_nontrivial".into(), json!(self.distinct.len()));
        coverage.insert("rule".into(), json!(self.rule));
        if self.samples.is_empty() {
            // never invent a sample
        }
        coverage.insert("samples".into(), Value::Array(self.samples.clone()));
        if let Some(e) = self.exhaustive {
            coverage.insert("exhaustive".into(), json!(e));
        }
        let counters: Map<String, Value> = self
            .counters
            .iter()
            .filter(|(k, _)| !k.starts_with("sampled/"))
            .map(|(k, v)| (k.clone(), json!(v)))
            .collect();
        coverage.insert("observed".into(), Value::Object(counters));
        if !self.known_hits.is_empty() {
            coverage.insert(
                "known_finding_hits".into(),
                json!(self.known_hits),
            );
        }
        for (k, v) in std::mem::take(&mut self.extra) {
            coverage.insert(k, v);
        }
        let verdict = if !self.violations.is_empty() || self.total_violation_count() > 0 {
            "violated"
        } else if !self.inconclusive.is_empty() {
            "inconclusive"
        } else {
            "held"
        };
        coverage.insert("verdict".into(), json!(verdict));
        if !self.inconclusive.is_empty() {
            coverage.insert("inconclusive_reasons".into(), json!(self.inconclusive));
        }
        if !self.violation_sigs.is_empty() {
            coverage.insert("violation_signatures".into(), json!(self.violation_sigs));
        }
        let ev = json!({
            "property_id": self.prop,
            "tier": self.tier.name(),
            "seed": self.seed,
            "level": self.level,
            "coverage": Value::Object(coverage),
            "assumptions": self.assumptions,
            "wall_s": (wall * 1000.0).round() / 1000.0,
            "violations": self.total_violation_count(),
        });
        let dir = verif_root().join("evidence");
        let _ = std::fs::create_dir_all(&dir);
        let path = dir.join(format!("{}.json", self.prop));
        if let Err(e) = std::fs::write(&path, serde_json::to_string_pretty(&ev).unwrap()) {
            eprintln!("cannot write evidence {}: {e}", path.display());
        }
        println!(
            "{} {} tier={} seed={} evaluations={} distinct_nontrivial={} violations={} wall={:.1}s",
            self.prop,
            verdict.to_uppercase(),
            self.tier.name(),
            self.seed,
            self.evaluations,
            self.distinct.len(),
            self.total_violation_count(),
            wall
        );
        for (k, v) in &self.counters {
            if !k.starts_with("sampled/") {
                println!("  observed {k} = {v}");
            }
        }
        for (k, v) in &self.known_hits {
            println!("  known-finding hits {k} = {v}");
        }
        match verdict {
            "violated" => 1,
            "inconclusive" => {
                for r in &self.inconclusive {
                    println!("INCONCLUSIVE property={} reason={}", self.prop, r);
                }
                2
            }
            _ => 0,
        }
    }
}

pub fn one_line(s: &str, max: usize) -> String {
    let mut t: String = s.replace('\n', " | ");
    if t.len() > max {
        let mut cut = max;
        while !t.is_char_boundary(cut) {
            cut -= 1;
        }
        t.truncate(cut);
        t.push('…');
    }
    t
}
