// Probe runtime, compiled into every probe crate as `crate::rt`.
// Recorder, step framing, raw-memory objects, trampolines and data pages at
// absolute addresses (native only), JSONL observation log on stdout.
#![allow(dead_code, static_mut_refs, unused_unsafe, clippy::all)]

use std::io::Write;

pub static mut CUR_STEP: u64 = 0;
pub static mut TOKEN: u64 = 0x5EED_0000_0000_0100;
pub static mut CALL_ID: u64 = 0;
pub static mut EXPECT_WORDS: u64 = 0;
/// value the next recorder call returns (0 = fresh token)
pub static mut NEXT_RET: u64 = 0;
pub static mut NEXT_RET_SET: bool = false;

pub fn out(line: &str) {
    let so = std::io::stdout();
    let mut l = so.lock();
    let _ = l.write_all(line.as_bytes());
    let _ = l.write_all(b"\n");
    let _ = l.flush();
}

pub fn json_str(s: &str) -> String {
    let mut o = String::from("\"");
    for c in s.chars() {
        match c {
            '"' => o.push_str("\\\""),
            '\\' => o.push_str("\\\\"),
            '\n' => o.push_str("\\n"),
            c if (c as u32) < 0x20 => o.push_str(&format!("\\u{:04x}", c as u32)),
            c => o.push(c),
        }
    }
    o.push('"');
    o
}

pub fn fresh_token() -> u64 {
    unsafe {
        TOKEN = TOKEN.wrapping_add(0x0101_0101_0101_0202);
        TOKEN
    }
}

/// The value a recording stub should hand back: either what the probe asked for
/// (e.g. 0/1 for bool, a listed discriminant for an enum) or a fresh token.
pub fn ret_value() -> u64 {
    unsafe {
        if NEXT_RET_SET {
            NEXT_RET_SET = false;
            NEXT_RET
        } else {
            fresh_token()
        }
    }
}

pub fn set_next_ret(v: u64) {
    unsafe {
        NEXT_RET = v;
        NEXT_RET_SET = true;
    }
}

/// Called by the typed vftable stubs.
pub fn rec_stub(id: u64, args: &[u64]) -> u64 {
    let ret = ret_value();
    let a: Vec<String> = args.iter().map(|v| v.to_string()).collect();
    out(&format!(
        "{{\"k\":\"stub\",\"step\":{},\"id\":{},\"args\":[{}],\"ret\":{}}}",
        unsafe { CUR_STEP },
        id,
        a.join(","),
        ret
    ));
    ret
}

pub fn val(name: &str, v: u64) {
    out(&format!(
        "{{\"k\":\"val\",\"step\":{},\"name\":{},\"v\":{}}}",
        unsafe { CUR_STEP },
        json_str(name),
        v
    ));
}

pub fn sval(name: &str, v: i128) {
    out(&format!(
        "{{\"k\":\"val\",\"step\":{},\"name\":{},\"v\":{}}}",
        unsafe { CUR_STEP },
        json_str(name),
        v
    ));
}

pub fn note(name: &str, text: &str) {
    out(&format!(
        "{{\"k\":\"note\",\"step\":{},\"name\":{},\"text\":{}}}",
        unsafe { CUR_STEP },
        json_str(name),
        json_str(text)
    ));
}

/// Run one numbered probe step under catch_unwind, framed by begin/end records.
pub fn step(n: u64, start: u64, native_only: bool, f: impl FnOnce()) {
    if n < start {
        return;
    }
    if native_only && cfg!(miri) {
        return;
    }
    unsafe {
        CUR_STEP = n;
        NEXT_RET_SET = false;
    }
    out(&format!("{{\"k\":\"begin\",\"step\":{}}}", n));
    // marker on stderr so that sanitizer/valgrind reports can be attributed to a step
    eprintln!("@@step {}", n);
    let r = std::panic::catch_unwind(std::panic::AssertUnwindSafe(f));
    match r {
        Ok(()) => out(&format!("{{\"k\":\"end\",\"step\":{}}}", n)),
        Err(e) => {
            let msg = if let Some(s) = e.downcast_ref::<&str>() {
                s.to_string()
            } else if let Some(s) = e.downcast_ref::<String>() {
                s.clone()
            } else {
                "<panic>".to_string()
            };
            out(&format!(
                "{{\"k\":\"panic\",\"step\":{},\"msg\":{}}}",
                n,
                json_str(&msg)
            ));
        }
    }
}

pub fn start_arg() -> u64 {
    std::env::args().nth(1).and_then(|s| s.parse().ok()).unwrap_or(0)
}

pub fn init() {
    // keep panics quiet on stderr but visible in the log through `step`
    std::panic::set_hook(Box::new(|_| {}));
}

// ---------------------------------------------------------------------------
// raw-memory objects

pub struct Obj {
    pub ptr: *mut u8,
    pub size: usize,
    pub align: usize,
}

impl Obj {
    /// exactly `size` bytes at alignment `align`, filled with a byte pattern
    pub fn new(size: usize, align: usize, pattern: u8) -> Obj {
        let align = align.max(1);
        if size == 0 {
            return Obj {
                ptr: align as *mut u8,
                size,
                align,
            };
        }
        let layout = std::alloc::Layout::from_size_align(size, align).unwrap();
        let ptr = unsafe { std::alloc::alloc(layout) };
        assert!(!ptr.is_null());
        for i in 0..size {
            unsafe { ptr.add(i).write(pattern.wrapping_add((i as u8).wrapping_mul(31))) };
        }
        Obj { ptr, size, align }
    }
    pub fn addr(&self) -> u64 {
        self.ptr as usize as u64
    }
    /// store a pointer-typed value (keeps provenance under Miri)
    pub unsafe fn put_ptr(&self, offset: usize, p: *const u8) {
        assert!(offset + std::mem::size_of::<*const u8>() <= self.size, "put_ptr outside object");
        (self.ptr.add(offset) as *mut *const u8).write_unaligned(p);
    }
    pub unsafe fn put_fn(&self, offset: usize, p: *const ()) {
        assert!(offset + std::mem::size_of::<*const ()>() <= self.size, "put_fn outside table");
        (self.ptr.add(offset) as *mut *const ()).write_unaligned(p);
    }
    pub unsafe fn put_bytes(&self, offset: usize, bytes: &[u8]) {
        assert!(offset + bytes.len() <= self.size, "put_bytes outside object");
        for (i, b) in bytes.iter().enumerate() {
            self.ptr.add(offset + i).write(*b);
        }
    }
    pub unsafe fn byte(&self, offset: usize) -> u8 {
        self.ptr.add(offset).read()
    }
}

impl Drop for Obj {
    fn drop(&mut self) {
        if self.size != 0 {
            unsafe {
                std::alloc::dealloc(
                    self.ptr,
                    std::alloc::Layout::from_size_align(self.size, self.align).unwrap(),
                )
            };
        }
    }
}

// ---------------------------------------------------------------------------
// absolute addresses: trampolines and data pages (not under Miri)

#[cfg(not(miri))]
mod abs {
    use super::*;

    extern "C" {
        fn mmap(addr: *mut u8, len: usize, prot: i32, flags: i32, fd: i32, off: i64) -> *mut u8;
    }
    const PROT_READ: i32 = 1;
    const PROT_WRITE: i32 = 2;
    const PROT_EXEC: i32 = 4;
    const MAP_PRIVATE: i32 = 0x02;
    const MAP_ANONYMOUS: i32 = 0x20;
    const MAP_FIXED_NOREPLACE: i32 = 0x100000;
    const PAGE: usize = 4096;

    static mut MAPPED: Vec<usize> = Vec::new();

    /// make sure [addr, addr+len) is mapped RWX by us; false if the range is
    /// not available in this process
    pub fn ensure(addr: usize, len: usize) -> bool {
        if addr < 0x10000 || addr.checked_add(len).is_none() || addr + len > 0x7fff_0000_0000 {
            return false;
        }
        let first = addr / PAGE;
        let last = (addr + len - 1) / PAGE;
        for pg in first..=last {
            unsafe {
                if MAPPED.contains(&pg) {
                    continue;
                }
                let want = (pg * PAGE) as *mut u8;
                let got = mmap(
                    want,
                    PAGE,
                    PROT_READ | PROT_WRITE | PROT_EXEC,
                    MAP_PRIVATE | MAP_ANONYMOUS | MAP_FIXED_NOREPLACE,
                    -1,
                    0,
                );
                if got != want {
                    return false;
                }
                MAPPED.push(pg);
            }
        }
        true
    }

    /// The recorder every trampoline jumps to. Logs which address was entered
    /// (CALL_ID, stored by the trampoline), the first EXPECT_WORDS argument
    /// words (six integer registers, then stack words) and the value returned.
    pub unsafe extern "C" fn rec_abs(
        a0: u64,
        a1: u64,
        a2: u64,
        a3: u64,
        a4: u64,
        a5: u64,
        s0: u64,
        s1: u64,
        s2: u64,
        s3: u64,
    ) -> u64 {
        let all = [a0, a1, a2, a3, a4, a5, s0, s1, s2, s3];
        let n = (EXPECT_WORDS as usize).min(all.len());
        let ret = ret_value();
        let w: Vec<String> = all[..n].iter().map(|v| v.to_string()).collect();
        out(&format!(
            "{{\"k\":\"abs\",\"step\":{},\"addr\":{},\"words\":[{}],\"ret\":{}}}",
            CUR_STEP,
            CALL_ID,
            w.join(","),
            ret
        ));
        ret
    }

    /// Write at `addr`: mov rax, addr; mov [CALL_ID], rax; mov r11, rec_abs; jmp r11
    pub fn trampoline(addr: usize) -> bool {
        const LEN: usize = 33;
        if !ensure(addr, LEN) {
            return false;
        }
        let mut code: Vec<u8> = vec![];
        code.extend_from_slice(&[0x48, 0xB8]);
        code.extend_from_slice(&(addr as u64).to_le_bytes());
        code.extend_from_slice(&[0x48, 0xA3]);
        let slot = unsafe { std::ptr::addr_of_mut!(CALL_ID) } as usize as u64;
        code.extend_from_slice(&slot.to_le_bytes());
        code.extend_from_slice(&[0x49, 0xBB]);
        code.extend_from_slice(&(rec_abs as usize as u64).to_le_bytes());
        code.extend_from_slice(&[0x41, 0xFF, 0xE3]);
        assert_eq!(code.len(), LEN);
        unsafe {
            std::ptr::copy_nonoverlapping(code.as_ptr(), addr as *mut u8, LEN);
        }
        true
    }

    /// Map data at an absolute address and fill it with `bytes`.
    pub fn data(addr: usize, bytes: &[u8]) -> bool {
        if !ensure(addr, bytes.len().max(1)) {
            return false;
        }
        unsafe {
            std::ptr::copy_nonoverlapping(bytes.as_ptr(), addr as *mut u8, bytes.len());
        }
        true
    }
}

#[cfg(not(miri))]
pub use abs::{data, ensure, trampoline};

#[cfg(miri)]
pub fn trampoline(_addr: usize) -> bool {
    false
}
#[cfg(miri)]
pub fn data(_addr: usize, _bytes: &[u8]) -> bool {
    false
}

pub fn expect_words(n: u64) {
    unsafe {
        EXPECT_WORDS = n;
        CALL_ID = 0;
    }
}
