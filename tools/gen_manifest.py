#!/usr/bin/env python3
"""Regenerates /verif/MANIFEST.json from the table below (kept in one place so the
manifest is always schema-valid and in step with what ./check implements)."""
import json, os, subprocess, sys

ROOT = os.path.dirname(os.path.dirname(os.path.abspath(__file__)))

# id -> (technique, level text, level note, design ref)
CHECKS = {
    "C01": (
        "compiler-as-oracle layout monitor: offset_of!/executed addr_of on host + nightly windows-msvc layout dump vs declared addresses",
        "Builds hundreds (quick) to thousands (thorough) of generated accepted multi-module programs plus an exhaustive small space with the real pyxis, compiles the emitted structs with the real compiler (host at width 8; rustc_dump_layout for i686/x86_64-pc-windows-msvc at widths 4/8) and compares every named field's compiled offset with the declared address or the compiled end of the previous field. Three hostile families feed the same oracle with inputs that ought to be rejected (1-3 edits of valid programs; types whose fields want more alignment than a pointer, or whose declared size suits the fields only, embedded at pointer-aligned offsets; hierarchies in which a later base, not the first, has a vftable): whatever is accepted is judged. Exploration: held on the executions observed.",
        "Trusted: rustc layout computation and offset_of!, the nightly layout dump, syn as reader of emitted text. No number computed by pyxis is trusted.",
        "DESIGN.md §6 C01",
    ),
    "C02": (
        "compiler-as-oracle size/alignment monitor: registry vs size_of/align_of (host + windows-msvc dump) vs declared attributes vs emitted size-check literal",
        "Same generated workload as C01; for every emitted struct, enum and vftable struct the resolved (size, alignment) read from the public registry, the declared #[size]/#[align]/#[packed] and the literal of the emitted size check are compared with what the real compiler computes on the host and for *-pc-windows-msvc at both widths. Includes the hostile families of C01 (over-aligned empty and zero-sized inner types among them). Exploration.",
        "Trusted: rustc layout computation; nightly layout dump; that the msvc dump equals MSVC repr(C).",
        "DESIGN.md §6 C02",
    ),
    "C03": (
        "bounded-exhaustive + random differential monitor of build verdicts against a reference realisability predicate",
        "Runs the real SemanticState on every description of several complete bounded spaces (millions of single-type descriptions: <=2 fields over a 10-type alphabet x address x size x align x packed x both widths; 3 fields and vftable variants over a reduced alphabet) and on random larger ones, and compares Ok/Err and the resolved size/alignment with an independent reference predicate. Exhaustive within the stated bounds, sampled beyond.",
        "Trusted: refmodel::layout_type as restatement of the property (effective alignment without #[align] taken from the source's documented default rule).",
        "DESIGN.md §6 C03",
    ),
    "C04": (
        "recording-stub execution monitor (native + valgrind memcheck + Miri, ASan in thorough) of emitted virtual wrappers on raw-memory objects and tables; exhaustive slot-position sweep; compiled slot offsets at widths 4/8",
        "Executes every emitted virtual wrapper of generated accepted types against a raw fake vftable whose entries are distinct typed recording stubs and judges the recorded (stub id, receiver, arguments, return) offline: exactly one entry, the declared slot, receiver = object, arguments in order, result returned; a compiler error located inside the emitted text of an accepted input is a violation (the wrapper cannot be invoked at all); parameter names include the wrappers' own locals (`f`, `_f`, `this`) and a virtual function may also claim an #[address] or carry the generated name of a placeholder slot (hostile); every case is built right after another input set with the same module and type paths on the same thread (state kept between builds); sanitizers watch for out-of-table or misaligned reads. Slot positions are checked exhaustively for all blocks within stated bounds against the reference slot rule (contradictions must be rejected), and compiled slot byte offsets via the windows-msvc layout dump at both widths. Exploration, exhaustive for the slot sweep.",
        "Trusted: Miri/valgrind/ASan; rustc; the reference slot rule (refprog::slots); execution is on the 64-bit host with ABI strings normalised to C; assumption stated in the property that a vftable-carrying first base sits at offset 0.",
        "DESIGN.md §6 C04",
    ),
    "C05": (
        "trampoline execution monitor (native + valgrind) of address-bound wrappers at mmap'ed absolute addresses + emitted-text comparison + negative cases",
        "Maps a recording trampoline at each declared absolute address, calls the emitted wrapper with random argument values and checks the recorded address, receiver, argument registers/stack words (under width masks) and returned token; parameters named `f`/`_f`/`this` and a `this: *const T` next to the receiver are part of the workload, and a compiler error inside the emitted text is a violation; for every wrapper (including unmappable addresses) the address literal, parameter list, fn-pointer type, call argument order and return type are read from the emitted text; functions without address or with unresolvable parameter/return types must be rejected. Exploration.",
        "Trusted: SysV x86-64 calling convention for the normalised extern \"C\" pointer types; syn; valgrind.",
        "DESIGN.md §6 C05",
    ),
    "C06": (
        "enumerated inheritance shapes + single-slot mutants; executed vftable() accessor on raw objects (native, valgrind, Miri); emitted struct shape",
        "Enumerates chain depth x bases x vftable presence x derived block shapes at both widths, requires every single-slot mutation of a compatible derived table to be rejected (vacuity guarded by requiring the compatible table to be accepted), including mutants at placeholder and underscore-named slots, empty blocks, and a receiver replaced by an ordinary `this` parameter, each mutant alone and next to a compatible sibling over the same base (either name and declaration order, repeated for hash order); shapes include empty `vftable {}` roots and first bases that are empty, zero-sized or without a table while a later base has one; checks that owners have exactly one private pointer-typed vftable field first and derived types none, and executes the accessor to compare with the pointer stored in the base sub-object. Exploration with an enumerated core.",
        "Trusted: Miri/valgrind; rustc; syn; reference vftable-ownership rule.",
        "DESIGN.md §6 C06",
    ),
    "C07": (
        "recording-stub/trampoline execution monitor of re-exposed base members and AsRef/AsMut on raw objects (native, valgrind, Miri) + emitted method/impl sets vs reference method-set model",
        "For generated hierarchies (depth 1-4, up to three bases, diamonds, name clashes, private members, extern types as bases, same-named base types from different modules) every re-exposed method must exist under the reference name, forward to the right field and, when executed, enter the original callee with receiver = object + compiler-computed sub-object offset, same arguments and result; AsRef/AsMut must return object + sub-object offset for base types occurring once and be absent otherwise; every case is built right after another hierarchy under the same module and type paths on the same thread, so that anything pyxis keeps between builds meets a different definition under the same key. Exploration.",
        "Trusted: reference method-set model (refprog::associated, naming rule first-come with <field>_<name> on clash); offset_of! for sub-object offsets; Miri/valgrind.",
        "DESIGN.md §6 C07",
    ),
    "C08": (
        "executed enum probe (native + Miri) of discriminants/size/Default over generated enums + nightly no_core compile for i686-pc-windows-msvc with compiled-value assertions + exhaustive acceptance sweep against the reference rule",
        "Every accepted generated enum (all integer bases, 1-32 variants, boundary values, default marker at any position, a third through the text path) is emitted, compiled and its variants' numeric values, size/align and Default::default() read from the executed probe; the same enums are built for 4-byte pointers and their definitions compiled for i686-pc-windows-msvc, where every variant's compiled value must equal the value it is written with and size/alignment (compiled and in the registry) must be the base type's; acceptance (all stages incl. the backend) is compared with the reference rule for the complete space of <=3 variants x boundary constants x bases x default position. Exploration, exhaustive for the acceptance sweep (thorough).",
        "Trusted: rustc's evaluation of `E::V as i128`; Miri; the reference rule (first = 0, successor = previous + 1, range of the base type, default marker iff defaultable); duplicate discriminants unspecified here (C13).",
        "DESIGN.md §6 C08",
    ),
    "C09": (
        "schedule-enumerating determinism monitor: work-list hook permutations (complete <=6 items), re-drawn priorities, module add/write orders, repeated in-process builds, fresh child processes; byte comparison of outputs",
        "For order-sensitive input sets (generated programs, dependency graphs incl. failing ones, dedicated sets around generated vftable structs (referred to by pointer and by value, owner and embedder waiting for each other), base fields with explicit addresses, marker chains, cross-module cycles) drives the real build under every priority permutation of the user items through the hook in TypeRegistry::unresolved (complete for <=6 items, sampled beyond), priorities re-drawn on new registry keys, all module addition and write orders, repeated builds with fresh hash keys and fresh child processes on a real directory, and requires one Ok/Err verdict and byte-identical files. Exhaustive over work-list priority orders for small sets; sampled otherwise.",
        "Trusted: the scheduler hook realises only orders a hash map could produce (priority order fixed until a new key is registered); error texts are not compared.",
        "DESIGN.md §6 C09",
    ),
    "C10": (
        "differential build-verdict monitor over generated dependency graphs + hook-trace online checker (resolution order, progress, iteration bound) + exhaustive 3-type digraphs",
        "Builds random dependency graphs (2-12 types, enums, 1-4 modules; pointer cycles, by-value chains and cycles through fields/arrays/bases, undefined names in every position) and all 19683 labelled digraphs on 3 types with the real pyxis and compares Ok/Err, the type list of the non-termination error, the registry and the emitted items/signatures with the reference (least fixpoint of sizeable items); the hook trace is checked online: a type resolves only after its by-value dependencies, never twice, every continuing iteration makes progress (a resolved item or a generated vftable struct), iterations <= items + generated structs + 1. Edges include pointers to arrays and to pointers; undefined names also sit in `_`-prefixed and private functions. Exhaustive for the digraph space, sampled beyond.",
        "Trusted: reference unresolvable-set rule (DESIGN appendix A.2); layouts valid by construction from reference sizes; hook events placed in SemanticState::build.",
        "DESIGN.md §6 C10",
    ),
    "C11": (
        "exhaustive scoping-rule monitor: emitted paths and resolved sizes vs reference binder over all import orders/subsets",
        "For three providers of the same short name with distinct sizes, enumerates every ordered selection of type imports x module imports x interleaving x local definition x built-in name x consumer path x width (plus random sequences with repeated/bogus imports), self-imports of the module's own definition, and names of generated vftable structs (own, imported by name, in imported modules; blocks with and without functions or bases) under twelve attempt orders, builds with the real pyxis and compares the emitted fully qualified paths (field, pointer, array, signature, extern value) and the resolved size of the referring type with the definition the scoping rule selects; an unbound name must be rejected. Exhaustive within the stated product (thorough), strided in quick.",
        "Trusted: reference binder refprog::Env::bind (type import last-wins, built-in, same module, module imports first-wins).",
        "DESIGN.md §6 C11",
    ),
    "C12": (
        "crash/resource monitor: hostile inputs in worker child processes under catch_unwind, counting allocator with budget and hard cap, iteration bound from the hook trace, watchdog; per-input CPU-time limit inside the worker (30 s); parse-error position oracle",
        "Feeds tens of thousands (quick) to hundreds of thousands (thorough) of inputs in 16 categories (token/byte soup, token-level mutations and splices of valid files, boundary integers in every numeric position, recursive and deeply nested types, odd identifiers, stray tokens, file-system faults, API sequences, extern types at every power-of-two size/alignment as sole field, array element and base) to the real parser, SemanticState API and pyxis::build inside worker processes; a panic, abort, stack overflow, allocation beyond 64 MiB + 64 KiB per input byte (hard cap 1 GiB), more than items+1 resolution iterations, more than 30 s of CPU time on one input (inputs take milliseconds), or a parse error without a correct file:line:col is a violation; a watchdog firing is inconclusive. Exploration.",
        "Trusted: the counting global allocator of the harness; debug assertions and overflow checks enabled in the pyxis build under test; nesting depth limited to 1000 (inputs of a few kilobytes).",
        "DESIGN.md §6 C12",
    ),
    "C13": (
        "compiler-as-monitor: rustc --emit=metadata on assembled crates of generated accepted programs + nightly rustc for i686-pc-windows-msvc definitions + syn parse",
        "Assembles the emitted files of generated accepted multi-module programs (markers drawn independently of field types, cross-module references, inheritance, singletons, extern values, prologues/epilogues, dedicated marker/packed/singleton/discriminant cases, hostile perturbations of valid programs, and a name-clash family in which user names coincide with generated names or with each other: fields, variants, virtual functions, parameters, extern values, `vftable`/`get`/`_field_N`/`_vfunc_N`/`<base>_<fn>`) into crates mirroring the input tree with extern types supplied, and requires rustc to type-check them on the host and the definitions on i686-pc-windows-msvc. One-directional oracle: accepted => compiles. Exploration.",
        "Trusted: rustc; the supplied extern type stand-ins (repr(C, align) byte arrays deriving Copy/Clone/Default); ABI strings normalised to C on the host.",
        "DESIGN.md §6 C13",
    ),
    "C14": (
        "directory-level output monitor: pyxis::build on generated trees, listing + syn item multiset + prologue/epilogue token comparison; collision inputs; registry hook events",
        "Writes hundreds (quick) to thousands (thorough) of generated multi-module trees (nested directories, empty modules, rust and foreign backend blocks) to real directories, runs pyxis::build and compares the output directory listing and each file's top-level items with the declarations; input directories spelt relative to the working directory (`./x`, `x/`, repeated names, dotted file names, glob metacharacters, dot-directories and `..` on the way) are built in child processes; sections ending in line comments, twin extern values at one address and multi-round resolution inputs are included; a module path added twice must not replace the first; five kinds of colliding declarations must be rejected (hook event RegistryAdd{replaced: different} records a silent overwrite). Exploration.",
        "Trusted: syn as reader of emitted text; the reference list of expected items (types, enums, one <T>Vftable per vftable block, one get_<name> per extern value).",
        "DESIGN.md §6 C14",
    ),
    "C15": (
        "mapped-memory execution monitor (native + valgrind) of singleton and extern-value accessors + emitted-text comparison + negatives",
        "Maps data pages at the declared absolute addresses, stores a pointer (or null) / an enum value / a byte pattern there and executes the emitted accessors: struct get() must yield the stored pointer or None, also while the slot is rewritten between calls (pointer 1, pointer 2, null, in rotating order), enum get() the stored value, get_<name>() a reference to exactly the declared address of the declared type; address literals and types are also read from the text for every declaration; extern values without address must be rejected. Exploration.",
        "Trusted: mmap with MAP_FIXED_NOREPLACE; valgrind; syn.",
        "DESIGN.md §6 C15",
    ),
    "C16": (
        "emitted-text monitor of ABI strings (syn) over generated programs + exhaustive convention x receiver x depth product + i686-pc-windows-msvc acceptance by nightly rustc",
        "Reads the ABI string of every emitted vftable slot type and address-bound wrapper fn-pointer for generated accepted programs and for the complete product of conventions, receivers, chain depths and widths, and compares with the declared or default convention; misspelt names must be rejected; so must names written in a malformed attribute (identifier, number, two arguments, none, an assignment), alone or next to a valid one, on any function of the program; a calling_convention attribute on an impl BLOCK changes nothing; the un-normalised struct definitions are compiled by nightly rustc for i686-pc-windows-msvc where all seven conventions are real. Exhaustive for the product, sampled beyond.",
        "Trusted: syn; reference default rule (thiscall with receiver, system without, placeholders thiscall); nightly rustc's ABI validation.",
        "DESIGN.md §6 C16",
    ),
    "C17": (
        "emitted-text monitor (syn) of visibility, derives, repr and doc attributes over generated programs + exhaustive 2^14 visibility/marker product",
        "For generated accepted programs and the complete 2^14 product of visibility and marker bits, every emitted item's visibility, derive set, packed/align repr and doc attribute lines are compared with the source item they were written on, including vftable slots and inherited/forwarded copies; generated items must be private and undocumented. Exploration (exhaustive for the product in thorough).",
        "Trusted: syn; the reference method-set model (refprog::associated) for which copies a derived type carries.",
        "DESIGN.md §6 C17",
    ),
    "C19": (
        "metamorphic output monitor: bytes of the observed module's file across input sets that differ only outside its reachable closure",
        "For generated accepted multi-module sets with an observed module M, builds variants that remove, replace or add modules outside M's import closure (same short names elsewhere, in an ancestor and nested under M's path with vftable-bearing types, 40 filler types, M's extern type names declared earlier elsewhere with other sizes), and variants that add definitions M does not reference to a module M imports from (named like M's own types and generated vftable structs; item import, module import, both; both add orders), and requires byte-identical files for M and its closure whenever the variant is still accepted. Exploration.",
        "Trusted: closure computed from use paths; byte comparison.",
        "DESIGN.md §6 C19",
    ),
    "C20": (
        "metamorphic output monitor: bytes of all output files for a description and its meaning-preserving rewrites",
        "Rewrites generated accepted descriptions with each rewrite of the listed family (explicit address already held, gap <-> address, natural #[size], natural #[index], explicit enum value, re-spelt numbers through the text path, reordered definitions) — the reordering also over definitions whose names are equal up to case, leading zeros, raw prefix or a trailing underscore —, singly, at every site and in random combinations, and requires the rewritten description to be accepted with byte-identical output. Exploration.",
        "Trusted: the reference layout supplies the addresses/sizes the description already implies (cases it cannot lay out are skipped).",
        "DESIGN.md §6 C20",
    ),
    "C18": (
        "generated-AST print/parse round-trip monitor + rejection monitor on deliberately broken texts",
        "Runs the real parser on tens of thousands (quick) to millions (thorough) of texts printed from randomly generated abstract modules covering the whole grammar, with randomised legal spellings, and compares the returned value with the generating AST; broken texts must be rejected with an in-range position. Exploration, not proof: holds on the executions observed.",
        "Trusted: the harness printer (render.rs) as the definition of concrete syntax; derived PartialEq on grammar types; proc_macro2 span locations.",
        "DESIGN.md §6 C18",
    ),
}

NOT_YET = {}

def main():
    props = [json.loads(l) for l in open(os.path.join(ROOT, "properties.jsonl"))]
    ids = [p["id"] for p in props]
    try:
        commits = subprocess.check_output(
            ["git", "-C", "/repo", "log", "--format=%H %s"], text=True
        ).splitlines()
    except Exception:
        commits = []
    hook_commits = [c.split()[0] for c in commits if "verif feature" in c or "verif hook" in c.lower()]
    checks = []
    for pid in ids:
        if pid not in CHECKS:
            continue
        tech, text, note, ref = CHECKS[pid]
        checks.append({
            "property_id": pid,
            "quick_cmd": f"./check {pid} quick",
            "thorough_cmd": f"./check {pid} thorough",
            "evidence_file": f"/verif/evidence/{pid}.json",
            "replay_cmd_template": f"./check {pid} quick --replay {{path}}",
            "engine": "pvh",
            "level_claimed": {"category": "exploration", "text": text, "design_ref": ref},
            "level_note": note,
            "technique": tech,
        })
    na = []
    for pid in ids:
        if pid not in CHECKS:
            na.append({"property_id": pid, "reason": NOT_YET.get(pid, "check not built yet in this round; runtime monitoring applies (see DESIGN.md §6) and the property will be claimed once its monitor exists")})
    manifest = {
        "version": 1,
        "setup_cmd": "cd /verif/harness && CARGO_NET_OFFLINE=true cargo build --release --offline",
        "hooks": {
            "guard": "cargo feature `verif` of the pyxis crate (off by default)",
            "enable": "the harness crate depends on pyxis by path with features = [\"verif\"]; ./check rebuilds it from /repo's working tree on every invocation",
            "baseline_off_cmd": "cd /repo && cargo test --workspace --no-fail-fast --offline",
            "source_commits": hook_commits,
            "add_only": True,
        },
        "engines": [
            {
                "name": "pvh",
                "path": "/verif/harness",
                "serves_properties": sorted(CHECKS.keys()),
                "kind_free_text": "Rust harness: seeded generators, reference model, in-process and child-process drivers of pyxis with hook trace/scheduler, syn-based reader of emitted code, probe-crate builder that compiles and executes emitted bindings natively, under valgrind, ASan and Miri against recording stubs, offline checkers over the recorded observations",
            }
        ],
        "checks": checks,
        "not_applicable": na,
        "notes": "Technique family: runtime monitoring and sanitizers. Exit codes of every check: 0 held on everything explored, 1 violation (VIOLATION line), 2 inconclusive (never a VIOLATION line). Known findings live in /verif/known_findings.json.",
    }
    with open(os.path.join(ROOT, "MANIFEST.json"), "w") as f:
        json.dump(manifest, f, indent=1)
        f.write("\n")
    print("wrote MANIFEST.json with", len(checks), "checks;", len(na), "not claimed")

if __name__ == "__main__":
    main()
