#!/bin/bash
# usage: tools/revalidate_seed.sh <seed id>...
# Re-confirms stored seeded changes against /repo HEAD (after a patch was ported to a newer
# HEAD): copies seeded/<id> to a scratch source dir named as the demo expects (_seeded/<k>)
# and runs tools/validate_seed.sh on it.
set -u
ROOT="$(cd "$(dirname "$0")/.." && pwd)"
for ID in "$@"; do
  K=$(grep -o "_seeded/[0-9]*" "$ROOT/seeded/$ID/demo/run.sh" 2>/dev/null | head -1 | cut -d/ -f2)
  K=${K:-1}
  rm -rf /tmp/vsrc_$ID; mkdir -p /tmp/vsrc_$ID/$ID
  cp -r "$ROOT/seeded/$ID" /tmp/vsrc_$ID/$ID/$K
  [ -f /tmp/vsrc_$ID/$ID/$K/AGENT_README.md ] && cp /tmp/vsrc_$ID/$ID/$K/AGENT_README.md /tmp/vsrc_$ID/$ID/$K/README.md
  rm -f /tmp/vsrc_$ID/$ID/$K/meta.json.keep; [ -f "$ROOT/seeded/$ID/meta.json" ] && cp "$ROOT/seeded/$ID/meta.json" /tmp/vsrc_$ID/meta.keep
  "$ROOT/tools/validate_seed.sh" /tmp/vsrc_$ID/$ID/$K $ID 2>&1 | grep -A4 RESULT
  [ -f /tmp/vsrc_$ID/meta.keep ] && cp /tmp/vsrc_$ID/meta.keep "$ROOT/seeded/$ID/meta.json"
  rm -rf /tmp/vsrc_$ID
done
