#!/bin/bash
# usage: tools/run_all.sh <quick|thorough> [seed]  — runs every check, prints one summary line each
TIER="${1:-quick}"
export VERIF_SEED="${2:-1}"
cd "$(dirname "$0")/.."
for p in C01 C02 C03 C04 C05 C06 C07 C08 C09 C10 C11 C12 C13 C14 C15 C16 C17 C18 C19 C20; do
  start=$(date +%s)
  ./check $p $TIER > /tmp/run_all_$p.log 2>&1
  code=$?
  end=$(date +%s)
  echo "$p exit=$code $((end-start))s $(grep -E ' HELD| VIOLATED| INCONCLUSIVE' /tmp/run_all_$p.log | head -1)"
  grep -E '^VIOLATION|^INCONCLUSIVE|signature=' /tmp/run_all_$p.log | head -6
done
