#!/bin/bash
# usage: tools/seed_matrix.sh <out file> [seed ids...]
# For every seeded change: make a scratch worktree of /repo with the patch applied and a
# scratch copy of the harness whose path dependency points at it (so /repo itself is never
# touched and several seeds can run side by side), run EVERY quick check against it and
# append one line per (seed, check) to <out file>:  <seed> <check> <exit> <seconds> <signatures>
# Scratch lives under /tmp/sm and is removed per seed.
set -u
exec </dev/null
ROOT="$(cd "$(dirname "$0")/.." && pwd)"
REPO="${VP_RUN_REPO:-/repo}"
OUT="$1"; shift
SEEDS="${*:-$(ls "$ROOT/seeded")}"
CHECKS="${CHECKS:-C01 C02 C03 C04 C05 C06 C07 C08 C09 C10 C11 C12 C13 C14 C15 C16 C17 C18 C19 C20}"
mkdir -p /tmp/sm
for ID in $SEEDS; do
  WT=/tmp/sm/$ID-repo; H=/tmp/sm/$ID-h; VR=/tmp/sm/$ID-root
  rm -rf "$WT" "$H" "$VR"; git -C "$REPO" worktree prune
  git -C "$REPO" worktree add -q --detach "$WT" HEAD || continue
  if ! git -C "$WT" apply "$ROOT/seeded/$ID/patch.diff"; then echo "$ID - patch-does-not-apply" >> "$OUT"; git -C "$REPO" worktree remove --force "$WT"; continue; fi
  mkdir -p "$H" "$VR"
  rsync -a --exclude target "$ROOT/harness/" "$H/"
  mkdir -p /tmp/sm/probe_rt_parent_$ID;
  # the harness includes ../../probe_rt/rt.rs relative to src/: mirror that layout
  mkdir -p "/tmp/sm/$ID-layout/harness" "/tmp/sm/$ID-layout/probe_rt"
  rsync -a --exclude target "$ROOT/harness/" "/tmp/sm/$ID-layout/harness/"
  cp "$ROOT/probe_rt/rt.rs" "/tmp/sm/$ID-layout/probe_rt/rt.rs"
  rm -rf "$H" /tmp/sm/probe_rt_parent_$ID; H="/tmp/sm/$ID-layout/harness"
  sed -i "s|path = \"/repo\"|path = \"$WT\"|" "$H/Cargo.toml"
  cp "$ROOT/known_findings.json" "$VR/"
  built=0
  for attempt in 1 2 3 4; do
    if ( cd "$H" && CARGO_NET_OFFLINE=true cargo build --release --offline >/tmp/sm/$ID-build.log 2>&1 ); then built=1; break; fi
    # cargo's target probe fails spuriously on a loaded machine; anything else is a real error
    grep -q "learn about target-specific information" /tmp/sm/$ID-build.log || break
    sleep $((attempt * 3))
  done
  [ "$built" = 1 ] || echo "$ID - harness-build-failed: $(grep -m1 '^error' /tmp/sm/$ID-build.log | cut -c1-160)" >> "$OUT"
  if [ -x "$H/target/release/pvh" ]; then
    # CHECKS=own: only the check of the property the seed is filed under
    [ "$CHECKS" = own ] && SEED_CHECKS="${ID%%-*}" || SEED_CHECKS="$CHECKS"
    for c in $SEED_CHECKS; do
      start=$(date +%s)
      VERIF_ROOT="$VR" VERIF_SEED="${VERIF_SEED:-1}" "$H/target/release/pvh" $c quick > /tmp/sm/$ID-$c.log 2>&1; code=$?
      end=$(date +%s)
      sigs=$(grep -o 'signature=[^ ]*' /tmp/sm/$ID-$c.log | sed 's/signature=//' | sort | uniq -c | sort -rn | head -3 | awk '{printf "%s(x%s) ", $2, $1}')
      echo "$ID $c $code $((end-start))s $sigs" >> "$OUT"
    done
  fi
  git -C "$REPO" worktree remove --force "$WT" >/dev/null 2>&1
  rm -rf "$WT" "/tmp/sm/$ID-layout" "$VR" /tmp/sm/$ID-*.log
done
echo "DONE $SEEDS" >> "$OUT"
