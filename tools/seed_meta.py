#!/usr/bin/env python3
"""Writes /verif/seeded/<id>/meta.json for every seeded change and prints the
markdown table (seed x catching checks) for DESIGN.md.
usage: tools/seed_meta.py <matrix file>...   (lines: <seed> <check> <exit> <secs> <signatures>)"""
import json, os, re, sys, glob

ROOT = os.path.dirname(os.path.dirname(os.path.abspath(__file__)))
results = {}
for f in sys.argv[1:]:
    for line in open(f):
        parts = line.split(None, 4)
        if len(parts) < 3 or parts[0] == "DONE":
            continue
        seed, check, code = parts[0], parts[1], parts[2]
        sigs = parts[4].strip() if len(parts) > 4 else ""
        results.setdefault(seed, {})[check] = (code, sigs)

rows = []
for d in sorted(glob.glob(os.path.join(ROOT, "seeded", "C*"))):
    sid = os.path.basename(d)
    prop = sid.split("-")[0]
    patch = open(os.path.join(d, "patch.diff")).read()
    files = sorted(set(re.findall(r"^\+\+\+ b/(\S+)", patch, re.M)))
    readme = ""
    p = os.path.join(d, "AGENT_README.md")
    if os.path.exists(p):
        readme = open(p).read()
    title = ""
    first = next((l.strip() for l in readme.splitlines() if l.strip()), "")
    m = re.search(r"^#\s*(.+)$", readme, re.M)
    if first and not first.startswith("#"):
        # round 7 onwards: the first line is the one-sentence title, without a heading mark
        title = re.sub(r"^(\*\*)?Title:?(\*\*)?:?\s*", "", first).strip()
    elif m:
        title = m.group(1).strip()
    needs = ""
    m = re.search(r"(?is)^#+\s*(what it needs[^\n]*|needs[^\n]*|trigger[^\n]*|manifest[^\n]*)\n(.+?)(?=^#|\Z)", readme, re.M)
    if m:
        needs = re.sub(r"\s+", " ", m.group(2)).strip()[:900]
    r = results.get(sid, {})
    caught = sorted(c for c, (code, _) in r.items() if code == "1")
    inconclusive = sorted(c for c, (code, _) in r.items() if code == "2")
    own = r.get(prop, ("?", ""))
    meta = {
        "seed": sid,
        "breaks_property": prop,
        "title": title,
        "files_touched": files,
        "needs_to_manifest": needs,
        "origin": "written by an independent sub-agent that saw only the property text and a scratch worktree",
        "confirmed_by": "tools/validate_seed.sh: patch applies to /repo HEAD in a scratch worktree, cargo build + 62 tests pass with it, demo/run.sh fails with it and passes without it",
        "checks_run": "tools/seed_matrix.sh: every quick check against a scratch copy of the repository with the patch applied (seed 1)",
        "caught_by_quick_checks": caught,
        "own_property_check": {"exit": own[0], "signatures": own[1]},
        "inconclusive_checks": inconclusive,
    }
    json.dump(meta, open(os.path.join(d, "meta.json"), "w"), indent=1)
    rows.append((sid, title, caught, own))

print("| seeded change | what it does | caught by (quick, seed 1) | signatures of the targeted property's check |")
print("|---|---|---|---|")
for sid, title, caught, own in rows:
    t = re.sub(r"^(Seeded change \d+\s*[—:-]\s*|Change \d+\s*[—:-]\s*|C\d+ seeded (defect|change) \d+\s*[—:-]?\s*)", "", title, flags=re.I)
    print(f"| {sid} | {t[:110]} | {' '.join(caught) if caught else '**none**'} | {own[1][:160] if own[0]=='1' else ('—' if own[0]=='0' else 'exit '+own[0])} |")
