#!/bin/bash
# usage: tools/try_seed.sh <seed id> [checks...]
# Applies /verif/seeded/<id>/patch.diff to /repo, runs the given checks (default:
# the property named in the id, quick), prints one line per check, and undoes it.
set -u
ID="$1"; shift
ROOT="$(cd "$(dirname "$0")/.." && pwd)"
PROP="${ID%%-*}"
CHECKS="${*:-$PROP}"
if [ -n "$(git -C /repo status --porcelain -- src Cargo.toml)" ]; then echo "refusing: /repo has uncommitted changes"; exit 2; fi
git -C /repo apply "$ROOT/seeded/$ID/patch.diff" || { echo "patch does not apply"; exit 2; }
trap 'git -C /repo checkout -- . ' EXIT
export VERIF_ROOT=/tmp/seedrun/$ID
mkdir -p "$VERIF_ROOT"; cp "$ROOT/known_findings.json" "$VERIF_ROOT/" 2>/dev/null
for c in $CHECKS; do
  start=$(date +%s)
  "$ROOT/check" $c "${TIER:-quick}" > /tmp/seedrun_${ID}_$c.log 2>&1; code=$?
  end=$(date +%s)
  sigs=$(grep -o 'signature=[^ ]*' /tmp/seedrun_${ID}_$c.log | sort | uniq -c | sort -rn | head -4 | awk '{printf "%s(x%s) ", $2, $1}')
  echo "SEED $ID check=$c exit=$code $((end-start))s $sigs"
done
