#!/bin/bash
# usage: tools/validate_seed.sh <source dir with patch.diff, demo/, README.md> <seed id>
# Confirms in a scratch worktree (outside /repo and /verif) that the seeded change
#   (a) applies, builds and passes the existing suite, (b) makes the demo fail,
#   (c) the demo passes without it.  On success copies it to /verif/seeded/<id>/.
set -u
exec </dev/null
SRC="$1"; ID="$2"
K="$(basename "$SRC")"
WT="/tmp/val/$ID"
ROOT="$(cd "$(dirname "$0")/.." && pwd)"
rm -rf "$WT"; git -C /repo worktree prune
git -C /repo worktree add -q --detach "$WT" HEAD || { echo "RESULT $ID worktree-failed"; exit 2; }
cleanup() { git -C /repo worktree remove --force "$WT" >/dev/null 2>&1; rm -rf "$WT"; }
trap cleanup EXIT
export CARGO_TARGET_DIR="$WT/target" CARGO_NET_OFFLINE=true RUST_BACKTRACE=0
cd "$WT"
if ! git apply --check "$SRC/patch.diff" 2>/tmp/val_$ID.err; then echo "RESULT $ID patch-does-not-apply: $(head -c 300 /tmp/val_$ID.err)"; exit 1; fi
git apply "$SRC/patch.diff"
if ! cargo build --offline >/tmp/val_$ID.build 2>&1; then echo "RESULT $ID does-not-build"; exit 1; fi
T=$(cargo test --offline --lib 2>&1 | grep "test result" | head -1)
case "$T" in *"62 passed; 0 failed"*) ;; *) echo "RESULT $ID suite-not-green: $T"; exit 1;; esac
# demo with the change: must fail
cp -r "$SRC/demo/." "$WT/" 2>/dev/null
# many run.sh refer to _seeded/<k>/demo/... relative to the repository root
mkdir -p "$WT/_seeded/$K"; cp -r "$SRC/." "$WT/_seeded/$K/"
# demos usually are tests/*.rs + run.sh; copy test files into tests/ when they are loose .rs files
mkdir -p "$WT/tests"
for f in "$SRC"/demo/*.rs; do [ -e "$f" ] && cp "$f" "$WT/tests/"; done
RUN="$SRC/demo/run.sh"
if [ ! -f "$RUN" ]; then echo "RESULT $ID no-run.sh"; exit 1; fi
( cd "$WT" && bash "$RUN" ) >/tmp/val_$ID.with 2>&1; WITH=$?
git checkout -q -- src Cargo.toml
( cd "$WT" && bash "$RUN" ) >/tmp/val_$ID.without 2>&1; WITHOUT=$?
if [ $WITH -ne 0 ] && [ $WITHOUT -eq 0 ]; then
  mkdir -p "$ROOT/seeded/$ID"
  cp "$SRC/patch.diff" "$ROOT/seeded/$ID/patch.diff"
  rm -rf "$ROOT/seeded/$ID/demo"; cp -r "$SRC/demo" "$ROOT/seeded/$ID/demo"
  [ -f "$SRC/README.md" ] && cp "$SRC/README.md" "$ROOT/seeded/$ID/AGENT_README.md"
  echo "RESULT $ID confirmed (demo exit with=$WITH without=$WITHOUT)"
  exit 0
fi
echo "RESULT $ID not-confirmed (demo exit with=$WITH without=$WITHOUT)"
tail -5 /tmp/val_$ID.with | sed 's/^/   with: /'
tail -5 /tmp/val_$ID.without | sed 's/^/   without: /'
exit 1
